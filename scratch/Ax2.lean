import RosuModel.Props.C04All
open Rosu.C04
#print axioms ieee_repTimingMap
#print axioms ieee_timing_text
#print axioms ieee_collectedTimes
