import RosuModel.Props.C04DecodedTiming
import RosuModel.Props.C04DecodedObjectsToy
namespace Rosu.C04
open Rosu Scalar Encode EncodeLines RtTiming DecodedObj

set_option maxRecDepth 100000

def overLines : List Str :=
  [str "osu file format v14", str "", str "[General]", str "Mode: 1", str "[TimingPoints]", str "0,6,4,2,0,100,1,0",
   str "[HitObjects]", str "0,0,2147483647,2,0,L|100:0,1,100"]

def overState : BeatmapState ZC ZC := frame beatmapDecoder overLines
def overMap : Beatmap ZC ZC :=
  match overState.finish with | .ok m => m | .error _ => noObjectsMap overState

theorem over_finishes : overState.finish = .ok overMap := by
  have hok : overState.finish.toOption.isSome = true := by decide +kernel
  unfold overMap
  cases h : overState.finish with
  | error e => rw [h] at hok; cases hok
  | ok m => rfl

#eval (collectAll overMap overMap.hitObjects []).toOption.map (fun l => l.map (fun p => (p.time.v, p.sampleVolume, p.customSampleBank)))
#eval overMap.controlPoints.samplePoints.map (fun p => (p.time.v, p.sampleVolume, p.customSampleBank))
#eval (collectSamples overMap).toOption.map (fun l => l.samplePoints.map (fun p => (p.time.v, p.sampleVolume, p.customSampleBank)))
end Rosu.C04
