import RosuModel.Props.C04DecodedTimingIeee
import RosuModel.Model.Cmds.Curve
namespace Rosu.C04
open Rosu Scalar Encode EncodeLines RtTiming DecodedObj

set_option maxRecDepth 100000

def ieeeLines : List Str :=
  [str "osu file format v14", str "", str "[General]", str "Mode: 0", str "[TimingPoints]", str "-28.5,333.33,4,2,0,100,1,0",
   str "1000.25,-33.3,4,1,3,70,0,1", str "2000,nan,4,1,0,50,0,0", str "[HitObjects]",
   str "256,192,1500.5,1,0,0:0:0:0:"]

def ieeeState : BeatmapState Float Float32 := frame beatmapDecoder ieeeLines
def ieeeMap : Beatmap Float Float32 :=
  match ieeeState.finish with | .ok m => m | .error _ => noObjectsMap ieeeState

theorem ieee_decodes : decodeBytes (beatmapDecoder : LineDecoder (BeatmapState Float Float32))
    (utf8Encode (unlines ieeeLines)) = .ok ieeeState := by
  rw [RtFile.decodeBytes_utf8_text _ _ (by decide), lines_of_unlines _ (by decide)]
  rfl

theorem ieee_finishes : ieeeState.finish = .ok ieeeMap := by
  have hok : ieeeState.finish.toOption.isSome = true := by decide +kernel
  unfold ieeeMap
  cases h : ieeeState.finish with
  | error e => rw [h] at hok; cases hok
  | ok m => rfl

theorem ieee_collectedTimes : CollectedTimesInLimit ieeeMap := by
  have key : (match collectAll ieeeMap ieeeMap.hitObjects [] with
      | .ok pts => pts.all (fun p => Scalar.lt p.time (-(maxParseValue : Float)) == false &&
          Scalar.lt (maxParseValue : Float) p.time == false && Scalar.isNaN p.time == false) | .error _ => true) = true := by
    decide +kernel
  intro pts hp p hpm
  rw [hp] at key
  have := List.all_eq_true.mp key p hpm
  simp only [Bool.and_eq_true, beq_iff_eq] at this
  exact ⟨this.1.1, this.1.2, this.2⟩

#eval (collectSamples ieeeMap).toOption.map (fun cp => (cp.timingPoints.length, cp.difficultyPoints.map (·.sliderVelocity), cp.samplePoints.map (·.time)))
#eval (encodeTimingPoints ieeeMap).toOption.map String.ofList
example (t : Str) (h : encodeTimingPoints ieeeMap = .ok t) :=
  timing_lines_accepted_decoded_ieee _ _ _ ieee_decodes ieee_finishes ieee_collectedTimes t h
end Rosu.C04
