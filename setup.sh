#!/bin/sh
# Offline build of the whole framework: Lean model + proofs + driver, Rust harness.
set -e
cd "$(dirname "$0")"
export CARGO_NET_OFFLINE=true
( cd lean && lake build RosuModel rosudriver )
[ -f harness/Cargo.lock ] || cp /repo/Cargo.lock harness/Cargo.lock
( cd harness && cargo build --release --offline && cargo build --release --offline --features tracing --target-dir ../.build/harness-target-tracing )
