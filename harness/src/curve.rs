//! C16–C19: the real curve code (`Curve`, `BorrowedCurve`, `CurveBuffers`, `SliderPath`) through its public API.
//!
//! requests (same language as lean/RosuModel/Model/Cmds/Curve.lean):
//! `curve|curvegeo <mode> <L: - | f64 bits> <pt>…`   pt = `<x f32 bits>:<y f32 bits>:<C|B|B<deg>|L|P|->`
//! `pos <mode> <L> <pt>… @ <progress f64 bits>…`
//! `curveseq <mode> <pt>… | <pt>… | … # <op>…`
use std::fmt::Write;
use std::num::NonZeroI32;

use rosu_map::section::general::GameMode;
use rosu_map::section::hit_objects::{
    BorrowedCurve, Curve, CurveBuffers, PathControlPoint, PathType, SliderPath, SplineType,
};
use rosu_map::util::Pos;

pub fn f64_of(tok: &str) -> f64 {
    f64::from_bits(u64::from_str_radix(tok, 16).unwrap_or(0))
}

pub fn f32_of(tok: &str) -> f32 {
    f32::from_bits(u32::from_str_radix(tok, 16).unwrap_or(0))
}

fn fmt_f64(x: f64) -> String {
    if x.is_nan() {
        "nan".into()
    } else {
        format!("{:x}", x.to_bits())
    }
}

fn fmt_f32(x: f32) -> String {
    if x.is_nan() {
        "nan".into()
    } else {
        format!("{:x}", x.to_bits())
    }
}

fn fmt_pos(p: Pos) -> String {
    format!("{}:{}", fmt_f32(p.x), fmt_f32(p.y))
}

pub fn parse_len(tok: &str) -> Option<f64> {
    if tok == "-" {
        None
    } else {
        Some(f64_of(tok))
    }
}

pub fn parse_mode(tok: &str) -> GameMode {
    match tok {
        "1" => GameMode::Taiko,
        "2" => GameMode::Catch,
        "3" => GameMode::Mania,
        _ => GameMode::Osu,
    }
}

fn parse_path_type(t: &str) -> Option<PathType> {
    match t {
        "-" => None,
        "C" => Some(PathType::CATMULL),
        "L" => Some(PathType::LINEAR),
        "P" => Some(PathType::PERFECT_CURVE),
        "B" => Some(PathType::BEZIER),
        _ => {
            let deg = t.strip_prefix('B')?.parse::<i32>().ok().and_then(NonZeroI32::new);
            Some(PathType {
                kind: SplineType::BSpline,
                degree: deg,
            })
        }
    }
}

pub fn parse_pt(tok: &str) -> PathControlPoint {
    let mut it = tok.split(':');
    match (it.next(), it.next(), it.next()) {
        (Some(x), Some(y), Some(t)) => PathControlPoint {
            pos: Pos::new(f32_of(x), f32_of(y)),
            path_type: parse_path_type(t),
        },
        _ => PathControlPoint::default(),
    }
}

fn fmt_curve(path: &[Pos], lengths: &[f64]) -> String {
    let mut s = String::with_capacity(16 + path.len() * 18 + lengths.len() * 17);
    write!(s, "p={}", path.len()).unwrap();
    for p in path {
        s.push(' ');
        s.push_str(&fmt_pos(*p));
    }
    write!(s, " l={}", lengths.len()).unwrap();
    for l in lengths {
        s.push(' ');
        s.push_str(&fmt_f64(*l));
    }
    s
}

pub struct CurveReq {
    pub mode: GameMode,
    pub len: Option<f64>,
    pub pts: Vec<PathControlPoint>,
    pub progress: Vec<f64>,
}

pub fn parse_curve_req(toks: &[&str]) -> Option<CurveReq> {
    let mode = parse_mode(toks.get(1)?);
    let len = parse_len(toks.get(2)?);
    let rest = &toks[3..];
    let at = rest.iter().position(|t| *t == "@").unwrap_or(rest.len());
    let pts = rest[..at].iter().map(|t| parse_pt(t)).collect();
    let progress = rest.get(at + 1..).unwrap_or(&[]).iter().map(|t| f64_of(t)).collect();
    Some(CurveReq {
        mode,
        len,
        pts,
        progress,
    })
}

pub struct SeqReq {
    pub mode: GameMode,
    pub pool: Vec<Vec<PathControlPoint>>,
    pub ops: Vec<String>,
}

pub fn parse_seq_req(toks: &[&str]) -> Option<SeqReq> {
    let mode = parse_mode(toks.get(1)?);
    let rest = &toks[2..];
    let hash = rest.iter().position(|t| *t == "#").unwrap_or(rest.len());
    let pool = rest[..hash]
        .split(|t| *t == "|")
        .map(|g| g.iter().map(|t| parse_pt(t)).collect())
        .collect();
    let ops = rest.get(hash + 1..).unwrap_or(&[]).iter().map(|s| (*s).to_owned()).collect();
    Some(SeqReq { mode, pool, ops })
}

/// `(index, L)` of an `o<i>:<L>` / `b<i>:<L>` argument.
pub fn idx_len(arg: &str) -> (usize, Option<f64>) {
    match arg.split_once(':') {
        Some((i, l)) => (i.parse().unwrap_or(0), parse_len(l)),
        None => (0, None),
    }
}

fn run_seq(req: &SeqReq) -> String {
    let mut bufs = CurveBuffers::default();
    let empty = Vec::new();
    let mut sp = SliderPath::new(req.mode, req.pool.first().cloned().unwrap_or_default(), None);
    let mut out = Vec::with_capacity(req.ops.len());
    for op in &req.ops {
        let (kind, arg) = op.split_at(1);
        let s = match kind {
            "o" => {
                let (i, l) = idx_len(arg);
                let c = Curve::new(req.mode, req.pool.get(i).unwrap_or(&empty), l, &mut bufs);
                fmt_curve(c.path(), c.lengths())
            }
            "b" => {
                let (i, l) = idx_len(arg);
                let c = BorrowedCurve::new(req.mode, req.pool.get(i).unwrap_or(&empty), l, &mut bufs);
                fmt_curve(c.path(), c.lengths())
            }
            "c" => {
                let c = sp.curve();
                fmt_curve(c.path(), c.lengths())
            }
            "w" => {
                let c = sp.curve_with_bufs(&mut bufs);
                fmt_curve(c.path(), c.lengths())
            }
            "r" => {
                let c = sp.borrowed_curve(&mut bufs);
                fmt_curve(c.path(), c.lengths())
            }
            "m" => {
                let i: usize = arg.parse().unwrap_or(0);
                *sp.control_points_mut() = req.pool.get(i).cloned().unwrap_or_default();
                "-".to_owned()
            }
            "l" => {
                *sp.expected_dist_mut() = parse_len(arg);
                "-".to_owned()
            }
            "x" => {
                sp.clear_curve();
                "-".to_owned()
            }
            // `k<i>:<L>`: sp.clone_from(a path that has not computed its curve); `K<i>:<L>`: … that has cached its curve
            "k" | "K" => {
                let (i, l) = idx_len(arg);
                let mut src = SliderPath::new(req.mode, req.pool.get(i).cloned().unwrap_or_default(), l);
                if kind == "K" {
                    let _ = src.curve();
                }
                sp.clone_from(&src);
                "-".to_owned()
            }
            _ => panic!("bad op"),
        };
        out.push(s);
    }
    format!("ok {}", out.join(" | "))
}

pub fn dispatch_impl(toks: &[&str]) -> Option<String> {
    match toks.first().copied()? {
        "curve" | "curvegeo" => {
            let req = parse_curve_req(toks)?;
            let c = Curve::new(req.mode, &req.pts, req.len, &mut CurveBuffers::default());
            Some(format!("ok {}", fmt_curve(c.path(), c.lengths())))
        }
        "pos" => {
            let req = parse_curve_req(toks)?;
            let c = Curve::new(req.mode, &req.pts, req.len, &mut CurveBuffers::default());
            let mut s = String::from("ok");
            for &q in &req.progress {
                let d = c.progress_to_dist(q);
                let i = c.idx_of_dist(d);
                let j = c.idx_of_dist(q);
                write!(
                    s,
                    " P={} D={} I={} J={} K={}",
                    fmt_pos(c.position_at(q)),
                    fmt_f64(d),
                    i,
                    j,
                    fmt_pos(c.interpolate_vertices(j, q))
                )
                .unwrap();
            }
            Some(s)
        }
        "curveseq" => Some(run_seq(&parse_seq_req(toks)?)),
        _ => None,
    }
}

pub fn dispatch_prop(toks: &[&str]) -> Option<String> {
    crate::curveprop::dispatch_prop(toks)
}
