//! C15 oracle: map-level processing re-derived from the property text on the implementation's
//! own pre-finalisation state (captured by a wrapping DecodeBeatmap type) and checked against the
//! finished `Beatmap`.
use rosu_map::section::general::GameMode;
use rosu_map::section::hit_objects::hit_samples::{HitSampleInfo, HitSampleInfoName, SampleBank};
use rosu_map::section::hit_objects::{HitObject, HitObjectKind};
use rosu_map::section::timing_points::{ControlPoints, SamplePoint};
use rosu_map::{Beatmap, BeatmapState, DecodeBeatmap, DecodeState, ParseBeatmapError};

pub struct Pre {
    pub pre: Vec<HitObject>,
    pub map: Beatmap,
}
pub struct PreState(BeatmapState);
impl DecodeState for PreState {
    fn create(version: i32) -> Self {
        Self(BeatmapState::create(version))
    }
}
impl From<PreState> for Pre {
    fn from(s: PreState) -> Self {
        let pre = s.0.hit_objects.hit_objects.clone();
        Pre { pre, map: s.0.into() }
    }
}
macro_rules! fwd {
    ($name:ident) => {
        fn $name(state: &mut Self::State, line: &str) -> Result<(), Self::Error> {
            Beatmap::$name(&mut state.0, line)
        }
    };
}
impl DecodeBeatmap for Pre {
    type Error = ParseBeatmapError;
    type State = PreState;
    fwd!(parse_general);
    fwd!(parse_editor);
    fwd!(parse_metadata);
    fwd!(parse_difficulty);
    fwd!(parse_events);
    fwd!(parse_timing_points);
    fwd!(parse_colors);
    fwd!(parse_hit_objects);
    fwd!(parse_variables);
    fwd!(parse_catch_the_beat);
    fwd!(parse_mania);
}

fn ulps(a: f64, b: f64) -> u64 {
    if a == b || (a.is_nan() && b.is_nan()) {
        return 0;
    }
    if a.is_nan() || b.is_nan() || a.is_infinite() || b.is_infinite() {
        return u64::MAX;
    }
    let k = |x: f64| {
        let b = x.to_bits() as i64;
        if b < 0 { i64::MIN - b } else { b }
    };
    (k(a) as i128 - k(b) as i128).unsigned_abs() as u64
}

/// latest point with time <= t (by numeric comparison); `first_if_before`: timing/sample lookups
/// fall back to the first point.
fn active<'a, T>(pts: &'a [T], time_of: impl Fn(&T) -> f64, t: f64, first_if_before: bool) -> Option<&'a T> {
    let mut best: Option<&T> = None;
    for p in pts {
        if time_of(p) <= t {
            best = Some(p);
        }
    }
    if best.is_none() && first_if_before {
        return pts.first();
    }
    best
}

fn expect_sample(s: &HitSampleInfo, sp: &SamplePoint) -> HitSampleInfo {
    let mut r = s.clone();
    let vol = sp.sample_volume.clamp(0, 100);
    match r.name {
        HitSampleInfoName::Default(_) => {
            if r.custom_sample_bank == 0 {
                r.custom_sample_bank = sp.custom_sample_bank;
                if r.custom_sample_bank >= 2 {
                    r.suffix = std::num::NonZeroU32::new(r.custom_sample_bank as u32);
                }
            }
            if r.volume == 0 {
                r.volume = vol;
            }
            if !r.bank_specified {
                r.bank = sp.sample_bank;
                r.bank_specified = true;
            }
        }
        HitSampleInfoName::File(_) => {
            r.bank = SampleBank::Normal;
            r.suffix = None;
            if r.volume == 0 {
                r.volume = vol;
            }
            r.custom_sample_bank = 1;
            r.bank_specified = false;
            r.is_layered = false;
        }
    }
    r
}

fn sample_point_at(cp: &ControlPoints, t: f64) -> SamplePoint {
    active(&cp.sample_points, |p| p.time, t, true).cloned().unwrap_or_default()
}

fn kind_tag(h: &HitObject) -> (u8, u32, u32) {
    match &h.kind {
        HitObjectKind::Circle(c) => (0, c.pos.x.to_bits(), c.pos.y.to_bits()),
        HitObjectKind::Slider(s) => (1, s.pos.x.to_bits(), s.pos.y.to_bits()),
        HitObjectKind::Spinner(s) => (2, s.pos.x.to_bits(), s.pos.y.to_bits()),
        HitObjectKind::Hold(s) => (3, s.pos_x.to_bits(), 0),
    }
}

/// the break periods written in the file's [Events] lines, for lines of the plain shape `2,<decimal>,<decimal>[,…]` / `Break,…` only
/// (anything else — comments, blanks inside fields, exponents, huge values — is left to the decoder: `None` if any such break-like line occurs)
fn ref_breaks(bytes: &[u8]) -> Option<Vec<(f64, f64)>> {
    fn plain(f: &str) -> Option<f64> {
        let digits = f.strip_prefix('-').unwrap_or(f);
        let (int, frac) = digits.split_once('.').unwrap_or((digits, "0"));
        if int.is_empty() || int.len() > 9 || frac.is_empty() || frac.len() > 6 || !int.bytes().chain(frac.bytes()).all(|b| b.is_ascii_digit()) {
            return None;
        }
        f.parse().ok()
    }
    let (_, calls) = crate::frame::spec_frame(bytes)?;
    let mut out = Vec::new();
    for (sec, line) in calls {
        if sec != 4 {
            continue;
        }
        let f: Vec<&str> = line.split(',').collect();
        if !(f[0] == "2" || f[0] == "Break") {
            if f[0].trim() == "2" || f[0].trim().eq_ignore_ascii_case("break") {
                return None;
            }
            continue;
        }
        if line.contains("//") || f.len() < 3 {
            return None;
        }
        let (s, e) = (plain(f[1])?, plain(f[2])?);
        out.push((s, s.max(e)));
    }
    Some(out)
}

pub fn prop_c15(bytes: &[u8]) -> String {
    let Ok(Pre { pre, mut map }) = rosu_map::from_bytes::<Pre>(bytes) else { return "SKIP decode-error".into() };
    if pre.iter().any(|h| h.start_time.is_nan()) {
        return "SKIP nan-time".into();
    }
    let mut worst: u64 = 0;
    // 1. order: stable sort of the parsed objects by start time
    let mut idx: Vec<usize> = (0..pre.len()).collect();
    idx.sort_by(|&a, &b| pre[a].start_time.partial_cmp(&pre[b].start_time).unwrap());
    if map.hit_objects.len() != pre.len() {
        return "FAIL object count changed".into();
    }
    for (i, h) in map.hit_objects.iter().enumerate() {
        let p = &pre[idx[i]];
        if h.start_time.to_bits() != p.start_time.to_bits() && !(h.start_time == 0.0 && p.start_time == 0.0) || kind_tag(h) != kind_tag(p) {
            if h.start_time == p.start_time && pre.iter().any(|q| q.start_time == 0.0 && q.start_time.is_sign_negative()) {
                return "SKIP signed-zero times (ordering of -0.0/+0.0, see F8)".into();
            }
            return format!("FAIL order: position {i} holds an object that is not the {i}-th of the stable sort by start time");
        }
    }
    for w in map.hit_objects.windows(2) {
        if !(w[0].start_time <= w[1].start_time) {
            return "FAIL start times decrease".into();
        }
    }
    // the break lines of the file, read here from the text (plain decimal fields only): each must be among the decoded breaks — the
    // clause below is about the breaks of the FILE, not about whichever of them a decoder chose to keep
    if let Some(want) = ref_breaks(bytes) {
        for (s, e) in &want {
            if !map.breaks.iter().any(|b| b.start_time.to_bits() == s.to_bits() && b.end_time.to_bits() == e.to_bits()) {
                return format!("FAIL the break line {s},{e} of the file is not among the decoded breaks");
            }
        }
        if want.len() > map.breaks.len() {
            return format!("FAIL {} break lines in the file, {} decoded breaks", want.len(), map.breaks.len());
        }
    }
    // "the beat length / multiplier / sample point ACTIVE at a time" must be defined: one stored point per time in each list
    fn one_per_time(name: &str, ts: Vec<f64>) -> Result<(), String> {
        for w in ts.windows(2) {
            if !(w[0] < w[1]) && !(w[0] == 0.0 && w[1] == 0.0 && w[0].to_bits() != w[1].to_bits()) {
                return Err(format!("FAIL the {name} points of the decoded map are not strictly increasing in time ({} then {}): the point active at a time is not defined", w[0], w[1]));
            }
        }
        Ok(())
    }
    {
        let cp = &map.control_points;
        for r in [
            one_per_time("timing", cp.timing_points.iter().map(|p| p.time).collect()),
            one_per_time("difficulty", cp.difficulty_points.iter().map(|p| p.time).collect()),
            one_per_time("effect", cp.effect_points.iter().map(|p| p.time).collect()),
            one_per_time("sample", cp.sample_points.iter().map(|p| p.time).collect()),
        ] {
            if let Err(e) = r {
                return e;
            }
        }
    }
    // 2. the first object after each break starts a new combo
    for b in &map.breaks {
        if let Some(h) = map.hit_objects.iter().find(|h| h.start_time > b.end_time) {
            let nc = match &h.kind {
                HitObjectKind::Circle(c) => Some(c.new_combo),
                HitObjectKind::Slider(s) => Some(s.new_combo),
                HitObjectKind::Spinner(s) => Some(s.new_combo),
                HitObjectKind::Hold(_) => None,
            };
            if nc == Some(false) {
                let sorted = map.breaks.windows(2).all(|w| w[0].end_time <= w[1].end_time);
                return format!(
                    "FAIL break ending at {} : first object after it (t={}) has no new combo explained={}",
                    b.end_time, h.start_time, if sorted { "unexplained" } else { "breaks-not-in-end-time-order" }
                );
            }
        }
    }
    // ... and ONLY that one: every other object keeps the new-combo flag its line gave it (seed C15-r: the forced combo carried past a
    // hold note to the next object)
    {
        let nc = |h: &HitObject| match &h.kind {
            HitObjectKind::Circle(c) => Some(c.new_combo),
            HitObjectKind::Slider(s) => Some(s.new_combo),
            HitObjectKind::Spinner(s) => Some(s.new_combo),
            HitObjectKind::Hold(_) => None,
        };
        for (i, h) in map.hit_objects.iter().enumerate() {
            let p = &pre[idx[i]];
            if nc(h) == nc(p) {
                continue;
            }
            let first_after_a_break = map.breaks.iter().any(|b| {
                h.start_time > b.end_time && !map.hit_objects[..i].iter().any(|g| g.start_time > b.end_time)
            });
            if !(nc(p) == Some(false) && nc(h) == Some(true) && first_after_a_break) {
                return format!("FAIL object {i} (t={}): new-combo flag {:?} on its line, {:?} in the map, and it is not the first object after a break", h.start_time, nc(p), nc(h));
            }
        }
    }
    // 3.-5. velocity, duration, sample defaults
    let cp = map.control_points.clone();
    let mode = map.mode;
    let sm = map.slider_multiplier;
    for (i, h) in map.hit_objects.iter_mut().enumerate() {
        let p = &pre[idx[i]];
        let start = h.start_time;
        let mut end = start;
        let samples_after = h.samples.clone();
        match (&mut h.kind, &p.kind) {
            (HitObjectKind::Slider(s), HitObjectKind::Slider(ps)) => {
                let beat_len = active(&cp.timing_points, |t| t.time, start, true).map_or(1000.0, |t| t.beat_len);
                let sv = active(&cp.difficulty_points, |t| t.time, start, false).map_or(1.0, |t| t.slider_velocity);
                let hi = if matches!(mode, GameMode::Osu | GameMode::Catch) { 10_000.0 } else { 1000.0 };
                let mult = if sv > 0.0 { (100.0 / sv).clamp(10.0, hi) / 100.0 } else { 1.0 };
                let want_v = 100.0 * sm / (beat_len * mult);
                worst = worst.max(ulps(want_v, s.velocity));
                if ulps(want_v, s.velocity) > 4 {
                    return format!("FAIL slider {i}: velocity {} want {}", s.velocity, want_v);
                }
                let spans = f64::from(s.repeat_count + 1);
                let dist = s.path.curve().dist();
                let want_d = spans * dist / s.velocity;
                let got_d = s.duration();
                worst = worst.max(ulps(want_d, got_d));
                if ulps(want_d, got_d) > 4 {
                    return format!("FAIL slider {i}: duration {} want {}", got_d, want_d);
                }
                end = start + got_d;
                if s.node_samples.len() != ps.node_samples.len() {
                    return format!("FAIL slider {i}: node count changed");
                }
                for (k, (ns, pns)) in s.node_samples.iter().zip(&ps.node_samples).enumerate() {
                    let t = start + k as f64 * got_d / spans + 5.0;
                    let sp = sample_point_at(&cp, t);
                    let want: Vec<_> = pns.iter().map(|x| expect_sample(x, &sp)).collect();
                    if &want != ns {
                        return format!("FAIL slider {i}: node {k} samples {} want {}", crate::hitobj::fmt_samples(ns), crate::hitobj::fmt_samples(&want));
                    }
                }
            }
            (HitObjectKind::Spinner(s), _) => end = start + s.duration,
            (HitObjectKind::Hold(s), _) => end = start + s.duration,
            _ => {}
        }
        let sp = sample_point_at(&cp, end + 5.0);
        let want: Vec<_> = p.samples.iter().map(|x| expect_sample(x, &sp)).collect();
        if want != samples_after {
            return format!("FAIL object {i}: samples {} want {}", crate::hitobj::fmt_samples(&samples_after), crate::hitobj::fmt_samples(&want));
        }
    }
    format!("OK max_ulp={worst}")
}

pub fn dispatch_prop(toks: &[&str]) -> Option<String> {
    match toks {
        ["c15", hex] => Some(prop_c15(&crate::util::unhex(hex))),
        _ => None,
    }
}
