use std::fmt::Write;
use std::io::{self, BufRead, ErrorKind, Read};

pub fn unhex(s: &str) -> Vec<u8> {
    if s == "-" {
        return Vec::new();
    }
    let b = s.as_bytes();
    let v = |c: u8| match c {
        b'0'..=b'9' => c - b'0',
        b'a'..=b'f' => c - b'a' + 10,
        b'A'..=b'F' => c - b'A' + 10,
        _ => 0,
    };
    b.chunks_exact(2).map(|p| v(p[0]) * 16 + v(p[1])).collect()
}

pub fn hex(bytes: &[u8]) -> String {
    if bytes.is_empty() {
        return "-".to_owned();
    }
    let mut s = String::with_capacity(bytes.len() * 2);
    for b in bytes {
        write!(s, "{b:02x}").unwrap();
    }
    s
}

pub fn kind_tag(k: ErrorKind) -> &'static str {
    match k {
        ErrorKind::UnexpectedEof => "UnexpectedEof",
        ErrorKind::PermissionDenied => "PermissionDenied",
        ErrorKind::TimedOut => "TimedOut",
        ErrorKind::WouldBlock => "WouldBlock",
        ErrorKind::WriteZero => "WriteZero",
        ErrorKind::InvalidData => "InvalidData",
        ErrorKind::Interrupted => "Interrupted",
        ErrorKind::BrokenPipe => "BrokenPipe",
        ErrorKind::ConnectionReset => "ConnectionReset",
        ErrorKind::ConnectionAborted => "ConnectionAborted",
        ErrorKind::NotFound => "NotFound",
        ErrorKind::InvalidInput => "InvalidInput",
        ErrorKind::Unsupported => "Unsupported",
        ErrorKind::OutOfMemory => "OutOfMemory",
        _ => "Other",
    }
}

pub fn kind_of_tag(s: &str) -> ErrorKind {
    match s {
        "UnexpectedEof" => ErrorKind::UnexpectedEof,
        "PermissionDenied" => ErrorKind::PermissionDenied,
        "TimedOut" => ErrorKind::TimedOut,
        "WouldBlock" => ErrorKind::WouldBlock,
        "WriteZero" => ErrorKind::WriteZero,
        "InvalidData" => ErrorKind::InvalidData,
        "BrokenPipe" => ErrorKind::BrokenPipe,
        "ConnectionReset" => ErrorKind::ConnectionReset,
        "ConnectionAborted" => ErrorKind::ConnectionAborted,
        "NotFound" => ErrorKind::NotFound,
        "InvalidInput" => ErrorKind::InvalidInput,
        "Unsupported" => ErrorKind::Unsupported,
        "OutOfMemory" => ErrorKind::OutOfMemory,
        _ => ErrorKind::Other,
    }
}

#[derive(Clone, Debug)]
pub enum Ev {
    Chunk(Vec<u8>),
    Intr,
    Fail(ErrorKind),
    /// one poll that reports end of input (an empty buffer / a read of 0 bytes) although the schedule goes on
    Eof,
}

/// schedule syntax: `c<hex>` chunk, `i` Interrupted, `f<Kind>` fatal error, `e` one end-of-input indication.
pub fn parse_sched(toks: &[&str]) -> Vec<Ev> {
    toks.iter()
        .map(|t| {
            if *t == "i" {
                Ev::Intr
            } else if *t == "e" {
                Ev::Eof
            } else if let Some(k) = t.strip_prefix('f') {
                Ev::Fail(kind_of_tag(k))
            } else {
                Ev::Chunk(unhex(&t[1..]))
            }
        })
        .collect()
}

/// A `BufRead` that replays a delivery schedule: `fill_buf` hands out exactly
/// the next chunk, reports `Interrupted` once per `Intr`, fails per `Fail`.
pub struct SchedReader {
    evs: std::collections::VecDeque<Ev>,
    pos: usize,
}

impl SchedReader {
    pub fn new(evs: Vec<Ev>) -> Self {
        Self {
            evs: evs.into(),
            pos: 0,
        }
    }
}

impl BufRead for SchedReader {
    fn fill_buf(&mut self) -> io::Result<&[u8]> {
        loop {
            match self.evs.front() {
                None => return Ok(&[]),
                Some(Ev::Chunk(c)) if self.pos >= c.len() => {
                    self.evs.pop_front();
                    self.pos = 0;
                }
                Some(Ev::Chunk(_)) => break,
                Some(Ev::Intr) => {
                    self.evs.pop_front();
                    return Err(io::Error::new(ErrorKind::Interrupted, "intr"));
                }
                Some(Ev::Eof) => {
                    self.evs.pop_front();
                    return Ok(&[]);
                }
                Some(Ev::Fail(k)) => {
                    let k = *k;
                    self.evs.pop_front();
                    return Err(io::Error::new(k, "injected"));
                }
            }
        }
        match self.evs.front() {
            Some(Ev::Chunk(c)) => Ok(&c[self.pos..]),
            _ => unreachable!(),
        }
    }

    fn consume(&mut self, amt: usize) {
        if amt == 0 {
            return;
        }
        if let Some(Ev::Chunk(c)) = self.evs.front() {
            self.pos += amt;
            assert!(self.pos <= c.len(), "consume beyond chunk");
            if self.pos == c.len() {
                self.evs.pop_front();
                self.pos = 0;
            }
        } else {
            panic!("consume without chunk");
        }
    }
}

impl Read for SchedReader {
    fn read(&mut self, buf: &mut [u8]) -> io::Result<usize> {
        let avail = self.fill_buf()?;
        let n = avail.len().min(buf.len());
        buf[..n].copy_from_slice(&avail[..n]);
        self.consume(n);
        Ok(n)
    }
}


/// scratch directory next to the harness executable (never /tmp)
pub fn scratch_dir() -> std::path::PathBuf {
    let exe = std::env::current_exe().expect("current_exe");
    let dir = exe.parent().expect("exe dir").join("scratch");
    std::fs::create_dir_all(&dir).expect("scratch dir");
    dir
}

static PATH_COUNTER: std::sync::atomic::AtomicUsize = std::sync::atomic::AtomicUsize::new(0);

/// `Beatmap::encode_to_path` / `from_path` must behave like `encode_to_string` / `from_bytes` whatever the file held
/// before: the target is first filled with an OLDER, LONGER file (`text` followed by more object lines), then the map
/// is saved over it, the file must then hold exactly `text`, and `from_path` must read back what `from_bytes(text)`
/// reads. Returns a description of the first difference.
pub fn path_roundtrip_check(m: &rosu_map::Beatmap, text: &str) -> Option<String> {
    let n = PATH_COUNTER.fetch_add(1, std::sync::atomic::Ordering::Relaxed);
    // the encoded text read back through a reader that hands out one, two or seven bytes at a time
    {
        use rosu_map::DecodeBeatmap;
        let want = rosu_map::from_bytes::<rosu_map::Beatmap>(text.as_bytes()).ok().map(|m| format!("{m:?}"));
        let cap = [1usize, 2, 7][n % 3];
        let got = rosu_map::Beatmap::decode(std::io::BufReader::with_capacity(cap, text.as_bytes())).ok().map(|m| format!("{m:?}"));
        if got != want {
            return Some(format!("the encoded text decodes differently through a BufReader of capacity {cap} than through from_bytes"));
        }
    }
    // a legal `Write` that takes at most `k` bytes per call must receive the same bytes as a `Vec`
    {
        struct Short(usize, Vec<u8>);
        impl io::Write for Short {
            fn write(&mut self, buf: &[u8]) -> io::Result<usize> {
                let m = buf.len().min(self.0);
                self.1.extend_from_slice(&buf[..m]);
                Ok(m)
            }
            fn flush(&mut self) -> io::Result<()> {
                Ok(())
            }
        }
        let k = [1usize, 2, 3, 5, 7, 8, 13, 64][n % 8];
        let mut w = Short(k, Vec::new());
        match m.clone().encode(&mut w) {
            Err(e) => return Some(format!("encode into a writer taking {k} bytes per call: err {}", kind_tag(e.kind()))),
            Ok(()) if w.1 != text.as_bytes() => {
                let common = w.1.iter().zip(text.as_bytes()).take_while(|(a, b)| a == b).count();
                return Some(format!(
                    "encode into a writer taking {k} bytes per call writes {} bytes, encode_to_string {} (first difference at byte {common})",
                    w.1.len(),
                    text.len()
                ));
            }
            Ok(()) => {}
        }
    }
    let path = scratch_dir().join(format!("{}-enc{}.osu", std::process::id(), n));
    let mut old = text.as_bytes().to_vec();
    old.extend_from_slice(b"\n[HitObjects]\n64,64,987654,1,0,0:0:0:0:\n96,64,987754,5,0,0:0:0:0:\n\n[Metadata]\nTitle:stale tail of an older file\n");
    if std::fs::write(&path, &old).is_err() {
        return None; // no scratch space: nothing observed
    }
    let res = m.clone().encode_to_path(&path);
    let out = (|| {
        if let Err(e) = res {
            return Some(format!("encode_to_path err {}", kind_tag(e.kind())));
        }
        let on_disk = std::fs::read(&path).ok()?;
        if on_disk != text.as_bytes() {
            let common = on_disk.iter().zip(text.as_bytes()).take_while(|(a, b)| a == b).count();
            return Some(format!(
                "encode_to_path over an existing file leaves {} bytes, encode_to_string gives {} (first difference at byte {common})",
                on_disk.len(),
                text.len()
            ));
        }
        let a = rosu_map::from_path::<rosu_map::Beatmap>(&path);
        let b = rosu_map::from_bytes::<rosu_map::Beatmap>(text.as_bytes());
        match (a, b) {
            (Ok(a), Ok(b)) if format!("{a:?}") == format!("{b:?}") => None,
            (Err(_), Err(_)) => None,
            _ => Some("from_path of the saved file differs from from_bytes of the encoded text".to_owned()),
        }
    })();
    let _ = std::fs::remove_file(&path);
    out
}
