//! Canonical text dumps of decoded values (floats as bit patterns). The same formats are produced
//! by the Lean driver from the model (Model/Cmds/Whole.lean).
use rosu_map::section::colors::{Color, CustomColor};
use rosu_map::section::events::BreakPeriod;
use rosu_map::section::general::{CountdownType, GameMode};
use rosu_map::section::hit_objects::hit_samples::SampleBank;
use rosu_map::section::hit_objects::{HitObject, HitObjectKind};
use rosu_map::section::timing_points::ControlPoints;

use crate::hitobj::{bank_idx, fmt_cps, fmt_samples};
use crate::sections::{h32, h64, hs, join};

pub fn mode_idx(m: GameMode) -> u8 {
    match m {
        GameMode::Osu => 0,
        GameMode::Taiko => 1,
        GameMode::Catch => 2,
        GameMode::Mania => 3,
    }
}
pub fn cd_idx(c: CountdownType) -> u8 {
    match c {
        CountdownType::None => 0,
        CountdownType::Normal => 1,
        CountdownType::HalfSpeed => 2,
        CountdownType::DoubleSpeed => 3,
    }
}
pub fn b(x: bool) -> u8 {
    u8::from(x)
}

#[macro_export]
macro_rules! dump_general {
    ($m:expr) => {
        format!(
            "af={} ali={} pt={} dsb={} dsv={} sl={} mode={} lib={} ss={} ws={} ew={} smpr={} cd={} cdo={}",
            $crate::sections::hs(&$m.audio_file), $crate::sections::h64($m.audio_lead_in), $m.preview_time,
            $crate::hitobj::bank_idx($m.default_sample_bank), $m.default_sample_volume, $crate::sections::h32($m.stack_leniency),
            $crate::dump::mode_idx($m.mode), $crate::dump::b($m.letterbox_in_breaks), $crate::dump::b($m.special_style),
            $crate::dump::b($m.widescreen_storyboard), $crate::dump::b($m.epilepsy_warning),
            $crate::dump::b($m.samples_match_playback_rate), $crate::dump::cd_idx($m.countdown), $m.countdown_offset
        )
    };
}

#[macro_export]
macro_rules! dump_editor {
    ($m:expr) => {{
        let bm: Vec<String> = $m.bookmarks.iter().map(|b| b.to_string()).collect();
        format!(
            "bm={} ds={} bd={} gs={} tz={}",
            $crate::sections::join(&bm, ","), $crate::sections::h64($m.distance_spacing), $m.beat_divisor, $m.grid_size,
            $crate::sections::h64($m.timeline_zoom)
        )
    }};
}

#[macro_export]
macro_rules! dump_metadata {
    ($m:expr) => {
        format!(
            "t={} tu={} a={} au={} c={} v={} s={} tg={} id={} sid={}",
            $crate::sections::hs(&$m.title), $crate::sections::hs(&$m.title_unicode), $crate::sections::hs(&$m.artist),
            $crate::sections::hs(&$m.artist_unicode), $crate::sections::hs(&$m.creator), $crate::sections::hs(&$m.version),
            $crate::sections::hs(&$m.source), $crate::sections::hs(&$m.tags), $m.beatmap_id, $m.beatmap_set_id
        )
    };
}

#[macro_export]
macro_rules! dump_difficulty {
    ($m:expr) => {
        format!(
            "hp={} cs={} od={} ar={} sm={} tr={}",
            $crate::sections::h32($m.hp_drain_rate), $crate::sections::h32($m.circle_size), $crate::sections::h32($m.overall_difficulty),
            $crate::sections::h32($m.approach_rate), $crate::sections::h64($m.slider_multiplier), $crate::sections::h64($m.slider_tick_rate)
        )
    };
}

pub fn dump_events(bg: &str, breaks: &[BreakPeriod]) -> String {
    let br: Vec<String> = breaks.iter().map(|b| format!("{}:{}", h64(b.start_time), h64(b.end_time))).collect();
    format!("bg={} br={}", hs(bg), join(&br, ","))
}

pub fn dump_colors(combo: &[Color], custom: &[CustomColor]) -> String {
    let c1: Vec<String> = combo.iter().map(|c| format!("{}.{}.{}.{}", c.0[0], c.0[1], c.0[2], c.0[3])).collect();
    let c2: Vec<String> = custom
        .iter()
        .map(|x| format!("{}={}.{}.{}.{}", hs(&x.name), x.color.0[0], x.color.0[1], x.color.0[2], x.color.0[3]))
        .collect();
    format!("combo={} custom={}", join(&c1, ","), join(&c2, ","))
}

pub fn sb(b: SampleBank) -> u8 {
    bank_idx(b)
}

pub fn dump_control_points(cp: &ControlPoints) -> String {
    let tp: Vec<String> = cp
        .timing_points
        .iter()
        .map(|p| format!("{}:{}:{}:{}", h64(p.time), h64(p.beat_len), b(p.omit_first_bar_line), p.time_signature.numerator.get()))
        .collect();
    let dp: Vec<String> = cp
        .difficulty_points
        .iter()
        .map(|p| format!("{}:{}:{}", h64(p.time), h64(p.slider_velocity), b(p.generate_ticks)))
        .collect();
    let ep: Vec<String> = cp.effect_points.iter().map(|p| format!("{}:{}:{}", h64(p.time), b(p.kiai), h64(p.scroll_speed))).collect();
    let sp: Vec<String> = cp
        .sample_points
        .iter()
        .map(|p| format!("{}:{}:{}:{}", h64(p.time), sb(p.sample_bank), p.sample_volume, p.custom_sample_bank))
        .collect();
    format!("tp={} dp={} ep={} sp={}", join(&tp, ","), join(&dp, ","), join(&ep, ","), join(&sp, ","))
}

/// a finalised hit object: everything the decoder determines, without computing a curve
pub fn dump_obj(h: &HitObject) -> String {
    match &h.kind {
        HitObjectKind::Circle(c) => format!(
            "C t={} p={}:{} nc={} co={} s={}",
            h64(h.start_time), h32(c.pos.x), h32(c.pos.y), b(c.new_combo), c.combo_offset, fmt_samples(&h.samples)
        ),
        HitObjectKind::Slider(s) => {
            let len = s.path.expected_dist().map_or("-".to_owned(), h64);
            let ns: Vec<String> = s.node_samples.iter().map(|n| fmt_samples(n)).collect();
            format!(
                "S t={} p={}:{} nc={} co={} rc={} len={} vel={} cps={} ns={} s={}",
                h64(h.start_time), h32(s.pos.x), h32(s.pos.y), b(s.new_combo), s.combo_offset, s.repeat_count, len,
                h64(s.velocity), fmt_cps(s.path.control_points()), ns.join("|"), fmt_samples(&h.samples)
            )
        }
        HitObjectKind::Spinner(s) => format!(
            "N t={} p={}:{} d={} nc={} s={}",
            h64(h.start_time), h32(s.pos.x), h32(s.pos.y), h64(s.duration), b(s.new_combo), fmt_samples(&h.samples)
        ),
        HitObjectKind::Hold(s) => format!("H t={} x={} d={} s={}", h64(h.start_time), h32(s.pos_x), h64(s.duration), fmt_samples(&h.samples)),
    }
}

pub fn dump_objects(hs: &[HitObject]) -> String {
    let mut s = format!("n={}", hs.len());
    for h in hs {
        s.push_str(" | ");
        s.push_str(&dump_obj(h));
    }
    s
}

/// the nine decoder types, each dumped on the groups of fields it has
pub fn dump_beatmap(m: &rosu_map::Beatmap) -> String {
    format!(
        "fv={} G[{}] E[{}] M[{}] D[{}] V[{}] T[{}] C[{}] H[{}]",
        m.format_version, dump_general!(m), dump_editor!(m), dump_metadata!(m), dump_difficulty!(m),
        dump_events(&m.background_file, &m.breaks), dump_control_points(&m.control_points),
        dump_colors(&m.custom_combo_colors, &m.custom_colors), dump_objects(&m.hit_objects)
    )
}
