//! Whole-file requests: `dec <hex bytes>` (Beatmap dump), `dec9 <hex bytes>` (all nine decoders),
//! and the implementation-level oracles of C01 (totality), C06 (rejected line leaves no trace),
//! C07 (specialised decoders agree).
use std::io;

use rosu_map::section::colors::Colors;
use rosu_map::section::difficulty::Difficulty;
use rosu_map::section::editor::Editor;
use rosu_map::section::events::Events;
use rosu_map::section::general::General;
use rosu_map::section::hit_objects::HitObjects;
use rosu_map::section::metadata::Metadata;
use rosu_map::section::timing_points::TimingPoints;
use rosu_map::{Beatmap, BeatmapState, DecodeBeatmap, DecodeState, ParseBeatmapError};

use crate::dump::*;
use crate::util::{kind_tag, unhex};
use crate::{dump_difficulty, dump_editor, dump_general, dump_metadata};

fn err(e: &io::Error) -> String {
    format!("err {}", kind_tag(e.kind()))
}

pub fn dec(bytes: &[u8]) -> String {
    match rosu_map::from_bytes::<Beatmap>(bytes) {
        Ok(m) => format!("ok {}", dump_beatmap(&m)),
        Err(e) => err(&e),
    }
}

/// per decoder: the groups of fields it carries, in the same format as the Beatmap dump
pub fn dec9(bytes: &[u8]) -> Vec<(&'static str, String)> {
    let mut out = Vec::new();
    out.push(("Beatmap", dec(bytes)));
    out.push(("General", match rosu_map::from_bytes::<General>(bytes) {
        Ok(m) => format!("ok G[{}]", dump_general!(m)),
        Err(e) => err(&e),
    }));
    out.push(("Editor", match rosu_map::from_bytes::<Editor>(bytes) {
        Ok(m) => format!("ok E[{}]", dump_editor!(m)),
        Err(e) => err(&e),
    }));
    out.push(("Metadata", match rosu_map::from_bytes::<Metadata>(bytes) {
        Ok(m) => format!("ok M[{}]", dump_metadata!(m)),
        Err(e) => err(&e),
    }));
    out.push(("Difficulty", match rosu_map::from_bytes::<Difficulty>(bytes) {
        Ok(m) => format!("ok D[{}]", dump_difficulty!(m)),
        Err(e) => err(&e),
    }));
    out.push(("Events", match rosu_map::from_bytes::<Events>(bytes) {
        Ok(m) => format!("ok V[{}]", dump_events(&m.background_file, &m.breaks)),
        Err(e) => err(&e),
    }));
    out.push(("Colors", match rosu_map::from_bytes::<Colors>(bytes) {
        Ok(m) => format!("ok C[{}]", dump_colors(&m.custom_combo_colors, &m.custom_colors)),
        Err(e) => err(&e),
    }));
    out.push(("TimingPoints", match rosu_map::from_bytes::<TimingPoints>(bytes) {
        Ok(m) => format!("ok G[{}] T[{}]", dump_general!(m), dump_control_points(&m.control_points)),
        Err(e) => err(&e),
    }));
    out.push(("HitObjects", match rosu_map::from_bytes::<HitObjects>(bytes) {
        Ok(m) => format!(
            "ok G[{}] D[{}] V[{}] T[{}] H[{}]",
            dump_general!(m), dump_difficulty!(m), dump_events(&m.background_file, &m.breaks),
            dump_control_points(&m.control_points), dump_objects(&m.hit_objects)
        ),
        Err(e) => err(&e),
    }));
    out
}

/// extract `X[...]` group from a dump
fn group<'a>(dump: &'a str, tag: &str) -> Option<&'a str> {
    let pat = format!("{tag}[");
    let i = dump.find(&pat)?;
    // groups never contain ']' except inside sample lists "[..]" of H; H is last, so take to the matching end
    if tag == "H" {
        return dump[i..].strip_suffix(']').map(|_| &dump[i..]);
    }
    let j = dump[i..].find("] ").map(|j| i + j + 1).unwrap_or(dump.len());
    Some(&dump[i..j])
}

/// C07: every group a specialised decoder prints must be identical to the Beatmap's group
pub fn prop_dec9(bytes: &[u8]) -> String {
    let all = dec9(bytes);
    let full = &all[0].1;
    for (name, d) in &all[1..] {
        if full.starts_with("err") || d.starts_with("err") {
            if full != d {
                return format!("FAIL {name}: {d} vs Beatmap: {}", &full[..full.len().min(40)]);
            }
            continue;
        }
        for tag in ["G", "E", "M", "D", "V", "T", "C", "H"] {
            if let Some(g) = group(d, tag) {
                match group(full, tag) {
                    Some(fg) if fg == g => {}
                    other => return format!("FAIL {name} group {tag}: [{}] vs Beatmap [{}]", &g[..g.len().min(300)], other.map_or("", |x| &x[..x.len().min(300)])),
                }
            }
        }
    }
    // a specialised result converted into a Beatmap (`Beatmap::from(x)`, public API) carries exactly the groups its decoder
    // reads, equal to the full decoder's, and the defaults everywhere else
    if !full.starts_with("err") {
        let default_dump = dump_beatmap(&Beatmap::default());
        macro_rules! conv {
            ($t:ty, $name:expr, $tags:expr) => {
                if let Ok(x) = rosu_map::from_bytes::<$t>(bytes) {
                    let d = format!("ok {}", dump_beatmap(&Beatmap::from(x)));
                    for tag in ["G", "E", "M", "D", "V", "T", "C", "H"] {
                        let want = if $tags.contains(&tag) { group(full, tag) } else { group(&default_dump, tag) };
                        if group(&d, tag) != want {
                            return format!("FAIL Beatmap::from({}) group {tag}: [{}] expected [{}]", $name,
                                group(&d, tag).map_or("", |x| &x[..x.len().min(200)]), want.map_or("", |x| &x[..x.len().min(200)]));
                        }
                    }
                }
            };
        }
        conv!(General, "General", ["G"]);
        conv!(Editor, "Editor", ["E"]);
        conv!(Metadata, "Metadata", ["M"]);
        conv!(Difficulty, "Difficulty", ["D"]);
        conv!(Events, "Events", ["V"]);
        conv!(Colors, "Colors", ["C"]);
        conv!(TimingPoints, "TimingPoints", ["G", "T"]);
        conv!(HitObjects, "HitObjects", ["G", "D", "V", "T", "H"]);
    }
    // the full decoder must be the same decoder through every public entry point (`str::parse::<Beatmap>`, `Beatmap::from_bytes`,
    // `Beatmap::decode`, `from_str`, `from_path`): the specialised decoders are compared with ONE of them above (seed C07-l)
    if let Some(d) = crate::reader::entry_points(bytes) {
        return format!("FAIL full decoder differs between entry points: {d}");
    }
    "OK".to_owned()
}

// --- C06 -------------------------------------------------------------------------------------

/// A `DecodeBeatmap` type that wraps the full Beatmap decoder and logs, per parser call, the line
/// and whether the parser rejected it.
pub struct Probe {
    pub map: Beatmap,
    pub log: Vec<(String, bool)>,
    /// section index of every logged call (same order as `log`)
    pub sections: Vec<u8>,
    /// the hit objects as parsed, before the finaliser sorts them
    pub pre_objects: Vec<rosu_map::section::hit_objects::HitObject>,
}
pub struct ProbeState {
    inner: BeatmapState,
    log: Vec<(String, bool)>,
    sections: Vec<u8>,
}
impl DecodeState for ProbeState {
    fn create(version: i32) -> Self {
        Self { inner: BeatmapState::create(version), log: Vec::new(), sections: Vec::new() }
    }
}
impl From<ProbeState> for Probe {
    fn from(s: ProbeState) -> Self {
        let pre_objects = s.inner.hit_objects.hit_objects.clone();
        Probe { map: s.inner.into(), log: s.log, sections: s.sections, pre_objects }
    }
}
macro_rules! probe_fn {
    ($name:ident, $idx:expr) => {
        fn $name(state: &mut Self::State, line: &str) -> Result<(), Self::Error> {
            let r = Beatmap::$name(&mut state.inner, line);
            state.log.push((line.to_owned(), r.is_err()));
            state.sections.push($idx);
            r
        }
    };
}
impl DecodeBeatmap for Probe {
    type Error = ParseBeatmapError;
    type State = ProbeState;
    probe_fn!(parse_general, 0);
    probe_fn!(parse_editor, 1);
    probe_fn!(parse_metadata, 2);
    probe_fn!(parse_difficulty, 3);
    probe_fn!(parse_events, 4);
    probe_fn!(parse_timing_points, 5);
    probe_fn!(parse_colors, 6);
    probe_fn!(parse_hit_objects, 7);
    probe_fn!(parse_variables, 8);
    probe_fn!(parse_catch_the_beat, 9);
    probe_fn!(parse_mania, 10);
}

/// C06 on a file given as a list of lines (joined with LF): for every line the section parser
/// rejected, the decoded map must equal the map decoded from the file without that line.
pub fn prop_c06(lines: &[String]) -> String {
    let raw: Vec<Vec<u8>> = lines.iter().map(|l| l.as_bytes().to_vec()).collect();
    prop_c06_raw(&raw)
}

/// the same on raw byte lines (they may hold bytes that are not valid UTF-8: the reader replaces them line by line)
pub fn prop_c06_raw(raw: &[Vec<u8>]) -> String {
    let lines: Vec<String> = raw.iter().map(|l| String::from_utf8_lossy(l).into_owned()).collect();
    let lines = &lines[..];
    let text = raw.join(&b'\n');
    let Ok(full) = rosu_map::from_bytes::<Probe>(&text) else { return "FAIL decode error".to_owned() };
    let full_dump = dump_beatmap(&full.map);
    // "the final decoded result" includes what a slider computes from its stored path (the game mode a path was built with is
    // not part of `==` nor of the dump, but decides how a Catmull path is approximated): the computed curves are compared too,
    // as long as that stays cheap (seed C06-l: the mode frozen when the first - rejected - hit-object line is seen)
    let n_sliders = full.map.hit_objects.iter().filter(|h| matches!(h.kind, rosu_map::section::hit_objects::HitObjectKind::Slider(_))).count();
    let n_rejected = full.log.iter().filter(|(_, r)| *r).count();
    let with_curves = n_sliders * (n_rejected + 1) <= 4000;
    let full_curves = if with_curves { curves_digest(&full.map) } else { String::new() };
    // map parser calls back to line indices with the independent framing transcription
    let Some(calls) = crate::frame::spec_frame_idx(lines) else { return "SKIP framing".to_owned() };
    // the k-th parser call belongs to the k-th line the framing hands on; when the counts agree the rejected calls can be
    // traced back to their source lines even if a line did not reach its parser as written (that is C05 / C10's subject,
    // but "the file without the rejected line decodes to the same result" is still this property)
    if calls.len() != full.log.len() {
        // the lines that reached a parser are not the lines the framing hands on. On the pinned tree this never happens; when a
        // REJECTED line is what makes later lines disappear (seed C06-q: a rejected bracketed line treated as an unknown section)
        // it is this property that is violated: erase the rejected lines one at a time and see whether the result changes
        for (k, (_, rej)) in full.log.iter().enumerate() {
            if !*rej {
                continue;
            }
            // the k-th call is the k-th handed-on line as long as nothing was lost before it
            let Some(idx) = calls.get(k) else { break };
            let mut without: Vec<&[u8]> = raw.iter().map(Vec::as_slice).collect();
            without.remove(*idx);
            if let Ok(m) = rosu_map::from_bytes::<Beatmap>(&without.join(&b'\n')) {
                if dump_beatmap(&m) != full_dump {
                    return format!("FAIL rejected line {idx} ({:?}) changes the result (and the lines after it did not reach their parser)", lines[*idx]);
                }
            }
        }
        return "SKIP framing-mismatch (see C05)".to_owned();
    }
    let mut rejected = 0;
    for (idx, (_, rej)) in calls.iter().zip(&full.log) {
        if !*rej {
            continue;
        }
        rejected += 1;
        let mut without: Vec<&[u8]> = raw.iter().map(Vec::as_slice).collect();
        without.remove(*idx);
        let t2 = without.join(&b'\n');
        match rosu_map::from_bytes::<Beatmap>(&t2) {
            Ok(m) => {
                let d = dump_beatmap(&m);
                if d != full_dump {
                    return format!("FAIL rejected line {idx} ({:?}) changes the result", lines[*idx]);
                }
                if with_curves && curves_digest(&m) != full_curves {
                    return format!("FAIL rejected line {idx} ({:?}) changes the computed curve of a slider", lines[*idx]);
                }
            }
            Err(_) => return "FAIL decode error".to_owned(),
        }
    }
    format!("OK rejected={rejected}")
}

/// per slider: number of path points, distance and every path point of the computed curve, as bit patterns
fn curves_digest(m: &Beatmap) -> String {
    let mut m = m.clone();
    let mut out = String::new();
    let mut bufs = rosu_map::section::hit_objects::CurveBuffers::default();
    for h in m.hit_objects.iter_mut() {
        if let rosu_map::section::hit_objects::HitObjectKind::Slider(ref mut s) = h.kind {
            let c = s.path.curve_with_bufs(&mut bufs);
            out.push_str(&format!("{}:{:x}:", c.path().len(), c.dist().to_bits()));
            for p in c.path() {
                out.push_str(&format!("{:x},{:x};", p.x.to_bits(), p.y.to_bits()));
            }
            out.push('|');
        }
    }
    out
}

fn curve_bits(c: &rosu_map::section::hit_objects::Curve) -> String {
    let mut out = format!("{}:{:x}:", c.path().len(), c.dist().to_bits());
    for p in c.path() {
        out.push_str(&format!("{:x},{:x};", p.x.to_bits(), p.y.to_bits()));
    }
    for l in c.lengths() {
        out.push_str(&format!("{:x},", l.to_bits()));
    }
    out
}

/// C18 on DECODED maps: the curve a decoded slider hands out (cached inside its path by the decoder's finaliser or computed on
/// first access) is the curve `Curve::new` computes for the map's mode, the slider's control points and its requested length -
/// for the Beatmap and the HitObjects decoder; and it stays the curve the path would compute afresh after the map's mode was
/// changed and the map encoded (encoding must not touch what a cached curve depends on without dropping the cache).
/// Only meaningful for files whose `Mode` record precedes the hit objects (finding F15 otherwise): the generator sees to that.
pub fn prop_deccurves(bytes: &[u8]) -> String {
    use rosu_map::section::general::GameMode;
    use rosu_map::section::hit_objects::{Curve, CurveBuffers, HitObjectKind, HitObjects};
    let Ok(mut m) = rosu_map::from_bytes::<Beatmap>(bytes) else { return "FAIL decode error".to_owned() };
    let Ok(mut ho) = rosu_map::from_bytes::<HitObjects>(bytes) else { return "FAIL decode error".to_owned() };
    let mode = m.mode;
    let mut n = 0;
    for (which, objs) in [("Beatmap", &mut m.hit_objects), ("HitObjects", &mut ho.hit_objects)] {
        for (i, h) in objs.iter_mut().enumerate() {
            if let HitObjectKind::Slider(ref mut s) = h.kind {
                let cps = s.path.control_points().to_vec();
                let exp = s.path.expected_dist();
                let fresh = curve_bits(&Curve::new(mode, &cps, exp, &mut CurveBuffers::default()));
                let cached = curve_bits(s.path.curve());
                if cached != fresh {
                    return format!("FAIL {which}: slider {i} hands out a curve that Curve::new does not compute for its mode, control points and length {exp:?}");
                }
                n += 1;
            }
        }
    }
    for new_mode in [GameMode::Osu, GameMode::Taiko, GameMode::Catch, GameMode::Mania] {
        if new_mode == mode {
            continue;
        }
        let mut m2 = m.clone();
        m2.mode = new_mode;
        if m2.encode_to_string().is_err() {
            continue;
        }
        for (i, h) in m2.hit_objects.iter_mut().enumerate() {
            if let HitObjectKind::Slider(ref mut s) = h.kind {
                let cached = curve_bits(s.path.curve());
                let mut p2 = s.path.clone();
                p2.clear_curve();
                if curve_bits(p2.curve()) != cached {
                    return format!("FAIL after mode := {new_mode:?} and encode: slider {i} keeps a cached curve that its path no longer computes");
                }
            }
        }
    }
    format!("OK sliders={n}")
}

/// `T::default()` is what decoding an empty input gives, for every decoder type ("unknown keys or invalid values leave the
/// field untouched" speaks of these values), compared through `Debug`
pub fn prop_defaults() -> String {
    macro_rules! same {
        ($t:ty) => {
            match rosu_map::from_bytes::<$t>(b"") {
                Ok(x) => {
                    if format!("{x:?}") != format!("{:?}", <$t>::default()) {
                        return format!("FAIL {}::default() differs from decoding an empty input", stringify!($t));
                    }
                }
                Err(_) => return format!("FAIL {} fails on an empty input", stringify!($t)),
            }
        };
    }
    same!(Beatmap);
    same!(General);
    same!(Editor);
    same!(Metadata);
    same!(Difficulty);
    same!(Events);
    same!(Colors);
    same!(TimingPoints);
    same!(HitObjects);
    "OK".to_owned()
}

pub fn enc(bytes: &[u8]) -> String {
    match rosu_map::from_bytes::<Beatmap>(bytes) {
        Ok(mut m) => match m.encode_to_string() {
            Ok(t) => format!("ok {}", crate::util::hex(t.as_bytes())),
            Err(e) => err(&e),
        },
        Err(e) => err(&e),
    }
}

pub fn dispatch_impl(toks: &[&str]) -> Option<String> {
    match toks {
        ["enc", hex] => Some(enc(&unhex(hex))),
        ["dec", hex] => Some(dec(&unhex(hex))),
        ["decshift", _k, a, b] => Some(format!("{} ## {}", dec(&unhex(a)), dec(&unhex(b)))),
        ["dec9", hex] => Some(dec9(&unhex(hex)).into_iter().map(|(n, d)| format!("{n}={d}")).collect::<Vec<_>>().join(" ## ")),
        _ => None,
    }
}

/// C01: every decoder returns a value (no error from an in-memory buffer, no panic — a panic is
/// caught by the harness main loop and printed as PANIC), re-encoding completes and yields text.
pub fn prop_total(bytes: &[u8]) -> String {
    for (name, d) in dec9(bytes) {
        if !d.starts_with("ok") {
            return format!("FAIL {name}: {}", &d[..d.len().min(80)]);
        }
    }
    // "an in-memory buffer" is also a plain `&[u8]` or a `VecDeque<u8>` handed to `decode` (std's strictest `BufRead`s: they
    // panic when asked to consume more than they hold, where `Cursor` / `BufReader` forgive it): seed C01-n
    {
        use rosu_map::section::hit_objects::HitObjects;
        let mut sl: &[u8] = bytes;
        if let Err(e) = Beatmap::decode(&mut sl) {
            return format!("FAIL Beatmap::decode(&[u8]): {}", kind_tag(e.kind()));
        }
        let mut dq: std::collections::VecDeque<u8> = bytes.iter().copied().collect();
        if let Err(e) = HitObjects::decode(&mut dq) {
            return format!("FAIL HitObjects::decode(VecDeque): {}", kind_tag(e.kind()));
        }
    }
    let mut m = rosu_map::from_bytes::<Beatmap>(bytes).unwrap();
    // the rest of the public surface of a decoded map must not panic either (accessors that compute curves, sample
    // names, break durations); the harness turns a panic into a FAIL of this request
    {
        let mut bufs = rosu_map::section::hit_objects::CurveBuffers::default();
        let mut acc = 0u64;
        for h in m.clone().hit_objects.iter_mut() {
            acc ^= h.end_time().to_bits() ^ h.clone().end_time_with_bufs(&mut bufs).to_bits() ^ u64::from(h.new_combo());
            for s in h.samples.iter() {
                acc ^= s.lookup_name().to_string().len() as u64;
            }
        }
        for b in &m.breaks {
            acc ^= b.duration().to_bits() ^ u64::from(b.has_effect());
        }
        std::hint::black_box(acc);
    }
    match m.encode_to_string() {
        Ok(t) => {
            // the text is a `String`, hence valid UTF-8; it must also decode again without error
            match rosu_map::from_bytes::<Beatmap>(t.as_bytes()) {
                Ok(_) => format!("OK len={}", t.len()),
                Err(e) => format!("FAIL re-decode of the encoding: {}", kind_tag(e.kind())),
            }
        }
        Err(e) => format!("FAIL encode: {}", kind_tag(e.kind())),
    }
}

pub fn dispatch_prop(toks: &[&str]) -> Option<String> {
    match toks {
        ["total", hex] => Some(prop_total(&unhex(hex))),
        ["dec9", hex] => Some(prop_dec9(&unhex(hex))),
        ["deccurves", hex] => Some(prop_deccurves(&unhex(hex))),
        ["defaults"] => Some(prop_defaults()),
        ["c06", hexes @ ..] => Some(prop_c06_raw(&hexes.iter().map(|h| unhex(h)).collect::<Vec<_>>())),
        _ => None,
    }
}
