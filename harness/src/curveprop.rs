//! property oracles for C16–C19 (filled in below).
pub fn dispatch_prop(_toks: &[&str]) -> Option<String> {
    None
}
