//! Property oracles for C16–C19, evaluated on the real code through its public API and written from the
//! property statements (not from the Lean model): exact curves are evaluated here independently in f64.
//!
//! `curve …`    → C16 (requested pixel length)      `curvegeo …` → C17 (paths follow the exact curves)
//! `curveseq …` → C18 (purity across APIs/histories) `pos …`      → C19 (position along a curve)
use rosu_map::section::general::GameMode;
use rosu_map::section::hit_objects::{
    BorrowedCurve, Curve, CurveBuffers, PathControlPoint, SliderPath, SplineType,
};
use rosu_map::util::Pos;

use crate::curve::{idx_len, parse_curve_req, parse_len, parse_seq_req};

type V = (f64, f64);

fn v(p: Pos) -> V {
    (f64::from(p.x), f64::from(p.y))
}
fn sub(a: V, b: V) -> V {
    (a.0 - b.0, a.1 - b.1)
}
fn add(a: V, b: V) -> V {
    (a.0 + b.0, a.1 + b.1)
}
fn mul(a: V, k: f64) -> V {
    (a.0 * k, a.1 * k)
}
fn norm(a: V) -> f64 {
    a.0.hypot(a.1)
}
fn dot(a: V, b: V) -> f64 {
    a.0 * b.0 + a.1 * b.1
}
fn cross(a: V, b: V) -> f64 {
    a.0 * b.1 - a.1 * b.0
}

fn finite_pts(pts: &[PathControlPoint]) -> bool {
    pts.iter().all(|p| p.pos.x.is_finite() && p.pos.y.is_finite())
}

fn scale_of(path: &[Pos], pts: &[PathControlPoint]) -> f64 {
    let mut s = 1.0f64;
    for p in path.iter().chain(pts.iter().map(|p| &p.pos)) {
        if p.x.is_finite() {
            s = s.max(f64::from(p.x.abs()));
        }
        if p.y.is_finite() {
            s = s.max(f64::from(p.y.abs()));
        }
    }
    s
}

fn same_pos(a: Pos, b: Pos) -> bool {
    a.x.to_bits() == b.x.to_bits() && a.y.to_bits() == b.y.to_bits()
}

fn dist_point_seg(q: V, a: V, b: V) -> f64 {
    let ab = sub(b, a);
    let l2 = dot(ab, ab);
    if l2 == 0.0 {
        return norm(sub(q, a));
    }
    let t = (dot(sub(q, a), ab) / l2).clamp(0.0, 1.0);
    norm(sub(q, add(a, mul(ab, t))))
}

fn fresh(mode: GameMode, pts: &[PathControlPoint], len: Option<f64>) -> Curve {
    Curve::new(mode, pts, len, &mut CurveBuffers::default())
}

/// the curve of the request obtained through the other public routes (borrowed on buffers that another
/// computation has used, the slider path's cache after its points / length were set through the mutators)
/// must be the curve a fresh owned computation gives: the clauses of C16 and C19 are about "the computed
/// curve" whichever way a caller obtains it. Self-contained (replays on a single request).
fn routes_agree(mode: GameMode, pts: &[PathControlPoint], len: Option<f64>) -> Result<(), String> {
    let want = fresh(mode, pts, len);
    let dirty = vec![
        PathControlPoint { pos: Pos::new(0.0, 0.0), path_type: Some(rosu_map::section::hit_objects::PathType::LINEAR) },
        PathControlPoint { pos: Pos::new(100.0, 0.0), path_type: None },
        PathControlPoint { pos: Pos::new(100.0, 100.0), path_type: None },
    ];
    // histories for the shared buffers: a plain polyline; and curves that leave `calculate_length` through each of its early
    // returns with scratch state behind them (an osu!-mode Catmull whose simplification removed length, ending in a doubled
    // point with a longer requested length / with a non-positive requested length; a Bezier that grew the flattening buffers;
    // an empty list)
    let pt = |x: f32, y: f32, t: Option<rosu_map::section::hit_objects::PathType>| PathControlPoint { pos: Pos::new(x, y), path_type: t };
    use rosu_map::section::hit_objects::PathType as PT;
    let catmull = vec![pt(0.0, 0.0, Some(PT::CATMULL)), pt(50.0, 80.0, None), pt(100.0, 0.0, Some(PT::LINEAR)), pt(150.0, 0.0, None), pt(150.0, 0.0, None)];
    let catmull2 = vec![pt(0.0, 0.0, Some(PT::CATMULL)), pt(50.0, 0.0, None), pt(50.0, 0.0, None)];
    let bezier = vec![pt(0.0, 0.0, Some(PT::BEZIER)), pt(300.0, 400.0, None), pt(-200.0, 350.0, None), pt(500.0, -100.0, None), pt(10.0, 10.0, None), pt(250.0, 250.0, None)];
    let histories: [Vec<(&[PathControlPoint], Option<f64>)>; 3] = [
        vec![(&dirty, None)],
        vec![(&bezier, Some(5000.0)), (&catmull, Some(1000.0))],
        vec![(&catmull2, Some(200.0)), (&[], None), (&catmull, Some(-1.0))],
    ];
    // `Clone` of the pieces is part of the API: a CLONE of used buffers is as good as the buffers (seed C18-s: a hand-written Clone whose
    // scratch vectors come out with unequal lengths), and `Curve::clone_from` onto a longer and onto a shorter curve yields the source
    // (seed C19-s: a clone_from that never shrinks)
    {
        let mut warm = CurveBuffers::default();
        let _ = BorrowedCurve::new(GameMode::Osu, &bezier, Some(5000.0), &mut warm);
        let mut cl = warm.clone();
        let c = Curve::new(mode, pts, len, &mut cl);
        if !same_curve(want.path(), want.lengths(), &c) {
            return Err("the curve computed on a CLONE of used buffers differs from the fresh owned curve".into());
        }
        let long = Curve::new(GameMode::Osu, &bezier, Some(5000.0), &mut CurveBuffers::default());
        let short = Curve::new(GameMode::Osu, &dirty, None, &mut CurveBuffers::default());
        for dst in [&long, &short] {
            let mut slot = dst.clone();
            slot.clone_from(&want);
            if !same_curve(want.path(), want.lengths(), &slot) {
                return Err(format!("Curve::clone_from onto a curve of {} points does not yield the source curve ({} points): got {} points / {} lengths",
                    dst.path().len(), want.path().len(), slot.path().len(), slot.lengths().len()));
            }
        }
        if !same_curve(want.path(), want.lengths(), &want.clone()) {
            return Err("Curve::clone differs from the curve".into());
        }
    }
    for (hi, hist) in histories.iter().enumerate() {
        let mut bufs = CurveBuffers::default();
        for (hp, hl) in hist {
            let _ = BorrowedCurve::new(GameMode::Osu, hp, *hl, &mut bufs);
        }
        let b = BorrowedCurve::new(mode, pts, len, &mut bufs);
        if !(b.path().len() == want.path().len()
            && b.lengths().len() == want.lengths().len()
            && b.path().iter().zip(want.path()).all(|(a, c)| same_pos(*a, *c))
            && b.lengths().iter().zip(want.lengths()).all(|(a, c)| a.to_bits() == c.to_bits()))
        {
            return Err(format!("the borrowed curve computed on reused buffers (history {hi}) differs from the fresh owned curve"));
        }
        // the borrowed curve's own accessors against the owned curve's
        for q in [-0.5f64, 0.0, 0.25, 0.5, 0.999, 1.0, 1.5] {
            let (pb, pw) = (b.position_at(q), want.position_at(q));
            if !same_pos(pb, pw) || b.progress_to_dist(q).to_bits() != want.progress_to_dist(q).to_bits() {
                return Err(format!("BorrowedCurve::position_at / progress_to_dist({q}) differ from the owned curve's"));
            }
            let d = want.progress_to_dist(q);
            if b.idx_of_dist(d) != want.idx_of_dist(d) || !same_pos(b.interpolate_vertices(b.idx_of_dist(d), d), want.interpolate_vertices(want.idx_of_dist(d), d)) {
                return Err(format!("BorrowedCurve::idx_of_dist / interpolate_vertices at progress {q} differ from the owned curve's"));
            }
        }
        if b.dist().to_bits() != want.dist().to_bits() {
            return Err("BorrowedCurve::dist differs from the owned curve's".into());
        }
        if let Some(l) = want.lengths().iter().find(|l| b.idx_of_dist(**l) != want.idx_of_dist(**l)) {
            return Err(format!("BorrowedCurve::idx_of_dist({l}) (a cumulative length of the curve) differs from the owned curve's"));
        }
        // the owned route on the same used buffers
        let o = Curve::new(mode, pts, len, &mut bufs);
        if !(o.path().len() == want.path().len()
            && o.lengths().iter().zip(want.lengths()).all(|(a, c)| a.to_bits() == c.to_bits())
            && o.path().iter().zip(want.path()).all(|(a, c)| same_pos(*a, *c)))
        {
            return Err(format!("the owned curve computed on reused buffers (history {hi}) differs from the fresh owned curve"));
        }
    }
    let mut bufs = CurveBuffers::default();
    let _ = BorrowedCurve::new(GameMode::Osu, &catmull, Some(1000.0), &mut bufs);
    let mut sp = SliderPath::new(mode, pts.to_vec(), None);
    let _ = sp.curve();
    *sp.expected_dist_mut() = len;
    if !same_curve(want.path(), want.lengths(), sp.curve()) {
        return Err("the slider path's curve after setting the requested length through expected_dist_mut differs from the fresh owned curve".into());
    }
    let mut sp = SliderPath::new(mode, dirty.clone(), len);
    let _ = sp.curve_with_bufs(&mut bufs);
    *sp.control_points_mut() = pts.to_vec();
    if !same_curve(want.path(), want.lengths(), sp.curve_with_bufs(&mut bufs)) {
        return Err("the slider path's curve after replacing the control points through control_points_mut differs from the fresh owned curve".into());
    }
    // replacing a whole path by another one (Clone::clone_from / clone, of a source whose curve was never computed or was) is
    // one more way of giving it these control points and this length (seed C16-n: a hand-written clone_from that keeps the
    // destination's cached curve when the source has none)
    for src_cached in [false, true] {
        let mut dst = SliderPath::new(mode, dirty.clone(), Some(80.0));
        let _ = dst.curve();
        let mut src = SliderPath::new(mode, pts.to_vec(), len);
        if src_cached {
            let _ = src.curve();
        }
        dst.clone_from(&src);
        if !same_curve(want.path(), want.lengths(), dst.curve()) {
            return Err(format!("the curve of a slider path overwritten by clone_from (source curve {}computed) differs from the fresh owned curve", if src_cached { "" } else { "not " }));
        }
        let mut cl = src.clone();
        if !same_curve(want.path(), want.lengths(), cl.curve()) {
            return Err("the curve of a cloned slider path differs from the fresh owned curve".into());
        }
        let mut v = vec![SliderPath::new(mode, dirty.clone(), Some(80.0))];
        let _ = v[0].curve();
        v.clone_from(&vec![src.clone()]);
        if !same_curve(want.path(), want.lengths(), v[0].curve()) {
            return Err("the curve of a slider path inside a Vec overwritten by clone_from differs from the fresh owned curve".into());
        }
    }
    Ok(())
}

// ---------------------------------------------------------------------------------------------- C16

fn has_catmull(pts: &[PathControlPoint]) -> bool {
    pts.iter()
        .any(|p| p.path_type.map_or(false, |t| t.kind == SplineType::Catmull))
}

fn check_lengths_basic(tag: &str, c: &Curve) -> Result<(), String> {
    let ls = c.lengths();
    if ls.is_empty() || ls[0].to_bits() != 0 {
        return Err(format!("{tag}: lengths do not start at 0.0"));
    }
    for w in ls.windows(2) {
        if !(w[1] >= w[0] - 1e-5) {
            return Err(format!("{tag}: lengths decrease {} -> {}", w[0], w[1]));
        }
    }
    if ls.iter().any(|l| !l.is_finite()) {
        return Err(format!("{tag}: non-finite length"));
    }
    if c.dist().to_bits() != ls[ls.len() - 1].to_bits() {
        return Err(format!("{tag}: dist() is not the last length"));
    }
    Ok(())
}

/// the unadjusted path of a control-point list whose segments are all linear, written from the property's reading: the segments are the
/// runs between typed control points (a typed point ends one segment and starts the next), each contributes its control points, and the
/// shared joint appears once.
fn ref_linear_natural(pts: &[PathControlPoint]) -> Vec<Pos> {
    let mut out: Vec<Pos> = Vec::new();
    let mut start = 0;
    for i in 0..pts.len() {
        if pts[i].path_type.is_none() && i + 1 < pts.len() {
            continue;
        }
        let seg = &pts[start..=i];
        if seg.len() == 1 {
            out.push(seg[0].pos);
        } else {
            let skip = out.last().map_or(false, |l| *l == seg[0].pos);
            out.extend(seg.iter().skip(usize::from(skip)).map(|p| p.pos));
        }
        start = i;
    }
    out
}

fn c16(toks: &[&str]) -> String {
    let Some(req) = parse_curve_req(toks) else { return "SKIP bad-request".into() };
    if !finite_pts(&req.pts) {
        return "SKIP non-finite-coordinates".into();
    }
    if let Err(e) = routes_agree(req.mode, &req.pts, req.len) {
        return format!("FAIL api-route: {e}");
    }
    let nat = fresh(req.mode, &req.pts, None);
    if nat.path().iter().any(|p| !(p.x.is_finite() && p.y.is_finite())) {
        return "FAIL nonfinite-natural-path".into();
    }
    if let Err(e) = check_lengths_basic("natural", &nat) {
        return format!("FAIL {e}");
    }
    let np = nat.path();
    // the unadjusted path of a single linear segment is its control points, vertex for vertex (repeated ones included: the
    // "ends in two identical points" exception of the property is about exactly these)
    let single_linear = req.pts.len() >= 2
        && req.pts[0].path_type.map_or(true, |t| t.kind == SplineType::Linear)
        && req.pts[1..].iter().all(|p| p.path_type.is_none());
    if single_linear && !(np.len() == req.pts.len() && np.iter().zip(&req.pts).all(|(a, b)| same_pos(*a, b.pos))) {
        return format!("FAIL the unadjusted path of a linear segment is not its control points: {} vertices for {} control points", np.len(), req.pts.len());
    }
    // ... and of several linear segments: each segment's control points in order, a segment's first vertex dropped when it repeats the
    // vertex before it (the joint is one control point, listed once); a path type on the last control point opens no further segment
    let all_linear = !req.pts.is_empty() && req.pts.iter().all(|p| p.path_type.map_or(true, |t| t.kind == SplineType::Linear));
    if all_linear {
        let want = ref_linear_natural(&req.pts);
        if !(np.len() == want.len() && np.iter().zip(&want).all(|(a, b)| same_pos(*a, *b))) {
            return format!("FAIL the unadjusted path of linear segments is not their control points joined: {} vertices, expected {}", np.len(), want.len());
        }
    }
    let scale = scale_of(np, &req.pts);
    // without a requested length the distance is the polyline's own length ...
    if !np.is_empty() && nat.lengths().len() != np.len() {
        return "FAIL natural: lengths/path misaligned".into();
    }
    let poly: f64 = np.windows(2).map(|w| norm(sub(v(w[1]), v(w[0])))).sum();
    let simplified = matches!(req.mode, GameMode::Osu) && has_catmull(&req.pts);
    if !simplified {
        if (nat.dist() - poly).abs() > 1e-6 * poly + 1e-6 * scale + 1e-9 {
            return format!("FAIL natural dist {} is not the polyline length {}", nat.dist(), poly);
        }
    } else {
        // ... and in osu! mode the Catmull simplification leaves the total unchanged
        let full = fresh(GameMode::Taiko, &req.pts, None);
        if (nat.dist() - full.dist()).abs() > 1e-5 * full.dist() + 1e-5 * scale + 1e-6 {
            return format!("FAIL simplification changed the length {} -> {}", full.dist(), nat.dist());
        }
    }
    let Some(l) = req.len else { return "OK natural".into() };
    if !(l.is_finite() && l > 0.0) {
        return "SKIP L-outside-domain".into();
    }
    let adj = fresh(req.mode, &req.pts, Some(l));
    let ap = adj.path();
    if np.len() <= 1 {
        return if ap.len() == np.len() && adj.dist().to_bits() == nat.dist().to_bits() {
            "OK single-point".into()
        } else {
            "FAIL single-point path did not keep its natural length".into()
        };
    }
    let n = np.len();
    let tail_equal = np[n - 1] == np[n - 2];
    if tail_equal && nat.dist() < l {
        let same = ap.len() == n && ap.iter().zip(np).all(|(a, b)| same_pos(*a, *b));
        return if same && adj.dist().to_bits() == nat.dist().to_bits() {
            "OK equal-tail".into()
        } else {
            "FAIL equal-tail case did not keep the natural curve".into()
        };
    }
    if let Err(e) = check_lengths_basic("adjusted", &adj) {
        // a non-finite length can only come with a non-finite end point; report that first
        if ap.iter().all(|p| p.x.is_finite() && p.y.is_finite()) {
            return format!("FAIL {e}");
        }
    }
    if adj.dist().to_bits() != l.to_bits() {
        // the code's own near-equality short cut: |natural - L| < f64::EPSILON keeps the natural length
        if (nat.dist() - l).abs() < f64::EPSILON && adj.dist().to_bits() == nat.dist().to_bits() {
            return "OK near-natural".into();
        }
        return format!("FAIL dist {} is not the requested {}", adj.dist(), l);
    }
    if ap.len() < 2 || ap.len() > n || adj.lengths().len() != ap.len() {
        return "FAIL adjusted: lengths/path misaligned".into();
    }
    let k = ap.len() - 1;
    for i in 0..k {
        if !same_pos(ap[i], np[i]) || adj.lengths()[i].to_bits() != nat.lengths()[i].to_bits() {
            return format!("FAIL adjusted curve is not a prefix of the natural one at {i}");
        }
    }
    let (a, b, q) = (v(np[k - 1]), v(np[k]), v(ap[k]));
    if !(q.0.is_finite() && q.1.is_finite()) {
        let seglen = (np[k] - np[k - 1]).length();
        return format!("FAIL nonfinite-endpoint k={k} seglen32={seglen:e}");
    }
    let slack = 2e-5 * scale + 1e-3;
    let want = l - adj.lengths()[k - 1];
    let got = norm(sub(q, a));
    let tol_len = 1e-5 * want.abs() + slack;
    if (got - want).abs() > tol_len {
        return format!("FAIL end point is {got} from the cut segment's start, expected {want}");
    }
    let ab = sub(b, a);
    let off = cross(ab, sub(q, a)).abs() / norm(ab).max(1e-300);
    if off > tol_len || dot(ab, sub(q, a)) < -tol_len * norm(ab) {
        return format!("FAIL end point off the segment's line by {off}");
    }
    if l <= nat.dist() {
        if dist_point_seg(q, a, b) > tol_len {
            let chord = norm(ab);
            let booked = nat.lengths()[k] - nat.lengths()[k - 1];
            if simplified && booked > chord + tol_len {
                return format!("FAIL cut-overshoots-simplified-segment k={k} chord={chord} booked={booked} placed={want}");
            }
            return "FAIL cut point not on the segment it falls in".into();
        }
        "OK cut".into()
    } else {
        if k != n - 1 {
            return "FAIL extension did not keep all natural points".into();
        }
        "OK extended".into()
    }
}

// ---------------------------------------------------------------------------------------------- C17

#[derive(Clone)]
enum Exact {
    Poly(Vec<V>),
    Bezier(Vec<V>),
    Arc { c: V, r: f64, t0: f64, sweep: f64 },
    Catmull([V; 4]),
}

impl Exact {
    fn eval(&self, t: f64) -> V {
        match self {
            Exact::Poly(ps) => {
                let n = ps.len() - 1;
                let x = (t * n as f64).clamp(0.0, n as f64);
                let i = (x.floor() as usize).min(n - 1);
                let f = x - i as f64;
                add(mul(ps[i], 1.0 - f), mul(ps[i + 1], f))
            }
            Exact::Bezier(ps) => {
                let mut w = ps.clone();
                for k in (1..w.len()).rev() {
                    for i in 0..k {
                        w[i] = add(mul(w[i], 1.0 - t), mul(w[i + 1], t));
                    }
                }
                w[0]
            }
            Exact::Arc { c, r, t0, sweep } => {
                let th = t0 + sweep * t;
                (c.0 + r * th.cos(), c.1 + r * th.sin())
            }
            Exact::Catmull([v1, v2, v3, v4]) => {
                let f = |a: f64, b: f64, c: f64, d: f64| {
                    0.5 * (2.0 * b + (-a + c) * t + (2.0 * a - 5.0 * b + 4.0 * c - d) * t * t
                        + (-a + 3.0 * b - 3.0 * c + d) * t * t * t)
                };
                (f(v1.0, v2.0, v3.0, v4.0), f(v1.1, v2.1, v3.1, v4.1))
            }
        }
    }

    fn refine(&self, q: V, lo: f64, hi: f64) -> f64 {
        let (mut lo, mut hi) = (lo, hi);
        for _ in 0..40 {
            let (m1, m2) = (lo + (hi - lo) / 3.0, hi - (hi - lo) / 3.0);
            if norm(sub(self.eval(m1), q)) < norm(sub(self.eval(m2), q)) {
                hi = m2;
            } else {
                lo = m1;
            }
        }
        norm(sub(self.eval((lo + hi) / 2.0), q))
    }
}

const NS: usize = 1024;

/// an exact curve with its coarse samples (computed once)
#[derive(Clone)]
struct Sampled {
    cv: Exact,
    pts: Vec<V>,
}

impl Sampled {
    fn new(cv: Exact) -> Self {
        let pts = (0..=NS).map(|i| cv.eval(i as f64 / NS as f64)).collect();
        Self { cv, pts }
    }

    fn eval(&self, t: f64) -> V {
        self.cv.eval(t)
    }

    /// distance from `q` to the curve: the coarse samples' local minima (best four), each refined by ternary search.
    fn dist_to(&self, q: V) -> f64 {
        // a polyline is its own exact curve: the distance is the minimum over its segments (no sampling — a run of equal
        // samples on a zero-length segment would otherwise crowd the true minimum out of the candidates)
        if let Exact::Poly(ps) = &self.cv {
            return if ps.len() == 1 {
                norm(sub(ps[0], q))
            } else {
                ps.windows(2).map(|w| dist_point_seg(q, w[0], w[1])).fold(f64::INFINITY, f64::min)
            };
        }
        let d: Vec<f64> = self.pts.iter().map(|p| norm(sub(*p, q))).collect();
        // local minima of the samples; of a plateau of equal values only its first sample is a candidate
        let mut mins: Vec<(f64, usize)> = (0..=NS)
            .filter(|&i| (i == 0 || d[i] < d[i - 1]) && (i == NS || d[i] <= d[i + 1]))
            .map(|i| (d[i], i))
            .collect();
        mins.sort_by(|a, b| a.0.partial_cmp(&b.0).unwrap());
        let mut best = f64::INFINITY;
        for &(di, i) in mins.iter().take(4) {
            let lo = (i as f64 - 1.0).max(0.0) / NS as f64;
            let hi = (i as f64 + 1.0).min(NS as f64) / NS as f64;
            best = best.min(di).min(self.cv.refine(q, lo, hi));
        }
        best
    }
}

fn arc_through(a: V, b: V, c: V) -> Option<Exact> {
    let d = 2.0 * (a.0 * (b.1 - c.1) + b.0 * (c.1 - a.1) + c.0 * (a.1 - b.1));
    if d == 0.0 {
        return None;
    }
    let (a2, b2, c2) = (dot(a, a), dot(b, b), dot(c, c));
    let ctr = (
        (a2 * (b.1 - c.1) + b2 * (c.1 - a.1) + c2 * (a.1 - b.1)) / d,
        (a2 * (c.0 - b.0) + b2 * (a.0 - c.0) + c2 * (b.0 - a.0)) / d,
    );
    let r = norm(sub(a, ctr));
    let ang = |p: V| (p.1 - ctr.1).atan2(p.0 - ctr.0);
    let (ta, tb, tc) = (ang(a), ang(b), ang(c));
    let tau = std::f64::consts::TAU;
    // counter-clockwise sweep a -> c, and whether b lies on it
    let ccw_ac = (tc - ta).rem_euclid(tau);
    let ccw_ab = (tb - ta).rem_euclid(tau);
    let sweep = if ccw_ab <= ccw_ac { ccw_ac } else { ccw_ac - tau };
    Some(Exact::Arc {
        c: ctr,
        r,
        t0: ta,
        sweep,
    })
}

struct Seg {
    /// acceptable exact curves for this segment (any one of a group must fit), with the allowed deviation
    alts: Vec<(Vec<Sampled>, f64, f64)>,
}

fn segments(mode: GameMode, pts: &[PathControlPoint], slack: f64) -> Vec<Seg> {
    let mut segs = Vec::new();
    let mut start = 0usize;
    for i in 0..pts.len() {
        if pts[i].path_type.is_none() && i + 1 < pts.len() {
            continue;
        }
        let vs: Vec<V> = pts[start..=i].iter().map(|p| v(p.pos)).collect();
        if vs.len() >= 2 {
            let kind = pts[start].path_type.map_or(SplineType::Linear, |t| t.kind);
            // flat pieces have second differences <= 2 * BEZIER_TOLERANCE = 0.5; the subdivided control polygon of a degree-n
            // piece is then within n(n-1)/32 * 0.5 of the curve: bound 0.5 * max(1, n(n-1)/16)
            let deg = (vs.len() - 1) as f64;
            let btol = 0.5 * (deg * (deg - 1.0) / 16.0).max(1.0);
            let bez = (vec![Sampled::new(Exact::Bezier(vs.clone()))], btol + slack, btol + slack);
            let alts = match kind {
                SplineType::Linear => vec![(vec![Sampled::new(Exact::Poly(vs))], slack, slack)],
                SplineType::BSpline => vec![bez],
                SplineType::PerfectCurve => {
                    let mut alts = Vec::new();
                    let mut must_arc = false;
                    let mut must_bezier = false;
                    if vs.len() == 3 {
                        if let Some(arc) = arc_through(vs[0], vs[1], vs[2]) {
                            if let Exact::Arc { r, sweep, .. } = arc {
                                let cr = cross(sub(vs[1], vs[0]), sub(vs[2], vs[0])).abs();
                                let need = if r > 0.05 { sweep.abs() / (2.0 * (1.0 - 0.1 / r).acos()) } else { 2.0 };
                                must_arc = cr > 1.0 && need < 900.0;
                                // "enormous perfect curves fall back to a Bezier": the code refuses arcs of >= 1000 sub-points; its
                                // f32 evaluation of the divisor is within 10 % of `need` for radii below 5e5
                                must_bezier = need > 1300.0 && r < 5e5;
                                // n = ceil(range/div) points make n-1 intervals: the per-interval angle can reach 2*div for n = 2,
                                // so the sagitta bound derived from the constants is 0.1 * (n/(n-1))^2 <= 0.4
                                if !must_bezier {
                                    alts.push((vec![Sampled::new(arc)], 0.1 + slack + 1e-5 * r, 0.4 + slack + 1e-5 * r));
                                }
                            }
                        }
                    }
                    if !must_arc {
                        alts.push(bez);
                    }
                    alts
                }
                SplineType::Catmull => {
                    let n = vs.len();
                    let mut spans = Vec::new();
                    let mut chord = 0.0f64;
                    for j in 0..n - 1 {
                        let v1 = if j > 0 { vs[j - 1] } else { vs[j] };
                        let v2 = vs[j];
                        let v3 = vs[j + 1];
                        let v4 = if j + 2 < n { vs[j + 2] } else { sub(mul(v3, 2.0), v2) };
                        // |B''| is linear in t: its maximum is at an end of the span
                        let dd = |t: f64| {
                            let g = |a: f64, b: f64, c: f64, d: f64| {
                                0.5 * (2.0 * (2.0 * a - 5.0 * b + 4.0 * c - d) + 6.0 * (-a + 3.0 * b - 3.0 * c + d) * t)
                            };
                            norm((g(v1.0, v2.0, v3.0, v4.0), g(v1.1, v2.1, v3.1, v4.1)))
                        };
                        chord = chord.max(dd(0.0).max(dd(1.0)) / (8.0 * 50.0 * 50.0));
                        spans.push(Sampled::new(Exact::Catmull([v1, v2, v3, v4])));
                    }
                    let simpl = if matches!(mode, GameMode::Osu) { 6.0 } else { 0.0 };
                    vec![(spans, slack, chord + simpl + slack)]
                }
            };
            segs.push(Seg { alts });
        }
        start = i;
    }
    segs
}

fn c17(toks: &[&str]) -> String {
    let Some(req) = parse_curve_req(toks) else { return "SKIP bad-request".into() };
    if !finite_pts(&req.pts) {
        return "SKIP non-finite-coordinates".into();
    }
    if req.pts.is_empty() {
        return "SKIP empty".into();
    }
    let c = fresh(req.mode, &req.pts, None);
    let path: Vec<V> = c.path().iter().map(|p| v(*p)).collect();
    if path.iter().any(|p| !(p.0.is_finite() && p.1.is_finite())) {
        return "FAIL nonfinite-natural-path".into();
    }
    let scale = scale_of(c.path(), &req.pts);
    let slack = 4e-5 * scale + 2e-3;
    // first / last control point
    let first = v(req.pts[0].pos);
    if norm(sub(path[0], first)) > slack {
        return "FAIL path does not start at the first control point".into();
    }
    let last = v(req.pts[req.pts.len() - 1].pos);
    let segs = segments(req.mode, &req.pts, slack);
    // exact for linear / Bezier / Catmull (the control point itself, or the polynomial at t = 1); an arc's last point is
    // computed from centre, radius and angle: allowed the arc tolerance
    let end_tol = segs.last().map_or(slack, |s| s.alts.iter().map(|a| a.1).fold(slack, f64::max));
    if norm(sub(path[path.len() - 1], last)) > end_tol {
        return format!("FAIL path does not end at the last control point ({:?} vs {:?})", path[path.len() - 1], last);
    }
    if segs.is_empty() {
        return "OK single-point".into();
    }
    // margins[v][s][a] = distance of vertex v to alternative a of segment s, minus its tolerance
    let margin = |q: V, alt: &(Vec<Sampled>, f64, f64)| alt.0.iter().map(|cv| cv.dist_to(q) - alt.1).fold(f64::INFINITY, f64::min);
    let margins: Vec<Vec<Vec<f64>>> = path
        .iter()
        .map(|q| segs.iter().map(|s| s.alts.iter().map(|a| margin(*q, a)).collect()).collect())
        .collect();
    // choose per segment the alternative (arc vs Bezier fallback) that fits best in both directions
    let mut chosen: Vec<(Vec<Sampled>, f64, f64)> = Vec::new();
    let mut chosen_idx: Vec<usize> = Vec::new();
    for (si, s) in segs.iter().enumerate() {
        let mut best: Option<(f64, usize)> = None;
        for (ai, (curves, _, tol_rev)) in s.alts.iter().enumerate() {
            let mut worst = f64::NEG_INFINITY;
            for cv in curves {
                for j in 0..=32 {
                    let q = cv.eval(j as f64 / 32.0);
                    let d = path.windows(2).map(|w| dist_point_seg(q, w[0], w[1])).fold(f64::INFINITY, f64::min);
                    worst = worst.max(d - tol_rev);
                }
            }
            if s.alts.len() > 1 {
                for m in &margins {
                    let mut here = m[si][ai];
                    for (sj, ms) in m.iter().enumerate() {
                        if sj != si {
                            here = ms.iter().copied().fold(here, f64::min);
                        }
                    }
                    worst = worst.max(here);
                }
            }
            if best.map_or(true, |b| worst < b.0) {
                best = Some((worst, ai));
            }
        }
        chosen_idx.push(best.unwrap().1);
        chosen.push(s.alts[best.unwrap().1].clone());
    }
    // every path vertex lies within the bound of some segment's exact curve
    for (vi, q) in path.iter().enumerate() {
        let bestd = (0..segs.len()).map(|si| margins[vi][si][chosen_idx[si]]).fold(f64::INFINITY, f64::min);
        if !(bestd <= 0.0) {
            return format!("FAIL vertex {vi} {q:?} is {bestd} beyond the bound of every exact segment");
        }
    }
    // and the exact curves lie within the bound of the path
    if path.len() >= 2 {
        for (curves, _, tol_rev) in &chosen {
            for cv in curves {
                for j in 0..=200 {
                    let q = cv.eval(j as f64 / 200.0);
                    let d = path.windows(2).map(|w| dist_point_seg(q, w[0], w[1])).fold(f64::INFINITY, f64::min);
                    if d > *tol_rev {
                        return format!("FAIL exact curve point {q:?} is {d} from the path (bound {tol_rev})");
                    }
                }
            }
        }
    }
    "OK".into()
}

// ---------------------------------------------------------------------------------------------- C18

fn same_curve(path: &[Pos], lengths: &[f64], c: &Curve) -> bool {
    path.len() == c.path().len()
        && lengths.len() == c.lengths().len()
        && path.iter().zip(c.path()).all(|(a, b)| same_pos(*a, *b))
        && lengths.iter().zip(c.lengths()).all(|(a, b)| a.to_bits() == b.to_bits())
}

/// `dist()` and `progress_to_dist()` of a route against the fresh owned curve's, bit for bit (they are derived from the lengths,
/// but an implementation may cache them: seed C18-n)
fn same_scalars(dist: f64, p2d: &dyn Fn(f64) -> f64, want: &Curve) -> bool {
    dist.to_bits() == want.dist().to_bits()
        && [-0.5f64, 0.0, 0.3, 1.0, 2.0].iter().all(|q| p2d(*q).to_bits() == want.progress_to_dist(*q).to_bits())
        && want.lengths().last().map_or(true, |l| l.to_bits() == want.dist().to_bits())
}

fn c18(toks: &[&str]) -> String {
    let Some(req) = parse_seq_req(toks) else { return "SKIP bad-request".into() };
    let mut bufs = CurveBuffers::default();
    let empty: Vec<PathControlPoint> = Vec::new();
    let mut cur_pts = req.pool.first().cloned().unwrap_or_default();
    let mut cur_len: Option<f64> = None;
    let mut sp = SliderPath::new(req.mode, cur_pts.clone(), None);
    for (k, op) in req.ops.iter().enumerate() {
        let (kind, arg) = op.split_at(1);
        let verdict = match kind {
            "o" | "b" => {
                let (i, l) = idx_len(arg);
                let pts = req.pool.get(i).unwrap_or(&empty);
                let want = fresh(req.mode, pts, l);
                // a CLONE of the buffers as they are now (whatever the earlier operations left in them) is as good as the buffers
                // (seed C18-s: a hand-written Clone whose scratch vectors come out with unequal lengths)
                let clone_ok = {
                    let mut cl = bufs.clone();
                    let c = Curve::new(req.mode, pts, l, &mut cl);
                    same_curve(c.path(), c.lengths(), &want)
                };
                // the index search answers alike on the owned and on the borrowed curve, in particular AT each cumulative length (runs of
                // equal lengths: seed C18-v, a partition_point on one side and a binary search on the other)
                let same_idx = |f: &dyn Fn(f64) -> usize| want.lengths().iter().all(|l| f(*l) == want.idx_of_dist(*l) && f(*l + 0.5) == want.idx_of_dist(*l + 0.5));
                let ok = clone_ok && if kind == "o" {
                    let c = Curve::new(req.mode, pts, l, &mut bufs);
                    let back = c.as_borrowed_curve().to_owned_curve();
                    // bit-wise comparison (a NaN vertex, findings F11/F13, is not `==` to itself)
                    let bc = c.as_borrowed_curve();
                    same_curve(c.path(), c.lengths(), &want) && same_curve(back.path(), back.lengths(), &want)
                        && same_scalars(c.dist(), &|q| c.progress_to_dist(q), &want)
                        && same_scalars(bc.dist(), &|q| bc.progress_to_dist(q), &want)
                        && same_scalars(back.dist(), &|q| back.progress_to_dist(q), &want)
                        && same_idx(&|d| c.idx_of_dist(d)) && same_idx(&|d| bc.idx_of_dist(d)) && same_idx(&|d| back.idx_of_dist(d))
                        && bc.lengths().len() == want.lengths().len()
                } else {
                    let c = BorrowedCurve::new(req.mode, pts, l, &mut bufs);
                    let own = c.to_owned_curve();
                    same_curve(c.path(), c.lengths(), &want) && same_curve(own.path(), own.lengths(), &want)
                        && same_scalars(c.dist(), &|q| c.progress_to_dist(q), &want)
                        && same_scalars(own.dist(), &|q| own.progress_to_dist(q), &want)
                        && same_idx(&|d| c.idx_of_dist(d)) && same_idx(&|d| own.idx_of_dist(d))
                };
                (ok, pts.is_empty())
            }
            "c" | "w" | "r" => {
                let want = fresh(req.mode, &cur_pts, cur_len);
                let ok = match kind {
                    "c" => {
                        let c = sp.curve();
                        same_curve(c.path(), c.lengths(), &want) && same_scalars(c.dist(), &|q| c.progress_to_dist(q), &want)
                    }
                    "w" => {
                        let c = sp.curve_with_bufs(&mut bufs);
                        same_curve(c.path(), c.lengths(), &want) && same_scalars(c.dist(), &|q| c.progress_to_dist(q), &want)
                    }
                    _ => {
                        let c = sp.borrowed_curve(&mut bufs);
                        same_curve(c.path(), c.lengths(), &want) && same_scalars(c.dist(), &|q| c.progress_to_dist(q), &want)
                    }
                };
                let consistent = sp.control_points() == cur_pts.as_slice()
                    && sp.expected_dist().map(f64::to_bits) == cur_len.map(f64::to_bits);
                (ok && consistent, cur_pts.is_empty())
            }
            "m" => {
                let i: usize = arg.parse().unwrap_or(0);
                cur_pts = req.pool.get(i).cloned().unwrap_or_default();
                *sp.control_points_mut() = cur_pts.clone();
                (true, false)
            }
            "l" => {
                cur_len = parse_len(arg);
                *sp.expected_dist_mut() = cur_len;
                (true, false)
            }
            "x" => {
                sp.clear_curve();
                (true, false)
            }
            "k" | "K" => {
                // replacing the whole path (Clone::clone_from) is one more way of changing points and length
                let (i, l) = idx_len(arg);
                cur_pts = req.pool.get(i).cloned().unwrap_or_default();
                cur_len = l;
                let mut src = SliderPath::new(req.mode, cur_pts.clone(), cur_len);
                if kind == "K" {
                    let _ = src.curve();
                }
                sp.clone_from(&src);
                (true, false)
            }
            _ => return "SKIP bad-op".into(),
        };
        if !verdict.0 {
            return format!(
                "FAIL op={k} kind={kind} differs-from-fresh-computation empty-points={}",
                verdict.1
            );
        }
    }
    "OK".into()
}

// ---------------------------------------------------------------------------------------------- C19

fn c19(toks: &[&str]) -> String {
    let Some(req) = parse_curve_req(toks) else { return "SKIP bad-request".into() };
    if !finite_pts(&req.pts) {
        return "SKIP non-finite-coordinates".into();
    }
    if let Some(l) = req.len {
        if !l.is_finite() {
            return "SKIP L-outside-domain".into();
        }
    }
    if let Err(e) = routes_agree(req.mode, &req.pts, req.len) {
        return format!("FAIL api-route: {e}");
    }
    let c = fresh(req.mode, &req.pts, req.len);
    let path = c.path();
    if path.is_empty() {
        return if c.position_at(0.3) == Pos::default() { "OK empty".into() } else { "FAIL empty path".into() };
    }
    if path.iter().any(|p| !(p.x.is_finite() && p.y.is_finite())) {
        let nat = fresh(req.mode, &req.pts, None);
        return if nat.path().iter().any(|p| !(p.x.is_finite() && p.y.is_finite())) {
            "FAIL nonfinite-natural-path".into()
        } else {
            "FAIL nonfinite-path-point".into()
        };
    }
    let dist = c.dist();
    if !dist.is_finite() {
        return "FAIL non-finite dist".into();
    }
    let scale = scale_of(path, &req.pts);
    let slack = 1e-6 * scale + 1e-9;
    let first = path[0];
    let last = path[path.len() - 1];
    let p0 = c.position_at(0.0);
    // within float slack, not bit-exact: the surplus of an osu!-mode Catmull simplification is booked into lengths[1]
    // and can be negative by a rounding error (e.g. -4.8e-7), in which case the search interpolates one ulp away
    if !(norm(sub(v(p0), v(first))) <= slack) {
        return format!("FAIL position_at(0) = {p0} is not the first point {first}");
    }
    let p1 = c.position_at(1.0);
    if !(norm(sub(v(p1), v(last))) <= slack) {
        return format!("FAIL position_at(1) = {p1} is not the last point {last}");
    }
    let mut inside: Vec<f64> = vec![0.0, 1.0];
    for &q in &req.progress {
        let p = c.position_at(q);
        let d = c.progress_to_dist(q);
        if q.is_nan() {
            continue;
        }
        if q < 0.0 {
            if !same_pos(p, p0) || d.to_bits() != c.progress_to_dist(0.0).to_bits() {
                return format!("FAIL progress {q} not clamped to 0");
            }
        } else if q > 1.0 {
            if !same_pos(p, p1) || d.to_bits() != c.progress_to_dist(1.0).to_bits() {
                return format!("FAIL progress {q} not clamped to 1");
            }
        } else {
            if d.to_bits() != (q * dist).to_bits() {
                return format!("FAIL progress_to_dist({q}) = {d} is not progress x dist");
            }
            if !(p.x.is_finite() && p.y.is_finite()) {
                return format!("FAIL position_at({q}) is not finite");
            }
            inside.push(q);
        }
    }
    // at each vertex's cumulative length the position is that vertex
    let lens = c.lengths();
    if dist > 0.0 {
        for (i, p) in path.iter().enumerate() {
            let q = lens[i] / dist;
            if !(0.0..=1.0).contains(&q) {
                continue;
            }
            inside.push(q);
            let got = c.position_at(q);
            // q * dist may round away from lens[i]: allow that much travel along the curve
            let travel = (q * dist - lens[i]).abs();
            if !(norm(sub(v(got), v(*p))) <= slack + 2.0 * travel + 1e-7 * (1.0 + dist)) {
                return format!("FAIL position at vertex {i} (progress {q}) is {got}, vertex is {p}");
            }
        }
    }
    // 1-Lipschitz in arc length
    inside.sort_by(|a, b| a.partial_cmp(b).unwrap());
    for w in inside.windows(2) {
        let (a, b) = (c.position_at(w[0]), c.position_at(w[1]));
        let moved = norm(sub(v(a), v(b)));
        let arc = (w[1] - w[0]) * dist;
        if !(moved <= arc * (1.0 + 1e-5) + 4.0 * slack + 1e-5) {
            return format!("FAIL moved {moved} between progress {} and {} (arc length {arc})", w[0], w[1]);
        }
    }
    "OK".into()
}

pub fn dispatch_prop(toks: &[&str]) -> Option<String> {
    match toks.first().copied()? {
        "curve" => Some(c16(toks)),
        "curvegeo" => Some(c17(toks)),
        "curveseq" => Some(c18(toks)),
        "pos" => Some(c19(toks)),
        _ => None,
    }
}
