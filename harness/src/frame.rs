//! C05: a recording `DecodeBeatmap` type — which lines reach which section parser.
use std::convert::Infallible;
use std::io;

use rosu_map::{section::Section, DecodeBeatmap, DecodeState};

use crate::util::{hex, kind_tag, parse_sched, SchedReader};

pub struct RecState {
    pub version: i32,
    pub calls: Vec<(u8, String)>,
}

pub struct Rec(pub RecState);

impl DecodeState for RecState {
    fn create(version: i32) -> Self {
        Self {
            version,
            calls: Vec::new(),
        }
    }
}

impl From<RecState> for Rec {
    fn from(s: RecState) -> Self {
        Rec(s)
    }
}

macro_rules! rec_fn {
    ($name:ident, $idx:expr) => {
        fn $name(state: &mut Self::State, line: &str) -> Result<(), Self::Error> {
            state.calls.push(($idx, line.to_owned()));
            Ok(())
        }
    };
}

impl DecodeBeatmap for Rec {
    type Error = Infallible;
    type State = RecState;
    rec_fn!(parse_general, 0);
    rec_fn!(parse_editor, 1);
    rec_fn!(parse_metadata, 2);
    rec_fn!(parse_difficulty, 3);
    rec_fn!(parse_events, 4);
    rec_fn!(parse_timing_points, 5);
    rec_fn!(parse_colors, 6);
    rec_fn!(parse_hit_objects, 7);
    rec_fn!(parse_variables, 8);
    rec_fn!(parse_catch_the_beat, 9);
    rec_fn!(parse_mania, 10);
}

pub fn fmt_rec(res: io::Result<Rec>) -> String {
    match res {
        Err(e) => format!("err {}", kind_tag(e.kind())),
        Ok(Rec(st)) => {
            let mut s = format!("ok v={} n={}", st.version, st.calls.len());
            for (idx, line) in &st.calls {
                s.push_str(&format!(" {}:{}", idx, hex(line.as_bytes())));
            }
            s
        }
    }
}

pub fn impl_frame(bytes: &[u8]) -> String {
    fmt_rec(rosu_map::from_bytes::<Rec>(bytes))
}

pub fn impl_framesched(evs: &[&str]) -> String {
    fmt_rec(Rec::decode(SchedReader::new(parse_sched(evs))))
}

pub fn section_idx(s: Section) -> u8 {
    match s {
        Section::General => 0,
        Section::Editor => 1,
        Section::Metadata => 2,
        Section::Difficulty => 3,
        Section::Events => 4,
        Section::TimingPoints => 5,
        Section::Colors => 6,
        Section::HitObjects => 7,
        Section::Variables => 8,
        Section::CatchTheBeat => 9,
        Section::Mania => 10,
    }
}

/// the recognised section headers, written out here rather than asked of the crate (`Section::try_from_line` is part of
/// what is being checked: a header missing from its table must not go unnoticed)
pub fn ref_section(line: &str) -> Option<Section> {
    Some(match line {
        "[General]" => Section::General,
        "[Editor]" => Section::Editor,
        "[Metadata]" => Section::Metadata,
        "[Difficulty]" => Section::Difficulty,
        "[Events]" => Section::Events,
        "[TimingPoints]" => Section::TimingPoints,
        "[Colours]" => Section::Colors,
        "[HitObjects]" => Section::HitObjects,
        "[Variables]" => Section::Variables,
        "[CatchTheBeat]" => Section::CatchTheBeat,
        "[Mania]" => Section::Mania,
        _ => return None,
    })
}

/// Independent transcription of the property statement (C05), working on the
/// text: BOM → split on LF → trim end → version → skip to first header → fold.
/// Only valid UTF-8 (optionally with UTF-8 BOM) inputs are judged; others return `SKIP`.
pub fn spec_frame(bytes: &[u8]) -> Option<(i32, Vec<(u8, String)>)> {
    let bytes = bytes.strip_prefix(&[0xEF, 0xBB, 0xBF]).unwrap_or(bytes);
    for (bom, le) in [([0xFF, 0xFE], true), ([0xFE, 0xFF], false)] {
        if let Some(body) = bytes.strip_prefix(&bom) {
            // UTF-16 with BOM: transcode with std (valid, even-length bodies only), then the same reading
            if body.len() % 2 != 0 {
                return None;
            }
            let units: Vec<u16> = body
                .chunks_exact(2)
                .map(|p| if le { u16::from_le_bytes([p[0], p[1]]) } else { u16::from_be_bytes([p[0], p[1]]) })
                .collect();
            let text = String::from_utf16(&units).ok()?;
            return Some(spec_frame_text(&text));
        }
    }
    // bytes that are not valid UTF-8 are replaced by U+FFFD (the reader does this line by line; the replacement is compositional at
    // line feeds — Props/C10: utf8Lossy_append_lf — so doing it once for the whole text is the same reading)
    let text = String::from_utf8_lossy(bytes);
    Some(spec_frame_text(&text))
}

/// the same transcription on a text (no BOM handling at all).
pub fn spec_frame_text(text: &str) -> (i32, Vec<(u8, String)>) {
    let mut lines: Vec<&str> = text.split('\n').map(str::trim_end).collect();
    if text.ends_with('\n') || text.is_empty() {
        lines.pop();
    }
    let mut i = 0;
    while i < lines.len() && lines[i].is_empty() {
        i += 1;
    }
    let mut version = 14;
    if i < lines.len() {
        if let Some(rest) = lines[i].strip_prefix("osu file format v") {
            // the number is the text after the last 'v', trimmed, |n| <= i32::MAX
            let tail = rest.rsplit('v').next().unwrap_or(rest).trim();
            match tail.parse::<i32>() {
                Ok(n) if n != i32::MIN => {
                    version = n;
                    i += 1;
                }
                _ => {}
            }
        }
    }
    let mut calls = Vec::new();
    let mut section: Option<Section> = None;
    for l in &lines[i.min(lines.len())..] {
        if let Some(s) = ref_section(l) {
            // a comment line can never be a header; a blank neither
            section = Some(s);
            continue;
        }
        let Some(sec) = section else { continue };
        if l.is_empty() || l.trim_start().starts_with("//") {
            continue;
        }
        calls.push((section_idx(sec), (*l).to_owned()));
    }
    (version, calls)
}

/// the same transcription on a list of lines (no BOM, LF-joined): the indices of the lines that
/// reach a section parser, in order. `None` if the version slot makes the mapping ambiguous.
pub fn spec_frame_idx(lines: &[String]) -> Option<Vec<usize>> {
    let ls: Vec<&str> = lines.iter().map(|l| l.trim_end()).collect();
    let mut i = 0;
    while i < ls.len() && ls[i].is_empty() {
        i += 1;
    }
    if i < ls.len() {
        if let Some(rest) = ls[i].strip_prefix("osu file format v") {
            let tail = rest.rsplit('v').next().unwrap_or(rest).trim();
            if matches!(tail.parse::<i32>(), Ok(n) if n != i32::MIN) {
                i += 1;
            }
        }
    }
    let mut calls = Vec::new();
    let mut in_section = false;
    for (k, l) in ls.iter().enumerate().skip(i) {
        if ref_section(l).is_some() {
            in_section = true;
            continue;
        }
        if !in_section || l.is_empty() || l.trim_start().starts_with("//") {
            continue;
        }
        calls.push(k);
    }
    Some(calls)
}

pub fn prop_frame(bytes: &[u8]) -> String {
    let Some((v, calls)) = spec_frame(bytes) else {
        return "SKIP".to_owned();
    };
    match rosu_map::from_bytes::<Rec>(bytes) {
        Err(e) => format!("FAIL err {}", kind_tag(e.kind())),
        Ok(Rec(st)) => {
            if st.version == v && st.calls == calls {
                "OK".to_owned()
            } else {
                format!(
                    "FAIL impl={} spec=v={} n={}",
                    fmt_rec(Ok(Rec(st))),
                    v,
                    calls.len()
                )
            }
        }
    }
}

pub fn dispatch_impl(toks: &[&str]) -> Option<String> {
    match toks {
        ["frame", hex] => Some(impl_frame(&crate::util::unhex(hex))),
        ["framesched", evs @ ..] => Some(impl_framesched(evs)),
        _ => None,
    }
}

pub fn dispatch_prop(toks: &[&str]) -> Option<String> {
    match toks {
        ["frame", hex] => Some(prop_frame(&crate::util::unhex(hex))),
        _ => None,
    }
}
