//! C09, write side: an injecting `Write` driven by a budget schedule, used with std's
//! `write_all` (request `writesched`, compared with the model) and with the real
//! `Beatmap::encode` on bundled maps (requests `enccalls`, `encfault`).
//!
//! events: `a<n>` the next calls take up to n bytes in total (a call offering more is a short
//! write), `i` the next call returns Err(Interrupted), `z` the next call returns Ok(0),
//! `f<Kind>` the next call returns Err(Kind). An exhausted schedule accepts everything.
use std::cell::RefCell;
use std::collections::{HashMap, VecDeque};
use std::io::{self, ErrorKind, Write};

use rosu_map::Beatmap;

use crate::util::{hex, kind_of_tag, kind_tag, unhex};

#[derive(Clone, Debug)]
pub enum WEv {
    Accept(usize),
    Intr,
    Zero,
    Fail(ErrorKind),
}

pub fn parse_wsched(toks: &[&str]) -> Vec<WEv> {
    toks.iter()
        .map(|t| {
            if *t == "i" {
                WEv::Intr
            } else if *t == "z" {
                WEv::Zero
            } else if let Some(k) = t.strip_prefix('f') {
                WEv::Fail(kind_of_tag(k))
            } else {
                WEv::Accept(t[1..].parse().unwrap_or(0))
            }
        })
        .collect()
}

pub struct SchedWriter {
    evs: VecDeque<WEv>,
    flush_result: Option<ErrorKind>,
    pub written: Vec<u8>,
    pub calls: Vec<Vec<u8>>,
    pub flushes: usize,
    pub writes_after_flush: usize,
    pub fatal_returned: Option<ErrorKind>,
    pub calls_after_fatal: usize,
}

impl SchedWriter {
    pub fn new(evs: Vec<WEv>, flush_result: Option<ErrorKind>) -> Self {
        Self {
            evs: evs.into(),
            flush_result,
            written: Vec::new(),
            calls: Vec::new(),
            flushes: 0,
            writes_after_flush: 0,
            fatal_returned: None,
            calls_after_fatal: 0,
        }
    }
}

impl Write for SchedWriter {
    fn write(&mut self, buf: &[u8]) -> io::Result<usize> {
        if self.fatal_returned.is_some() {
            self.calls_after_fatal += 1;
        }
        if self.flushes > 0 {
            self.writes_after_flush += 1;
        }
        self.calls.push(buf.to_vec());
        if buf.is_empty() {
            return Ok(0);
        }
        loop {
            match self.evs.front_mut() {
                None => {
                    self.written.extend_from_slice(buf);
                    return Ok(buf.len());
                }
                Some(WEv::Accept(0)) => {
                    self.evs.pop_front();
                }
                Some(WEv::Accept(n)) => {
                    let m = (*n).min(buf.len());
                    *n -= m;
                    if *n == 0 {
                        self.evs.pop_front();
                    }
                    self.written.extend_from_slice(&buf[..m]);
                    return Ok(m);
                }
                Some(WEv::Intr) => {
                    self.evs.pop_front();
                    return Err(io::Error::new(ErrorKind::Interrupted, "intr"));
                }
                Some(WEv::Zero) => {
                    self.evs.pop_front();
                    self.fatal_returned = Some(ErrorKind::WriteZero);
                    return Ok(0);
                }
                Some(WEv::Fail(k)) => {
                    let k = *k;
                    self.evs.pop_front();
                    self.fatal_returned = Some(k);
                    return Err(io::Error::new(k, "injected"));
                }
            }
        }
    }

    fn flush(&mut self) -> io::Result<()> {
        self.flushes += 1;
        match self.flush_result {
            None => Ok(()),
            Some(k) => Err(io::Error::new(k, "injected flush")),
        }
    }
}

fn parse_flush(s: &str) -> Option<ErrorKind> {
    if s == "ok" {
        None
    } else {
        Some(kind_of_tag(s))
    }
}

fn fmt_w(res: &io::Result<()>, w: &SchedWriter) -> String {
    let head = match res {
        Ok(()) => "ok".to_owned(),
        Err(e) => format!("err {}", kind_tag(e.kind())),
    };
    format!(
        "{head} flushed={} written={}",
        u8::from(w.flushes > 0),
        hex(&w.written)
    )
}

/// the `write_all` calls followed by `flush`, as `encode` issues them
fn replay(calls: &[Vec<u8>], w: &mut SchedWriter) -> io::Result<()> {
    for c in calls {
        w.write_all(c)?;
    }
    w.flush()
}

fn split_slash<'a>(toks: &'a [&'a str]) -> (&'a [&'a str], &'a [&'a str]) {
    match toks.iter().position(|t| *t == "/") {
        Some(i) => (&toks[..i], &toks[i + 1..]),
        None => (toks, &[]),
    }
}

fn impl_writesched(flush: &str, rest: &[&str]) -> String {
    let (calls, evs) = split_slash(rest);
    let calls: Vec<Vec<u8>> = calls.iter().map(|c| unhex(c)).collect();
    let mut w = SchedWriter::new(parse_wsched(evs), parse_flush(flush));
    let res = replay(&calls, &mut w);
    fmt_w(&res, &w)
}

thread_local! {
    static MAPS: RefCell<HashMap<String, Option<(Beatmap, Vec<u8>, Vec<Vec<u8>>)>>> = RefCell::new(HashMap::new());
}

/// decoded bundled map, its reference encoding and the `write` calls an all-accepting writer sees
fn bundled(name: &str) -> Option<(Beatmap, Vec<u8>, Vec<Vec<u8>>)> {
    MAPS.with(|m| {
        m.borrow_mut()
            .entry(name.to_owned())
            .or_insert_with(|| {
                // `hex:<bytes>`: a map given inline (synthetic files covering constructs no bundled map has)
                let map: Beatmap = match name.strip_prefix("hex:") {
                    Some(h) => rosu_map::from_bytes(&unhex(h)).ok()?,
                    None => rosu_map::from_path(std::path::Path::new("/repo/resources").join(name.replace('+', " "))).ok()?,
                };
                let mut rec = SchedWriter::new(Vec::new(), None);
                map.clone().encode(&mut rec).ok()?;
                Some((map, rec.written.clone(), rec.calls))
            })
            .clone()
    })
}

/// budget before the first fatal event and its kind
fn fatal_of(evs: &[WEv]) -> Option<(usize, ErrorKind)> {
    let mut c = 0;
    for e in evs {
        match e {
            WEv::Accept(n) => c += n,
            WEv::Intr => {}
            WEv::Zero => return Some((c, ErrorKind::WriteZero)),
            WEv::Fail(k) => return Some((c, *k)),
        }
    }
    None
}

/// C09, write side, on the real encoder.
fn prop_encfault(name: &str, flush: &str, evs: &[&str]) -> String {
    let Some((map, reference, calls)) = bundled(name) else {
        return "SKIP cannot-decode-or-encode".to_owned();
    };
    let evs = parse_wsched(evs);
    let flush = parse_flush(flush);
    let mut w = SchedWriter::new(evs.clone(), flush);
    let mut used = map.clone();
    let res = used.encode(&mut w);
    let obs = fmt_w(&res, &w);
    // a fault is never turned into a partial result LATER either: the map a failed (or successful) encode was called on still
    // encodes to the same text (`encode` takes `&mut self`; seed C09-n: objects moved out of the map and lost on an early return)
    {
        let mut again = Vec::new();
        match used.encode(&mut again) {
            Ok(()) if again == reference => {}
            Ok(()) => return format!("FAIL the map encodes differently after an encode that returned {}: {} bytes instead of {}",
                if res.is_ok() { "Ok" } else { "an error" }, again.len(), reference.len()),
            Err(e) => return format!("FAIL the map no longer encodes into a Vec after an earlier encode: {}", kind_tag(e.kind())),
        }
    }

    // 1. the real encoder behaves as "its write_all calls, then flush" on the same writer
    let mut w2 = SchedWriter::new(evs.clone(), flush);
    let res2 = replay(&calls, &mut w2);
    let obs2 = fmt_w(&res2, &w2);
    if obs != obs2 {
        return format!("FAIL encode-is-not-write_all-then-flush real=[{}] replay=[{}]", head(&obs), head(&obs2));
    }
    // 2. the property
    if !reference.starts_with(&w.written) {
        return "FAIL written-not-a-prefix".to_owned();
    }
    let expect_fatal = fatal_of(&evs).filter(|(c, _)| *c < reference.len());
    match (expect_fatal, w.fatal_returned) {
        (Some((c, k)), Some(k2)) => {
            if k != k2 || w.written.len() != c {
                return format!("FAIL injector-inconsistent want={}@{c} got={}@{}", kind_tag(k), kind_tag(k2), w.written.len());
            }
            match &res {
                Err(e) if e.kind() == k => {}
                other => return format!("FAIL fault-not-surfaced want=err {} got={}", kind_tag(k), head(&fmt_w(other, &w))),
            }
            if w.calls_after_fatal != 0 {
                return format!("FAIL wrote-after-fault calls={}", w.calls_after_fatal);
            }
            if w.flushes != 0 {
                return "FAIL flushed-after-fault".to_owned();
            }
            "OK".to_owned()
        }
        (None, None) => {
            if w.written != reference {
                return format!("FAIL short-writes-not-transparent written={} of {}", w.written.len(), reference.len());
            }
            if w.flushes == 0 {
                return "FAIL not-flushed".to_owned();
            }
            if w.writes_after_flush != 0 {
                return "FAIL wrote-after-flush".to_owned();
            }
            match (&res, flush) {
                (Ok(()), None) => "OK".to_owned(),
                (Err(e), Some(k)) if e.kind() == k => "OK".to_owned(),
                _ => format!("FAIL flush-result-not-returned got={}", head(&obs)),
            }
        }
        (a, b) => format!("FAIL injector-inconsistent expected={a:?} returned={b:?}"),
    }
}

fn head(obs: &str) -> String {
    match obs.find(" written=") {
        Some(i) => format!("{} written=<{} bytes>", &obs[..i], (obs.len() - i - 9) / 2),
        None => obs.to_owned(),
    }
}

pub fn dispatch_impl(toks: &[&str]) -> Option<String> {
    match toks {
        ["writesched", flush, rest @ ..] => Some(impl_writesched(flush, rest)),
        // helper for the generators: the write calls of the real encoder on a bundled map
        ["enccalls", name] => Some(match bundled(name) {
            None => "none".to_owned(),
            Some((_, reference, calls)) => format!(
                "{} {}",
                reference.len(),
                calls.iter().map(|c| hex(c)).collect::<Vec<_>>().join(" ")
            ),
        }),
        _ => None,
    }
}

pub fn dispatch_prop(toks: &[&str]) -> Option<String> {
    match toks {
        ["encfault", name, flush, "/", evs @ ..] => Some(prop_encfault(name, flush, evs)),
        ["writesched", flush, rest @ ..] => {
            // std's write_all on the injecting writer: the statement on a synthetic call list
            let (calls, evs) = split_slash(rest);
            let calls: Vec<Vec<u8>> = calls.iter().map(|c| unhex(c)).collect();
            let all: Vec<u8> = calls.concat();
            let evs = parse_wsched(evs);
            let flush = parse_flush(flush);
            let mut w = SchedWriter::new(evs.clone(), flush);
            let res = replay(&calls, &mut w);
            if !all.starts_with(&w.written) {
                return Some("FAIL written-not-a-prefix".to_owned());
            }
            let want = match fatal_of(&evs).filter(|(c, _)| *c < all.len()) {
                Some((c, k)) => (Some(k), c, false),
                None => (flush, all.len(), true),
            };
            let got = (res.as_ref().err().map(|e| e.kind()), w.written.len(), w.flushes > 0);
            Some(if want == got {
                "OK".to_owned()
            } else {
                format!("FAIL want={want:?} got={got:?}")
            })
        }
        _ => None,
    }
}
