//! C13 / C12: the control-point collection and the timing-point decoder of the real crate.
//!
//! `cpops <op> …` — ops `T:<time>:<beatlen>`, `D:<time>:<sv>:<ticks>`, `E:<time>:<kiai>:<scroll>`,
//! `S:<time>:<bank>:<vol>:<custom>`, `?<time>`; floats are hex bit patterns.
//! `impl`: canonical observation (same text as the Lean driver prints).
//! `prop`: the property evaluated against a linear-scan reference written from the property text,
//! which reasons about *time* (`<`, `==` on f64), not about `total_cmp`.
use rosu_map::section::{
    hit_objects::hit_samples::SampleBank,
    timing_points::{
        ControlPoints, DifficultyPoint, EffectPoint, SamplePoint, TimeSignature, TimingPoint,
    },
};

fn f64_of_hex(s: &str) -> f64 {
    f64::from_bits(u64::from_str_radix(s, 16).unwrap_or(0))
}

fn fx(x: f64) -> String {
    if x.is_nan() {
        "nan".to_owned()
    } else {
        format!("{:x}", x.to_bits())
    }
}

fn b01(b: bool) -> &'static str {
    if b {
        "1"
    } else {
        "0"
    }
}

fn bank_idx(b: SampleBank) -> u8 {
    match b {
        SampleBank::None => 0,
        SampleBank::Normal => 1,
        SampleBank::Soft => 2,
        SampleBank::Drum => 3,
    }
}

fn bank_of(n: i32) -> SampleBank {
    match n {
        1 => SampleBank::Normal,
        2 => SampleBank::Soft,
        3 => SampleBank::Drum,
        _ => SampleBank::None,
    }
}

fn fmt_timing(p: &TimingPoint) -> String {
    format!(
        "{}/{}/{}/{}",
        fx(p.time),
        fx(p.beat_len),
        b01(p.omit_first_bar_line),
        p.time_signature.numerator.get()
    )
}

fn fmt_difficulty(p: &DifficultyPoint) -> String {
    format!("{}/{}/{}", fx(p.time), fx(p.slider_velocity), b01(p.generate_ticks))
}

fn fmt_effect(p: &EffectPoint) -> String {
    format!("{}/{}/{}", fx(p.time), b01(p.kiai), fx(p.scroll_speed))
}

fn fmt_sample(p: &SamplePoint) -> String {
    format!(
        "{}/{}/{}/{}",
        fx(p.time),
        bank_idx(p.sample_bank),
        p.sample_volume,
        p.custom_sample_bank
    )
}

fn fmt_list<T>(f: impl Fn(&T) -> String, l: &[T]) -> String {
    if l.is_empty() {
        "-".to_owned()
    } else {
        l.iter().map(f).collect::<Vec<_>>().join(",")
    }
}

fn fmt_opt<T>(f: impl Fn(&T) -> String, o: Option<&T>) -> String {
    o.map_or_else(|| "-".to_owned(), f)
}

pub fn fmt_control_points(cp: &ControlPoints) -> String {
    format!(
        "T={} D={} E={} S={}",
        fmt_list(fmt_timing, &cp.timing_points),
        fmt_list(fmt_difficulty, &cp.difficulty_points),
        fmt_list(fmt_effect, &cp.effect_points),
        fmt_list(fmt_sample, &cp.sample_points)
    )
}

fn fmt_lookup(cp: &ControlPoints, t: f64) -> String {
    format!(
        "L:{}|{}|{}|{}",
        fmt_opt(fmt_timing, cp.timing_point_at(t)),
        fmt_opt(fmt_difficulty, cp.difficulty_point_at(t)),
        fmt_opt(fmt_effect, cp.effect_point_at(t)),
        fmt_opt(fmt_sample, cp.sample_point_at(t))
    )
}

#[derive(Clone)]
enum Op {
    T(TimingPoint),
    D(DifficultyPoint),
    E(EffectPoint),
    S(SamplePoint),
    Lookup(f64),
}

fn parse_op(tok: &str) -> Option<Op> {
    if let Some(t) = tok.strip_prefix('?') {
        return Some(Op::Lookup(f64_of_hex(t)));
    }
    let f: Vec<&str> = tok.split(':').collect();
    Some(match f.as_slice() {
        ["T", t, b] => Op::T(TimingPoint::new(
            f64_of_hex(t),
            f64_of_hex(b),
            false,
            TimeSignature::new_simple_quadruple(),
        )),
        ["D", t, sv, ticks] => Op::D(DifficultyPoint::new(
            f64_of_hex(t),
            if *ticks == "1" { 1.0 } else { f64::NAN },
            f64_of_hex(sv),
        )),
        ["E", t, k, sc] => {
            let mut e = EffectPoint::new(f64_of_hex(t), *k == "1");
            e.scroll_speed = f64_of_hex(sc);
            Op::E(e)
        }
        ["S", t, bank, vol, custom] => Op::S(SamplePoint::new(
            f64_of_hex(t),
            bank_of(bank.parse().unwrap_or(0)),
            vol.parse().unwrap_or(0),
            custom.parse().unwrap_or(0),
        )),
        _ => return None,
    })
}

fn impl_cpops(toks: &[&str]) -> String {
    let mut cp = ControlPoints::default();
    let mut lookups = String::new();
    for tok in toks {
        match parse_op(tok) {
            Some(Op::T(p)) => cp.add(p),
            Some(Op::D(p)) => cp.add(p),
            Some(Op::E(p)) => cp.add(p),
            Some(Op::S(p)) => cp.add(p),
            Some(Op::Lookup(t)) => {
                lookups.push(' ');
                lookups.push_str(&fmt_lookup(&cp, t));
            }
            None => return "bad-request".to_owned(),
        }
    }
    fmt_control_points(&cp) + &lookups
}

// ---------------------------------------------------------------------------------------------
// property oracle for C13: a reference collection written from the property text.
// "ordered by time", "one point per time", "the point active at its time", "the latest point not
// after that time" are all read with the ordinary order of f64 (`<`, `<=`, `==`).

trait Timed: Clone {
    fn time(&self) -> f64;
    fn show(&self) -> String;
}

impl Timed for TimingPoint {
    fn time(&self) -> f64 {
        self.time
    }
    fn show(&self) -> String {
        fmt_timing(self)
    }
}
impl Timed for DifficultyPoint {
    fn time(&self) -> f64 {
        self.time
    }
    fn show(&self) -> String {
        fmt_difficulty(self)
    }
}
impl Timed for EffectPoint {
    fn time(&self) -> f64 {
        self.time
    }
    fn show(&self) -> String {
        fmt_effect(self)
    }
}
impl Timed for SamplePoint {
    fn time(&self) -> f64 {
        self.time
    }
    fn show(&self) -> String {
        fmt_sample(self)
    }
}

/// the latest stored point not after `t`.
fn ref_active<T: Timed>(l: &[T], t: f64) -> Option<&T> {
    let mut best: Option<&T> = None;
    for p in l {
        if p.time() <= t && best.map_or(true, |b| b.time() <= p.time()) {
            best = Some(p);
        }
    }
    best
}

/// store `p`: a point at the same time is replaced, otherwise `p` goes where the times stay increasing.
fn ref_store<T: Timed>(l: &mut Vec<T>, p: T) {
    l.retain(|q| q.time() != p.time());
    let pos = l.iter().position(|q| q.time() > p.time()).unwrap_or(l.len());
    l.insert(pos, p);
}

fn same_list<T: Timed>(kind: &str, real: &[T], reference: &[T]) -> Result<(), String> {
    for w in real.windows(2) {
        if !(w[0].time() < w[1].time()) {
            return Err(format!(
                "{kind} list not strictly increasing in time: {} then {}",
                w[0].show(),
                w[1].show()
            ));
        }
    }
    let a: Vec<String> = real.iter().map(Timed::show).collect();
    let b: Vec<String> = reference.iter().map(Timed::show).collect();
    if a != b {
        return Err(format!("{kind} list is [{}], reference has [{}]", a.join(","), b.join(",")));
    }
    Ok(())
}

fn same_opt<T: Timed>(kind: &str, t: f64, real: Option<&T>, reference: Option<&T>) -> Result<(), String> {
    let a = real.map(Timed::show);
    let b = reference.map(Timed::show);
    if a != b {
        return Err(format!(
            "{kind} lookup at {} returned {}, reference {}",
            fx(t),
            a.unwrap_or_else(|| "-".into()),
            b.unwrap_or_else(|| "-".into())
        ));
    }
    Ok(())
}

#[derive(Default)]
struct RefCollection {
    timing: Vec<TimingPoint>,
    difficulty: Vec<DifficultyPoint>,
    effect: Vec<EffectPoint>,
    sample: Vec<SamplePoint>,
}

fn prop_cpops(toks: &[&str]) -> String {
    let mut ops = Vec::new();
    for tok in toks {
        match parse_op(tok) {
            Some(op) => ops.push(op),
            None => return "SKIP bad-request".to_owned(),
        }
    }
    let has_nan = ops.iter().any(|op| match op {
        Op::T(p) => p.time.is_nan(),
        Op::D(p) => p.time.is_nan(),
        Op::E(p) => p.time.is_nan(),
        Op::S(p) => p.time.is_nan(),
        Op::Lookup(t) => t.is_nan(),
    });
    if has_nan {
        return "SKIP nan-time".to_owned();
    }

    let mut cp = ControlPoints::default();
    let mut r = RefCollection::default();
    for (n, op) in ops.iter().enumerate() {
        let res: Result<(), String> = (|| {
            match op.clone() {
                Op::T(p) => {
                    cp.add(p.clone());
                    ref_store(&mut r.timing, p);
                }
                Op::D(p) => {
                    cp.add(p.clone());
                    let dflt = DifficultyPoint::default();
                    let active = ref_active(&r.difficulty, p.time).unwrap_or(&dflt);
                    let repeats = p.generate_ticks == active.generate_ticks
                        && (p.slider_velocity - active.slider_velocity).abs() < f64::EPSILON;
                    if !repeats {
                        ref_store(&mut r.difficulty, p);
                    }
                }
                Op::E(p) => {
                    cp.add(p.clone());
                    let dflt = EffectPoint::default();
                    let active = ref_active(&r.effect, p.time).unwrap_or(&dflt);
                    let repeats = p.kiai == active.kiai
                        && (p.scroll_speed - active.scroll_speed).abs() < f64::EPSILON;
                    if !repeats {
                        ref_store(&mut r.effect, p);
                    }
                }
                Op::S(p) => {
                    cp.add(p.clone());
                    let repeats = ref_active(&r.sample, p.time).map_or(false, |a| {
                        p.sample_bank == a.sample_bank
                            && p.sample_volume == a.sample_volume
                            && p.custom_sample_bank == a.custom_sample_bank
                    });
                    if !repeats {
                        ref_store(&mut r.sample, p);
                    }
                }
                Op::Lookup(t) => {
                    same_opt(
                        "timing",
                        t,
                        cp.timing_point_at(t),
                        ref_active(&r.timing, t).or(r.timing.first()),
                    )?;
                    same_opt(
                        "sample",
                        t,
                        cp.sample_point_at(t),
                        ref_active(&r.sample, t).or(r.sample.first()),
                    )?;
                    same_opt("difficulty", t, cp.difficulty_point_at(t), ref_active(&r.difficulty, t))?;
                    same_opt("effect", t, cp.effect_point_at(t), ref_active(&r.effect, t))?;
                }
            }
            same_list("timing", &cp.timing_points, &r.timing)?;
            same_list("difficulty", &cp.difficulty_points, &r.difficulty)?;
            same_list("effect", &cp.effect_points, &r.effect)?;
            same_list("sample", &cp.sample_points, &r.sample)?;
            Ok(())
        })();
        if let Err(e) = res {
            return format!("FAIL after op {} ({}): {}", n, toks[n], e);
        }
    }
    "OK".to_owned()
}

pub fn dispatch_impl(toks: &[&str]) -> Option<String> {
    match toks {
        ["cpops", ops @ ..] => Some(impl_cpops(ops)),
        _ => None,
    }
}

pub fn dispatch_prop(toks: &[&str]) -> Option<String> {
    match toks {
        ["cpops", ops @ ..] => Some(prop_cpops(ops)),
        _ => None,
    }
}
