//! C13 / C12: the control-point collection and the timing-point decoder of the real crate.
//!
//! `cpops <op> …` — ops `T:<time>:<beatlen>`, `D:<time>:<sv>:<ticks>`, `E:<time>:<kiai>:<scroll>`,
//! `S:<time>:<bank>:<vol>:<custom>`, `?<time>`; floats are hex bit patterns.
//! `impl`: canonical observation (same text as the Lean driver prints).
//! `prop`: the property evaluated against a linear-scan reference written from the property text,
//! which reasons about *time* (`<`, `==` on f64), not about `total_cmp`.
use rosu_map::section::{
    general::{CountdownType, GameMode, General, GeneralState, ParseGeneralError},
    hit_objects::hit_samples::SampleBank,
    timing_points::{
        ControlPoints, DifficultyPoint, EffectPoint, ParseTimingPointsError, SamplePoint,
        TimeSignature, TimingPoint, TimingPoints, TimingPointsState,
    },
};
use rosu_map::util::ParseNumberError;
use rosu_map::{DecodeBeatmap, DecodeState};

use crate::util::{hex, unhex};

fn f64_of_hex(s: &str) -> f64 {
    f64::from_bits(u64::from_str_radix(s, 16).unwrap_or(0))
}

fn fx(x: f64) -> String {
    if x.is_nan() {
        "nan".to_owned()
    } else {
        format!("{:x}", x.to_bits())
    }
}

fn b01(b: bool) -> &'static str {
    if b {
        "1"
    } else {
        "0"
    }
}

fn bank_idx(b: SampleBank) -> u8 {
    match b {
        SampleBank::None => 0,
        SampleBank::Normal => 1,
        SampleBank::Soft => 2,
        SampleBank::Drum => 3,
    }
}

fn bank_of(n: i32) -> SampleBank {
    match n {
        1 => SampleBank::Normal,
        2 => SampleBank::Soft,
        3 => SampleBank::Drum,
        _ => SampleBank::None,
    }
}

fn fmt_timing(p: &TimingPoint) -> String {
    format!(
        "{}/{}/{}/{}",
        fx(p.time),
        fx(p.beat_len),
        b01(p.omit_first_bar_line),
        p.time_signature.numerator.get()
    )
}

fn fmt_difficulty(p: &DifficultyPoint) -> String {
    format!("{}/{}/{}", fx(p.time), fx(p.slider_velocity), b01(p.generate_ticks))
}

fn fmt_effect(p: &EffectPoint) -> String {
    format!("{}/{}/{}", fx(p.time), b01(p.kiai), fx(p.scroll_speed))
}

fn fmt_sample(p: &SamplePoint) -> String {
    format!(
        "{}/{}/{}/{}",
        fx(p.time),
        bank_idx(p.sample_bank),
        p.sample_volume,
        p.custom_sample_bank
    )
}

fn fmt_list<T>(f: impl Fn(&T) -> String, l: &[T]) -> String {
    if l.is_empty() {
        "-".to_owned()
    } else {
        l.iter().map(f).collect::<Vec<_>>().join(",")
    }
}

fn fmt_opt<T>(f: impl Fn(&T) -> String, o: Option<&T>) -> String {
    o.map_or_else(|| "-".to_owned(), f)
}

pub fn fmt_control_points(cp: &ControlPoints) -> String {
    format!(
        "T={} D={} E={} S={}",
        fmt_list(fmt_timing, &cp.timing_points),
        fmt_list(fmt_difficulty, &cp.difficulty_points),
        fmt_list(fmt_effect, &cp.effect_points),
        fmt_list(fmt_sample, &cp.sample_points)
    )
}

fn fmt_lookup(cp: &ControlPoints, t: f64) -> String {
    format!(
        "L:{}|{}|{}|{}",
        fmt_opt(fmt_timing, cp.timing_point_at(t)),
        fmt_opt(fmt_difficulty, cp.difficulty_point_at(t)),
        fmt_opt(fmt_effect, cp.effect_point_at(t)),
        fmt_opt(fmt_sample, cp.sample_point_at(t))
    )
}

#[derive(Clone)]
enum Op {
    T(TimingPoint),
    D(DifficultyPoint),
    E(EffectPoint),
    S(SamplePoint),
    Lookup(f64),
}

fn parse_op(tok: &str) -> Option<Op> {
    if let Some(t) = tok.strip_prefix('?') {
        return Some(Op::Lookup(f64_of_hex(t)));
    }
    let f: Vec<&str> = tok.split(':').collect();
    Some(match f.as_slice() {
        ["T", t, b] => Op::T(TimingPoint::new(
            f64_of_hex(t),
            f64_of_hex(b),
            false,
            TimeSignature::new_simple_quadruple(),
        )),
        ["T", t, b, omit, num] => Op::T(TimingPoint::new(
            f64_of_hex(t),
            f64_of_hex(b),
            *omit == "1",
            TimeSignature::new(num.parse().unwrap_or(4)).unwrap_or_else(|_| TimeSignature::new_simple_quadruple()),
        )),
        ["D", t, sv, ticks] => Op::D(DifficultyPoint::new(
            f64_of_hex(t),
            if *ticks == "1" { 1.0 } else { f64::NAN },
            f64_of_hex(sv),
        )),
        ["E", t, k, sc] => {
            let mut e = EffectPoint::new(f64_of_hex(t), *k == "1");
            e.scroll_speed = f64_of_hex(sc);
            Op::E(e)
        }
        ["S", t, bank, vol, custom] => Op::S(SamplePoint::new(
            f64_of_hex(t),
            bank_of(bank.parse().unwrap_or(0)),
            vol.parse().unwrap_or(0),
            custom.parse().unwrap_or(0),
        )),
        // points written as struct literals (the fields are public): no clamping by the constructors
        ["RS", t, bank, vol, custom] => Op::S(SamplePoint {
            time: f64_of_hex(t),
            sample_bank: bank_of(bank.parse().unwrap_or(0)),
            sample_volume: vol.parse().unwrap_or(0),
            custom_sample_bank: custom.parse().unwrap_or(0),
        }),
        ["RD", t, sv, ticks] => Op::D(DifficultyPoint {
            time: f64_of_hex(t),
            slider_velocity: f64_of_hex(sv),
            generate_ticks: *ticks == "1",
        }),
        _ => return None,
    })
}

fn impl_cpops(toks: &[&str]) -> String {
    let mut cp = ControlPoints::default();
    let mut lookups = String::new();
    for tok in toks {
        match parse_op(tok) {
            Some(Op::T(p)) => cp.add(p),
            Some(Op::D(p)) => cp.add(p),
            Some(Op::E(p)) => cp.add(p),
            Some(Op::S(p)) => cp.add(p),
            Some(Op::Lookup(t)) => {
                lookups.push(' ');
                lookups.push_str(&fmt_lookup(&cp, t));
            }
            None => return "bad-request".to_owned(),
        }
    }
    fmt_control_points(&cp) + &lookups
}

// ---------------------------------------------------------------------------------------------
// property oracle for C13: a reference collection written from the property text.
// "ordered by time", "one point per time", "the point active at its time", "the latest point not
// after that time" are all read with the ordinary order of f64 (`<`, `<=`, `==`).

trait Timed: Clone {
    fn time(&self) -> f64;
    fn show(&self) -> String;
}

impl Timed for TimingPoint {
    fn time(&self) -> f64 {
        self.time
    }
    fn show(&self) -> String {
        fmt_timing(self)
    }
}
impl Timed for DifficultyPoint {
    fn time(&self) -> f64 {
        self.time
    }
    fn show(&self) -> String {
        fmt_difficulty(self)
    }
}
impl Timed for EffectPoint {
    fn time(&self) -> f64 {
        self.time
    }
    fn show(&self) -> String {
        fmt_effect(self)
    }
}
impl Timed for SamplePoint {
    fn time(&self) -> f64 {
        self.time
    }
    fn show(&self) -> String {
        fmt_sample(self)
    }
}

/// the latest stored point not after `t`.
fn ref_active<T: Timed>(l: &[T], t: f64) -> Option<&T> {
    let mut best: Option<&T> = None;
    for p in l {
        if p.time() <= t && best.map_or(true, |b| b.time() <= p.time()) {
            best = Some(p);
        }
    }
    best
}

/// store `p`: a point at the same time is replaced, otherwise `p` goes where the times stay increasing.
fn ref_store<T: Timed>(l: &mut Vec<T>, p: T) {
    l.retain(|q| q.time() != p.time());
    let pos = l.iter().position(|q| q.time() > p.time()).unwrap_or(l.len());
    l.insert(pos, p);
}

fn same_list<T: Timed>(kind: &str, real: &[T], reference: &[T]) -> Result<(), String> {
    for w in real.windows(2) {
        if !(w[0].time() < w[1].time()) {
            return Err(format!(
                "{kind} list not strictly increasing in time: {} then {}",
                w[0].show(),
                w[1].show()
            ));
        }
    }
    let a: Vec<String> = real.iter().map(Timed::show).collect();
    let b: Vec<String> = reference.iter().map(Timed::show).collect();
    if a != b {
        return Err(format!("{kind} list is [{}], reference has [{}]", a.join(","), b.join(",")));
    }
    Ok(())
}

fn same_opt<T: Timed>(kind: &str, t: f64, real: Option<&T>, reference: Option<&T>) -> Result<(), String> {
    let a = real.map(Timed::show);
    let b = reference.map(Timed::show);
    if a != b {
        return Err(format!(
            "{kind} lookup at {} returned {}, reference {}",
            fx(t),
            a.unwrap_or_else(|| "-".into()),
            b.unwrap_or_else(|| "-".into())
        ));
    }
    Ok(())
}

#[derive(Default)]
struct RefCollection {
    timing: Vec<TimingPoint>,
    difficulty: Vec<DifficultyPoint>,
    effect: Vec<EffectPoint>,
    sample: Vec<SamplePoint>,
}

fn prop_cpops(toks: &[&str]) -> String {
    let mut ops = Vec::new();
    for tok in toks {
        match parse_op(tok) {
            Some(op) => ops.push(op),
            None => return "SKIP bad-request".to_owned(),
        }
    }
    let has_nan = ops.iter().any(|op| match op {
        Op::T(p) => p.time.is_nan(),
        Op::D(p) => p.time.is_nan(),
        Op::E(p) => p.time.is_nan(),
        Op::S(p) => p.time.is_nan(),
        Op::Lookup(t) => t.is_nan(),
    });
    if has_nan {
        return "SKIP nan-time".to_owned();
    }

    let mut cp = ControlPoints::default();
    let mut r = RefCollection::default();
    for (n, op) in ops.iter().enumerate() {
        let res: Result<(), String> = (|| {
            match op.clone() {
                Op::T(p) => {
                    cp.add(p.clone());
                    ref_store(&mut r.timing, p);
                }
                Op::D(p) => {
                    cp.add(p.clone());
                    let dflt = DifficultyPoint::default();
                    let active = ref_active(&r.difficulty, p.time).unwrap_or(&dflt);
                    let repeats = p.generate_ticks == active.generate_ticks
                        && (p.slider_velocity - active.slider_velocity).abs() < f64::EPSILON;
                    if !repeats {
                        ref_store(&mut r.difficulty, p);
                    }
                }
                Op::E(p) => {
                    cp.add(p.clone());
                    let dflt = EffectPoint::default();
                    let active = ref_active(&r.effect, p.time).unwrap_or(&dflt);
                    let repeats = p.kiai == active.kiai
                        && (p.scroll_speed - active.scroll_speed).abs() < f64::EPSILON;
                    if !repeats {
                        ref_store(&mut r.effect, p);
                    }
                }
                Op::S(p) => {
                    cp.add(p.clone());
                    let repeats = ref_active(&r.sample, p.time).map_or(false, |a| {
                        p.sample_bank == a.sample_bank
                            && p.sample_volume == a.sample_volume
                            && p.custom_sample_bank == a.custom_sample_bank
                    });
                    if !repeats {
                        ref_store(&mut r.sample, p);
                    }
                }
                Op::Lookup(t) => {
                    same_opt(
                        "timing",
                        t,
                        cp.timing_point_at(t),
                        ref_active(&r.timing, t).or(r.timing.first()),
                    )?;
                    same_opt(
                        "sample",
                        t,
                        cp.sample_point_at(t),
                        ref_active(&r.sample, t).or(r.sample.first()),
                    )?;
                    same_opt("difficulty", t, cp.difficulty_point_at(t), ref_active(&r.difficulty, t))?;
                    same_opt("effect", t, cp.effect_point_at(t), ref_active(&r.effect, t))?;
                }
            }
            same_list("timing", &cp.timing_points, &r.timing)?;
            same_list("difficulty", &cp.difficulty_points, &r.difficulty)?;
            same_list("effect", &cp.effect_points, &r.effect)?;
            same_list("sample", &cp.sample_points, &r.sample)?;
            Ok(())
        })();
        if let Err(e) = res {
            return format!("FAIL after op {} ({}): {}", n, toks[n], e);
        }
    }
    "OK".to_owned()
}

// ---------------------------------------------------------------------------------------------
// tp / gen: the decoders

fn text(h: &str) -> String {
    String::from_utf8_lossy(&unhex(h)).into_owned()
}

fn num_tag(e: &ParseNumberError) -> &'static str {
    match e {
        ParseNumberError::InvalidFloat(_) => "InvalidFloat",
        ParseNumberError::InvalidInteger(_) => "InvalidInteger",
        ParseNumberError::NaN => "NaN",
        ParseNumberError::NumberOverflow => "NumberOverflow",
        ParseNumberError::NumberUnderflow => "NumberUnderflow",
        // a variant this harness does not know (a change to /repo may add one): still an observation, not a build failure
        #[allow(unreachable_patterns)]
        _ => "OtherNumberError",
    }
}

fn general_tag(e: &ParseGeneralError) -> String {
    match e {
        ParseGeneralError::CountdownType(_) => "CountdownType".to_owned(),
        ParseGeneralError::Mode(_) => "Mode".to_owned(),
        ParseGeneralError::Number(e) => format!("Number.{}", num_tag(e)),
        ParseGeneralError::SampleBank(_) => "SampleBank".to_owned(),
        #[allow(unreachable_patterns)]
        _ => "OtherGeneralError".to_owned(),
    }
}

fn tp_tag(e: &ParseTimingPointsError) -> String {
    match e {
        ParseTimingPointsError::EffectFlags(_) => "EffectFlags".to_owned(),
        ParseTimingPointsError::General(e) => format!("General.{}", general_tag(e)),
        ParseTimingPointsError::InvalidLine => "InvalidLine".to_owned(),
        ParseTimingPointsError::Number(e) => format!("Number.{}", num_tag(e)),
        ParseTimingPointsError::SampleBank(_) => "SampleBank".to_owned(),
        ParseTimingPointsError::TimeSignature(_) => "TimeSignature".to_owned(),
        ParseTimingPointsError::TimingControlPointNaN => "TimingControlPointNaN".to_owned(),
        #[allow(unreachable_patterns)]
        _ => "OtherTimingPointsError".to_owned(),
    }
}

fn fmt_results(rs: &[String]) -> String {
    if rs.is_empty() {
        "r=-".to_owned()
    } else {
        format!("r={}", rs.join(","))
    }
}

/// runs the real decoder: per-line results and the finished `TimingPoints`.
fn run_tp(mode: &str, lines: &[String]) -> (Vec<String>, TimingPoints) {
    let mut state = TimingPointsState::create(14);
    let _ = TimingPoints::parse_general(&mut state, &format!("Mode: {mode}"));
    let mut rs = Vec::new();
    for l in lines {
        let r = match l.strip_prefix('\u{1}') {
            Some(g) => TimingPoints::parse_general(&mut state, g),
            None => TimingPoints::parse_timing_points(&mut state, l),
        };
        rs.push(match r {
            Ok(()) => "ok".to_owned(),
            Err(e) => format!("err:{}", tp_tag(&e)),
        });
    }
    (rs, TimingPoints::from(state))
}

/// a token `g<hex>` is a `[General]` line (marked with a leading U+0001 for `run_tp`).
fn tp_lines(toks: &[&str]) -> Vec<String> {
    toks.iter()
        .map(|h| match h.strip_prefix('g') {
            Some(g) => format!("\u{1}{}", text(g)),
            None => text(h),
        })
        .collect()
}

fn impl_tp(mode: &str, lines: &[&str]) -> String {
    let lines = tp_lines(lines);
    let (rs, tp) = run_tp(mode, &lines);
    format!("{} {}", fmt_results(&rs), fmt_control_points(&tp.control_points))
}

fn impl_gen(lines: &[&str]) -> String {
    let mut g = GeneralState::create(14);
    let mut rs = Vec::new();
    for h in lines {
        rs.push(match General::parse_general(&mut g, &text(h)) {
            Ok(()) => "ok".to_owned(),
            Err(e) => format!("err:{}", general_tag(&e)),
        });
    }
    let mode = match g.mode {
        GameMode::Osu => 0,
        GameMode::Taiko => 1,
        GameMode::Catch => 2,
        GameMode::Mania => 3,
    };
    let countdown = match g.countdown {
        CountdownType::None => 0,
        CountdownType::Normal => 1,
        CountdownType::HalfSpeed => 2,
        CountdownType::DoubleSpeed => 3,
    };
    format!(
        "{} audio={} lead={} preview={} bank={} vol={} stack={} mode={} flags={}{}{}{}{} countdown={} offset={}",
        fmt_results(&rs),
        hex(g.audio_file.as_bytes()),
        fx(g.audio_lead_in),
        g.preview_time,
        bank_idx(g.default_sample_bank),
        g.default_sample_volume,
        if g.stack_leniency.is_nan() { "nan".to_owned() } else { format!("{:x}", g.stack_leniency.to_bits()) },
        mode,
        b01(g.letterbox_in_breaks),
        b01(g.special_style),
        b01(g.widescreen_storyboard),
        b01(g.epilepsy_warning),
        b01(g.samples_match_playback_rate),
        countdown,
        g.countdown_offset
    )
}

// ---------------------------------------------------------------------------------------------
// property oracle for C12, written from the property text and the .osu format description
// (time,beatLength,meter,sampleSet,sampleIndex,volume,uninherited,effects), not from the decoder:
//   * lines sharing a time form a group; per kind the last inherited line wins over timing-change
//     lines, the first timing-change line wins among those (timing points come from timing-change lines only);
//   * a point repeating the values active at its time is dropped, a point at an existing time replaces it;
//   * every list strictly increasing in time; clamps; scroll speed only in taiko / mania;
//   * a NaN beat length is accepted only on inherited lines, where it switches tick generation off.
// The oracle reads "clean" lines only (plain numbers, flags exactly 0/1); for any other line it asks the
// implementation whether it was accepted: a rejected line must leave no trace (it is simply left out),
// an accepted unclean line makes the case a SKIP.

struct CleanLine {
    time: f64,
    beat: f64,
    meter: u32,
    bank: Option<i32>,
    custom: i32,
    volume: Option<i32>,
    timing: bool,
    kiai: bool,
    omit: bool,
}

fn plain_int(s: &str) -> Option<i32> {
    let d = s.strip_prefix('-').unwrap_or(s);
    if d.is_empty() || d.len() > 9 || !d.bytes().all(|b| b.is_ascii_digit()) {
        return None;
    }
    s.parse().ok()
}

fn plain_float(s: &str) -> Option<f64> {
    let ok = !s.is_empty()
        && s.bytes().all(|b| b.is_ascii_digit() || b == b'.' || b == b'-' || b == b'e')
        && s.bytes().any(|b| b.is_ascii_digit());
    if !ok {
        return None;
    }
    let x: f64 = s.parse().ok()?;
    (x.abs() < 2_000_000_000.0).then_some(x)
}

fn clean_line(line: &str) -> Option<CleanLine> {
    if line.contains("//") {
        return None;
    }
    let f: Vec<&str> = line.split(',').collect();
    if f.len() < 2 || f.len() > 8 {
        return None;
    }
    let time = plain_float(f[0])?;
    let beat = if f[1] == "nan" || f[1] == "NaN" { f64::NAN } else { plain_float(f[1])? };
    let meter = match f.get(2) {
        None => 4,
        Some(s) => {
            let n = plain_int(s)?;
            if n < 1 || s.starts_with('0') {
                return None;
            }
            n as u32
        }
    };
    let bank = match f.get(3) {
        None => None,
        Some(s) => Some(plain_int(s)?),
    };
    let custom = match f.get(4) {
        None => 0,
        Some(s) => plain_int(s)?,
    };
    let volume = match f.get(5) {
        None => None,
        Some(s) => Some(plain_int(s)?),
    };
    let timing = match f.get(6) {
        None => true,
        Some(&"1") => true,
        Some(&"0") => false,
        Some(_) => return None,
    };
    let (kiai, omit) = match f.get(7) {
        None => (false, false),
        Some(s) => {
            let n = plain_int(s)?;
            if !(0..16).contains(&n) {
                return None;
            }
            (n & 1 != 0, n & 8 != 0)
        }
    };
    Some(CleanLine { time, beat, meter, bank, custom, volume, timing, kiai, omit })
}

/// lines the legacy rules certainly reject although every field is a plain number: a negative time signature
fn must_reject(line: &str) -> bool {
    if line.contains("//") {
        return false;
    }
    let f: Vec<&str> = line.split(',').collect();
    if f.len() < 3 || f.len() > 8 || plain_float(f[0]).is_none() || plain_float(f[1]).is_none() {
        return false;
    }
    // (a field that starts with '0' selects the default 4/4 instead: legacy rule)
    !f[2].starts_with('0') && matches!(plain_int(f[2]), Some(n) if n < 1)
}

fn prop_tp(mode: &str, hex_lines: &[&str]) -> String {
    let lines = tp_lines(hex_lines);
    // [General] lines other than the two sample defaults (e.g. a `Mode` record) are outside the oracle
    if lines.iter().any(|l| l.strip_prefix('\u{1}').map_or(false, |g| {
        !matches!(g.split_once(':').map(|x| x.0.trim()), Some("SampleSet") | Some("SampleVolume"))
    })) {
        return "SKIP general-lines".to_owned();
    }
    let (rs, tp) = run_tp(mode, &lines);
    let cp = &tp.control_points;
    let scrolling = mode == "1" || mode == "3";

    // direct statements about the result
    macro_rules! increasing {
        ($l:expr, $k:expr) => {
            for w in $l.windows(2) {
                if !(w[0].time < w[1].time) {
                    return format!("FAIL {} list not strictly increasing in time: {} then {}", $k, w[0].show(), w[1].show());
                }
            }
        };
    }
    increasing!(cp.timing_points, "timing");
    increasing!(cp.difficulty_points, "difficulty");
    increasing!(cp.effect_points, "effect");
    increasing!(cp.sample_points, "sample");
    for p in &cp.timing_points {
        if !(6.0 <= p.beat_len && p.beat_len <= 60000.0) {
            return format!("FAIL beat length outside [6, 60000]: {}", p.show());
        }
    }
    for p in &cp.difficulty_points {
        if !(0.1 <= p.slider_velocity && p.slider_velocity <= 10.0) {
            return format!("FAIL slider velocity outside [0.1, 10]: {}", p.show());
        }
    }
    for p in &cp.effect_points {
        let ok = if scrolling { 0.01 <= p.scroll_speed && p.scroll_speed <= 10.0 } else { p.scroll_speed == 1.0 };
        if !ok {
            return format!("FAIL scroll speed: {}", p.show());
        }
    }
    for p in &cp.sample_points {
        if !(0 <= p.sample_volume && p.sample_volume <= 100) {
            return format!("FAIL volume outside [0, 100]: {}", p.show());
        }
    }

    // the legacy model
    let mut accepted: Vec<CleanLine> = Vec::new();
    // [General] defaults in force when a line is read: a line that carries no sample-set / volume field takes them
    // (legacy rule: the field wins whenever it is present; set 0 / None plays as Normal)
    let mut def_bank: i32 = 1;
    let mut def_vol: i32 = 100;
    for (line, r) in lines.iter().zip(&rs) {
        let ok = r == "ok";
        if let Some(g) = line.strip_prefix('\u{1}') {
            let Some((k, v)) = g.split_once(':') else { return "SKIP general-line-outside-oracle".to_owned() };
            let (k, v) = (k.trim(), v.trim());
            match k {
                "SampleSet" => match v {
                    "0" | "None" | "1" | "Normal" => def_bank = 1,
                    "2" | "Soft" => def_bank = 2,
                    "3" | "Drum" => def_bank = 3,
                    _ if !ok => {}
                    _ => return "SKIP general-line-outside-oracle".to_owned(),
                },
                "SampleVolume" => match plain_int(v) {
                    Some(n) if ok => def_vol = n,
                    None if !ok => {}
                    _ => return "SKIP general-line-outside-oracle".to_owned(),
                },
                _ => return "SKIP general-line-outside-oracle".to_owned(),
            }
            continue;
        }
        if let Some(c) = clean_line(line) {
            // a sample set outside 0..=3 has no legacy meaning (the reference keeps the number as a bank name); with the
            // default bank Normal every reading agrees, otherwise the case is outside the oracle
            if ok && def_bank != 1 && c.bank.map_or(false, |b| !(0..=3).contains(&b)) {
                return "SKIP invalid-sample-set-with-general-default".to_owned();
            }
        }
        match clean_line(line).map(|mut c| {
            c.bank = Some(c.bank.unwrap_or(def_bank));
            c.volume = Some(c.volume.unwrap_or(def_vol));
            c
        }) {
            Some(c) => {
                let expect = !(c.beat.is_nan() && c.timing);
                if ok != expect {
                    return format!("FAIL line '{line}' {} (NaN beat length: {}, timing change: {})",
                        if ok { "accepted" } else { "rejected" }, c.beat.is_nan(), c.timing);
                }
                if ok {
                    accepted.push(c);
                }
            }
            None => {
                if ok && must_reject(line) {
                    return format!("FAIL line '{line}' accepted although its time signature is negative");
                }
                if ok {
                    return "SKIP accepted line outside the oracle's grammar".to_owned();
                }
            }
        }
    }
    let mut groups: Vec<Vec<&CleanLine>> = Vec::new();
    for c in &accepted {
        match groups.last_mut() {
            Some(g) if (c.time - g.last().unwrap().time).abs() < f64::EPSILON => g.push(c),
            _ => groups.push(vec![c]),
        }
    }
    let mut r = RefCollection::default();
    for g in &groups {
        let first_timing = g.iter().find(|c| c.timing);
        let last_inherited = g.iter().rev().find(|c| !c.timing);
        if let Some(c) = first_timing {
            ref_store(&mut r.timing, TimingPoint {
                time: c.time,
                beat_len: c.beat.clamp(6.0, 60000.0),
                omit_first_bar_line: c.omit,
                time_signature: TimeSignature::new(c.meter as i32).unwrap(),
            });
        }
        let c = last_inherited.or(first_timing).unwrap();
        let sv = if c.beat < 0.0 { 100.0 / -c.beat } else { 1.0 };
        {
            let p = DifficultyPoint { time: c.time, slider_velocity: sv.clamp(0.1, 10.0), generate_ticks: !c.beat.is_nan() };
            let dflt = DifficultyPoint::default();
            let active = ref_active(&r.difficulty, p.time).unwrap_or(&dflt);
            if !(p.generate_ticks == active.generate_ticks && (p.slider_velocity - active.slider_velocity).abs() < f64::EPSILON) {
                ref_store(&mut r.difficulty, p);
            }
        }
        {
            let p = EffectPoint { time: c.time, kiai: c.kiai, scroll_speed: if scrolling { sv.clamp(0.01, 10.0) } else { 1.0 } };
            let dflt = EffectPoint::default();
            let active = ref_active(&r.effect, p.time).unwrap_or(&dflt);
            if !(p.kiai == active.kiai && (p.scroll_speed - active.scroll_speed).abs() < f64::EPSILON) {
                ref_store(&mut r.effect, p);
            }
        }
        {
            let bank = match c.bank {
                Some(2) => SampleBank::Soft,
                Some(3) => SampleBank::Drum,
                _ => SampleBank::Normal,
            };
            let p = SamplePoint { time: c.time, sample_bank: bank, sample_volume: c.volume.unwrap_or(100).clamp(0, 100), custom_sample_bank: c.custom };
            let repeats = ref_active(&r.sample, p.time).map_or(false, |a| {
                p.sample_bank == a.sample_bank && p.sample_volume == a.sample_volume && p.custom_sample_bank == a.custom_sample_bank
            });
            if !repeats {
                ref_store(&mut r.sample, p);
            }
        }
    }
    let res = same_list("timing", &cp.timing_points, &r.timing)
        .and_then(|()| same_list("difficulty", &cp.difficulty_points, &r.difficulty))
        .and_then(|()| same_list("effect", &cp.effect_points, &r.effect))
        .and_then(|()| same_list("sample", &cp.sample_points, &r.sample));
    match res {
        Ok(()) => "OK".to_owned(),
        Err(e) => format!("FAIL {e}"),
    }
}

pub fn dispatch_impl(toks: &[&str]) -> Option<String> {
    match toks {
        ["cpops", ops @ ..] => Some(impl_cpops(ops)),
        ["tp", mode, lines @ ..] => Some(impl_tp(mode, lines)),
        ["gen", lines @ ..] => Some(impl_gen(lines)),
        _ => None,
    }
}

pub fn dispatch_prop(toks: &[&str]) -> Option<String> {
    match toks {
        ["cpops", ops @ ..] => Some(prop_cpops(ops)),
        ["tp", mode, lines @ ..] => Some(prop_tp(mode, lines)),
        _ => None,
    }
}
