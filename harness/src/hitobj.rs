//! C14 (and the hit-object part of C06): `HitObjects::parse_hit_objects` line by line on a fresh
//! state; canonical dump of the fields a line alone determines (no curve is computed here).
use rosu_map::section::hit_objects::hit_samples::{HitSampleDefaultName, HitSampleInfo, HitSampleInfoName, SampleBank};
use rosu_map::section::hit_objects::{
    HitObject, HitObjectKind, HitObjects, HitObjectsState, PathControlPoint, PathType, SplineType,
};
use rosu_map::{DecodeBeatmap, DecodeState};

use crate::sections::{h32, h64, hs, join, lines_of};

pub fn fmt_path_type(t: Option<PathType>) -> String {
    match t {
        None => "-".into(),
        Some(t) => match t.kind {
            SplineType::Catmull => "C".into(),
            SplineType::Linear => "L".into(),
            SplineType::PerfectCurve => "P".into(),
            SplineType::BSpline => match t.degree {
                Some(d) => format!("B{d}"),
                None => "B".into(),
            },
        },
    }
}

pub fn fmt_cps(cps: &[PathControlPoint]) -> String {
    let v: Vec<String> = cps
        .iter()
        .map(|c| format!("{}:{}:{}", h32(c.pos.x), h32(c.pos.y), fmt_path_type(c.path_type)))
        .collect();
    join(&v, ";")
}

pub fn bank_idx(b: SampleBank) -> u8 {
    match b {
        SampleBank::None => 0,
        SampleBank::Normal => 1,
        SampleBank::Soft => 2,
        SampleBank::Drum => 3,
    }
}

pub fn fmt_sample(s: &HitSampleInfo) -> String {
    let name = match &s.name {
        HitSampleInfoName::Default(HitSampleDefaultName::Normal) => "n".to_owned(),
        HitSampleInfoName::Default(HitSampleDefaultName::Whistle) => "w".to_owned(),
        HitSampleInfoName::Default(HitSampleDefaultName::Finish) => "f".to_owned(),
        HitSampleInfoName::Default(HitSampleDefaultName::Clap) => "c".to_owned(),
        HitSampleInfoName::File(f) => format!("F{}", hs(f)),
    };
    let suffix = s.suffix.map_or("-".to_owned(), |x| x.to_string());
    format!(
        "{}/{}/{}/{}/{}/{}/{}",
        name, bank_idx(s.bank), suffix, s.volume, s.custom_sample_bank, u8::from(s.bank_specified), u8::from(s.is_layered)
    )
}

pub fn fmt_samples(ss: &[HitSampleInfo]) -> String {
    format!("[{}]", ss.iter().map(fmt_sample).collect::<Vec<_>>().join(","))
}

pub fn mode_idx(m: rosu_map::section::general::GameMode) -> u8 {
    m as u8
}

/// the object as the line alone determines it (slider: control points, expected length; no curve)
pub fn fmt_obj_raw(h: &HitObject, mode_of_path: u8) -> String {
    match &h.kind {
        HitObjectKind::Circle(c) => format!(
            "C t={} p={}:{} nc={} co={} s={}",
            h64(h.start_time), h32(c.pos.x), h32(c.pos.y), u8::from(c.new_combo), c.combo_offset, fmt_samples(&h.samples)
        ),
        HitObjectKind::Slider(s) => {
            let len = s.path.expected_dist().map_or("-".to_owned(), h64);
            let ns: Vec<String> = s.node_samples.iter().map(|n| fmt_samples(n)).collect();
            format!(
                "S t={} p={}:{} nc={} co={} rc={} len={} m={} cps={} ns={} s={}",
                h64(h.start_time), h32(s.pos.x), h32(s.pos.y), u8::from(s.new_combo), s.combo_offset, s.repeat_count, len,
                mode_of_path, fmt_cps(s.path.control_points()), ns.join("|"), fmt_samples(&h.samples)
            )
        }
        HitObjectKind::Spinner(s) => format!(
            "N t={} p={}:{} d={} nc={} s={}",
            h64(h.start_time), h32(s.pos.x), h32(s.pos.y), h64(s.duration), u8::from(s.new_combo), fmt_samples(&h.samples)
        ),
        HitObjectKind::Hold(s) => format!("H t={} x={} d={} s={}", h64(h.start_time), h32(s.pos_x), h64(s.duration), fmt_samples(&h.samples)),
    }
}

pub fn run_ho(mode: u8, lines: &[String]) -> (String, HitObjectsState) {
    let mut st = HitObjectsState::create(14);
    let _ = HitObjects::parse_general(&mut st, &format!("Mode: {mode}"));
    let fl: String = lines
        .iter()
        .map(|l| if HitObjects::parse_hit_objects(&mut st, l).is_ok() { '1' } else { '0' })
        .collect();
    (fl, st)
}

pub fn fmt_core(st: &HitObjectsState, mode: u8) -> String {
    let last = st.last_object.map_or("-".to_owned(), |k| i32::from(k).to_string());
    let mut s = format!("last={} cp={} n={}", last, fmt_cps(&st.curve_points), st.hit_objects.len());
    for h in &st.hit_objects {
        s.push_str(" | ");
        s.push_str(&fmt_obj_raw(h, mode));
    }
    s
}

pub fn dispatch_impl(toks: &[&str]) -> Option<String> {
    match toks {
        ["ho", mode, hexes @ ..] => {
            let mode: u8 = mode.parse().ok()?;
            let (fl, st) = run_ho(mode, &lines_of(hexes));
            Some(format!("ok={} {}", fl, fmt_core(&st, mode)))
        }
        _ => None,
    }
}

pub fn dispatch_prop(_toks: &[&str]) -> Option<String> {
    None
}
