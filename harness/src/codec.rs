//! number codec differential (DESIGN.md 3.3): Rust's FromStr / Display / casts on the same inputs as the model.
use rosu_map::util::ParseNumber;

use crate::util::{hex, unhex};

fn text(h: &str) -> String {
    String::from_utf8_lossy(&unhex(h)).into_owned()
}

pub fn dispatch_impl(toks: &[&str]) -> Option<String> {
    Some(match toks {
        ["pf64", h] => match text(h).parse::<f64>() {
            Ok(x) => format!("ok {:x}", if x.is_nan() { f64::NAN.to_bits() } else { x.to_bits() }),
            Err(_) => "err".into(),
        },
        ["pf32", h] => match text(h).parse::<f32>() {
            Ok(x) => format!("ok {:x}", if x.is_nan() { f32::NAN.to_bits() } else { x.to_bits() }),
            Err(_) => "err".into(),
        },
        ["df64", b] => hex(format!("{}", f64::from_bits(u64::from_str_radix(b, 16).unwrap())).as_bytes()),
        ["df32", b] => hex(format!("{}", f32::from_bits(u32::from_str_radix(b, 16).unwrap())).as_bytes()),
        ["i32", h] => match <i32 as ParseNumber>::parse(&text(h)) {
            Ok(n) => format!("ok {n}"),
            Err(_) => "err".into(),
        },
        ["i32raw", h] => match text(h).parse::<i32>() {
            Ok(n) => format!("ok {n}"),
            Err(_) => "err".into(),
        },
        ["u8", h] => match text(h).parse::<u8>() {
            Ok(n) => format!("ok {n}"),
            Err(_) => "err".into(),
        },
        ["castf64i32", b] => format!("{}", f64::from_bits(u64::from_str_radix(b, 16).unwrap()) as i32),
        ["castf32i32", b] => format!("{}", f32::from_bits(u32::from_str_radix(b, 16).unwrap()) as i32),
        ["castf64f32", b] => {
            let y = f64::from_bits(u64::from_str_radix(b, 16).unwrap()) as f32;
            if y.is_nan() { "nan".into() } else { format!("{:x}", y.to_bits()) }
        }
        ["castf32f64", b] => {
            let y = f64::from(f32::from_bits(u32::from_str_radix(b, 16).unwrap()));
            if y.is_nan() { "nan".into() } else { format!("{:x}", y.to_bits()) }
        }
        ["ceilf64", b] => {
            let y = f64::from_bits(u64::from_str_radix(b, 16).unwrap()).ceil();
            if y.is_nan() { "nan".into() } else { format!("{:x}", y.to_bits()) }
        }
        ["ceilf32", b] => {
            let y = f32::from_bits(u32::from_str_radix(b, 16).unwrap()).ceil();
            if y.is_nan() { "nan".into() } else { format!("{:x}", y.to_bits()) }
        }
        ["usizef64", b] => format!("{}", f64::from_bits(u64::from_str_radix(b, 16).unwrap()) as usize),
        ["fop64", op, a, b] => {
            let x = f64::from_bits(u64::from_str_radix(a, 16).unwrap());
            let y = f64::from_bits(u64::from_str_radix(b, 16).unwrap());
            let num = |z: f64| if z.is_nan() { "nan".to_string() } else { format!("{:x}", z.to_bits()) };
            // the NaN the model sees is always the canonical one
            let canon = |z: f64| if z.is_nan() { f64::NAN } else { z };
            match *op {
                "add" => num(x + y),
                "sub" => num(x - y),
                "mul" => num(x * y),
                "div" => num(x / y),
                "sqrt" => num(x.sqrt()),
                "abs" => num(x.abs()),
                "neg" => num(-x),
                "cmp" => format!("{} {} {} {}", x < y, x <= y, x == y, canon(x).total_cmp(&canon(y)) == std::cmp::Ordering::Less),
                "minmax" => format!("{} {}", num(x.min(y)), num(x.max(y))),
                _ => return None,
            }
        }
        ["fop32", op, a, b] => {
            let x = f32::from_bits(u32::from_str_radix(a, 16).unwrap());
            let y = f32::from_bits(u32::from_str_radix(b, 16).unwrap());
            let num = |z: f32| if z.is_nan() { "nan".to_string() } else { format!("{:x}", z.to_bits()) };
            let canon = |z: f32| if z.is_nan() { f32::NAN } else { z };
            match *op {
                "add" => num(x + y),
                "sub" => num(x - y),
                "mul" => num(x * y),
                "div" => num(x / y),
                "sqrt" => num(x.sqrt()),
                "abs" => num(x.abs()),
                "neg" => num(-x),
                "cmp" => format!("{} {} {} {}", x < y, x <= y, x == y, canon(x).total_cmp(&canon(y)) == std::cmp::Ordering::Less),
                "minmax" => format!("{} {}", num(x.min(y)), num(x.max(y))),
                _ => return None,
            }
        }
        ["casti32f32", n] => format!("{:x}", (n.parse::<i32>().unwrap() as f32).to_bits()),
        _ => return None,
    })
}

pub fn dispatch_prop(_toks: &[&str]) -> Option<String> {
    None
}
