//! number codec differential (DESIGN.md 3.3): Rust's FromStr / Display / casts on the same inputs as the model.
use rosu_map::util::ParseNumber;

use crate::util::{hex, unhex};

fn text(h: &str) -> String {
    String::from_utf8_lossy(&unhex(h)).into_owned()
}

pub fn dispatch_impl(toks: &[&str]) -> Option<String> {
    Some(match toks {
        ["pf64", h] => match text(h).parse::<f64>() {
            Ok(x) => format!("ok {:x}", if x.is_nan() { f64::NAN.to_bits() } else { x.to_bits() }),
            Err(_) => "err".into(),
        },
        ["pf32", h] => match text(h).parse::<f32>() {
            Ok(x) => format!("ok {:x}", if x.is_nan() { f32::NAN.to_bits() } else { x.to_bits() }),
            Err(_) => "err".into(),
        },
        ["df64", b] => hex(format!("{}", f64::from_bits(u64::from_str_radix(b, 16).unwrap())).as_bytes()),
        ["df32", b] => hex(format!("{}", f32::from_bits(u32::from_str_radix(b, 16).unwrap())).as_bytes()),
        ["i32", h] => match <i32 as ParseNumber>::parse(&text(h)) {
            Ok(n) => format!("ok {n}"),
            Err(_) => "err".into(),
        },
        ["i32raw", h] => match text(h).parse::<i32>() {
            Ok(n) => format!("ok {n}"),
            Err(_) => "err".into(),
        },
        ["u8", h] => match text(h).parse::<u8>() {
            Ok(n) => format!("ok {n}"),
            Err(_) => "err".into(),
        },
        ["castf64i32", b] => format!("{}", f64::from_bits(u64::from_str_radix(b, 16).unwrap()) as i32),
        ["castf32i32", b] => format!("{}", f32::from_bits(u32::from_str_radix(b, 16).unwrap()) as i32),
        ["castf64f32", b] => {
            let y = f64::from_bits(u64::from_str_radix(b, 16).unwrap()) as f32;
            if y.is_nan() { "nan".into() } else { format!("{:x}", y.to_bits()) }
        }
        ["casti32f32", n] => format!("{:x}", (n.parse::<i32>().unwrap() as f32).to_bits()),
        _ => return None,
    })
}

pub fn dispatch_prop(_toks: &[&str]) -> Option<String> {
    None
}
