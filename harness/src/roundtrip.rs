//! C02 / C03 / C04 requests and oracles.
//!   rt <hex>            decode → encode → decode: `M1 ## text ## M2` (impl), preserved-view comparison (prop)
//!   lines <hex>         C04: structure of the encoded text and acceptance of every line by its section parser
//!   edit <hex> f=v …    C03: apply edits through the public fields, encode, decode, compare
use rosu_map::section::general::{CountdownType, GameMode};
use rosu_map::section::hit_objects::{HitObject, HitObjectKind};
use rosu_map::Beatmap;

use crate::dump::*;
use crate::sections::{h32, h64};
use crate::util::{hex, kind_tag, unhex};
use crate::whole::Probe;

fn names_banks(h: &[rosu_map::section::hit_objects::hit_samples::HitSampleInfo]) -> String {
    h.iter()
        .map(|s| {
            let n = match &s.name {
                rosu_map::section::hit_objects::hit_samples::HitSampleInfoName::Default(d) => d.to_lowercase_str().to_owned(),
                rosu_map::section::hit_objects::hit_samples::HitSampleInfoName::File(f) => format!("F{}", hex(f.as_bytes())),
            };
            format!("{}/{}", n, crate::hitobj::bank_idx(s.bank))
        })
        .collect::<Vec<_>>()
        .join(",")
}

/// the part of an object that the text format carries (property C02)
fn preserved_obj(h: &mut HitObject, with_curve: bool) -> String {
    let t = h64(h.start_time);
    match &mut h.kind {
        HitObjectKind::Circle(c) => format!("C t={t} p={}:{} nc={} co={} s={}", h32(c.pos.x), h32(c.pos.y), b(c.new_combo), c.combo_offset, names_banks(&h.samples)),
        HitObjectKind::Slider(s) => {
            // "consecutive explicit Catmull segments" are outside the preserved view: a Catmull mark
            // inside a Catmull run is dropped here, and the curve of such a path is not compared
            let mut run_catmull = false;
            let mut merged = false;
            let cps_v: Vec<String> = s
                .path
                .control_points()
                .iter()
                .map(|c| {
                    let mut ty = crate::hitobj::fmt_path_type(c.path_type);
                    if ty == "C" {
                        if run_catmull {
                            ty = "-".to_owned();
                            merged = true;
                        }
                        run_catmull = true;
                    } else if ty != "-" {
                        run_catmull = false;
                    }
                    format!("{}:{}:{}", h32(c.pos.x), h32(c.pos.y), ty)
                })
                .collect();
            let cps = if merged { "<consecutive-explicit-catmull>".to_owned() } else { cps_v.join(";") };
            let with_curve = with_curve && !merged;
            let ns: Vec<String> = s.node_samples.iter().map(|n| names_banks(n)).collect();
            let curve = if with_curve {
                let c = s.path.curve();
                let p: Vec<String> = c.path().iter().map(|q| format!("{}:{}", h32(q.x), h32(q.y))).collect();
                let l: Vec<String> = c.lengths().iter().map(|x| h64(*x)).collect();
                format!(" curve={}|{}", p.join(","), l.join(","))
            } else {
                String::new()
            };
            format!(
                "S t={t} p={}:{} nc={} co={} rc={} vel={} cps={} nodes={} ns={} s={}{}",
                h32(s.pos.x), h32(s.pos.y), b(s.new_combo), s.combo_offset, s.repeat_count, h64(s.velocity), cps,
                s.node_samples.len(), ns.join("|"), names_banks(&h.samples), curve
            )
        }
        HitObjectKind::Spinner(s) => format!("N t={t} d={} nc={} s={}", h64(s.duration), b(s.new_combo), names_banks(&h.samples)),
        HitObjectKind::Hold(s) => format!("H t={t} x={} d={} s={}", h32(s.pos_x), h64(s.duration), names_banks(&h.samples)),
    }
}

fn timelines(m: &Beatmap, probes: &[f64]) -> String {
    let cp = &m.control_points;
    probes
        .iter()
        .map(|&t| {
            let sv = cp.difficulty_point_at(t).map_or(1.0, |p| p.slider_velocity);
            let (kiai, scroll) = cp.effect_point_at(t).map_or((false, 1.0), |p| (p.kiai, p.scroll_speed));
            format!("{}>{}/{}/{}", h64(t), h64(sv), b(kiai), h64(scroll))
        })
        .collect::<Vec<_>>()
        .join(",")
}

/// the preserved view of property C02 as a list of (label, value)
pub fn preserved(m: &mut Beatmap, probes: &[f64], with_curve: bool) -> Vec<(String, String)> {
    let mut v: Vec<(String, String)> = Vec::new();
    let mut put = |k: &str, s: String| v.push((k.to_owned(), s));
    put("format_version", m.format_version.to_string());
    put("audio_file", hex(m.audio_file.as_bytes()));
    put("audio_lead_in", h64(m.audio_lead_in));
    put("preview_time", m.preview_time.to_string());
    put("stack_leniency", h32(m.stack_leniency));
    put("mode", mode_idx(m.mode).to_string());
    put("letterbox_in_breaks", b(m.letterbox_in_breaks).to_string());
    if m.mode == GameMode::Mania {
        put("special_style", b(m.special_style).to_string());
    }
    put("widescreen_storyboard", b(m.widescreen_storyboard).to_string());
    put("epilepsy_warning", b(m.epilepsy_warning).to_string());
    put("samples_match_playback_rate", b(m.samples_match_playback_rate).to_string());
    put("countdown", cd_idx(m.countdown).to_string());
    if m.countdown_offset > 0 {
        put("countdown_offset", m.countdown_offset.to_string());
    }
    put("editor", crate::dump_editor!(m));
    put("title", hex(m.title.as_bytes()));
    put("title_unicode", hex(m.title_unicode.as_bytes()));
    put("artist", hex(m.artist.as_bytes()));
    put("artist_unicode", hex(m.artist_unicode.as_bytes()));
    put("creator", hex(m.creator.as_bytes()));
    put("version", hex(m.version.as_bytes()));
    put("source", hex(m.source.as_bytes()));
    put("tags", hex(m.tags.as_bytes()));
    if m.beatmap_id > 0 {
        put("beatmap_id", m.beatmap_id.to_string());
    }
    if m.beatmap_set_id > 0 {
        put("beatmap_set_id", m.beatmap_set_id.to_string());
    }
    put("difficulty", crate::dump_difficulty!(m));
    put("events", dump_events(&m.background_file, &m.breaks));
    put("colors", dump_colors(&m.custom_combo_colors, &m.custom_colors));
    let tp: Vec<String> = m
        .control_points
        .timing_points
        .iter()
        .map(|p| format!("{}:{}:{}:{}", h64(p.time), h64(p.beat_len), b(p.omit_first_bar_line), p.time_signature.numerator.get()))
        .collect();
    put("timing_points", tp.join(","));
    put("timelines", timelines(m, probes));
    put("object_count", m.hit_objects.len().to_string());
    for (i, h) in m.hit_objects.iter_mut().enumerate() {
        put(&format!("object[{i}]"), preserved_obj(h, with_curve));
    }
    v
}

fn probes_of(ms: &[&Beatmap]) -> Vec<f64> {
    let mut ts: Vec<f64> = vec![f64::NEG_INFINITY];
    for m in ms {
        let cp = &m.control_points;
        ts.extend(cp.timing_points.iter().map(|p| p.time));
        ts.extend(cp.difficulty_points.iter().map(|p| p.time));
        ts.extend(cp.effect_points.iter().map(|p| p.time));
        ts.extend(cp.sample_points.iter().map(|p| p.time));
        for h in &m.hit_objects {
            ts.push(h.start_time);
        }
    }
    ts.retain(|t| !t.is_nan());
    ts.sort_by(|a, b| a.total_cmp(b));
    ts.dedup_by(|a, b| a.to_bits() == b.to_bits());
    ts
}

pub fn roundtrip(bytes: &[u8]) -> Result<(Beatmap, String, Beatmap), String> {
    let mut m1 = rosu_map::from_bytes::<Beatmap>(bytes).map_err(|e| format!("err {}", kind_tag(e.kind())))?;
    let text = m1.encode_to_string().map_err(|e| format!("encode err {}", kind_tag(e.kind())))?;
    let m2 = rosu_map::from_bytes::<Beatmap>(text.as_bytes()).map_err(|e| format!("err2 {}", kind_tag(e.kind())))?;
    Ok((m1, text, m2))
}

pub fn impl_rt(bytes: &[u8]) -> String {
    match roundtrip(bytes) {
        Ok((m1, t, m2)) => format!("ok {} ## {} ## {}", dump_beatmap(&m1), hex(t.as_bytes()), dump_beatmap(&m2)),
        Err(e) => e,
    }
}

fn diff_views(a: &[(String, String)], b: &[(String, String)]) -> Option<String> {
    if a.len() != b.len() {
        let ka: Vec<&String> = a.iter().map(|x| &x.0).collect();
        let kb: Vec<&String> = b.iter().map(|x| &x.0).collect();
        let missing: Vec<&&String> = ka.iter().filter(|k| !kb.contains(k)).collect();
        let extra: Vec<&&String> = kb.iter().filter(|k| !ka.contains(k)).collect();
        return Some(format!("field sets differ: missing after round trip {missing:?}, new {extra:?}"));
    }
    for ((ka, va), (kb, vb)) in a.iter().zip(b) {
        if ka == kb && ka.starts_with("object[") && (va.contains("<consecutive-explicit-catmull>") || vb.contains("<consecutive-explicit-catmull>")) {
            // excluded from the preserved view: compare everything but control points and curve
            let strip = |v: &str| v.split(' ').filter(|t| !t.starts_with("cps=") && !t.starts_with("curve=")).collect::<Vec<_>>().join(" ");
            if strip(va) == strip(vb) {
                continue;
            }
        }
        if ka != kb || va != vb {
            // name the first differing space-separated token
            let ta: Vec<&str> = va.split(' ').collect();
            let tb: Vec<&str> = vb.split(' ').collect();
            let i = ta.iter().zip(&tb).position(|(x, y)| x != y).unwrap_or(ta.len().min(tb.len()));
            let (xa, xb) = (ta.get(i).copied().unwrap_or("<end>"), tb.get(i).copied().unwrap_or("<end>"));
            let key = xa.split('=').next().unwrap_or("");
            return Some(format!("{ka}.{key}: before [{}] after [{}]", &xa[..xa.len().min(400)], &xb[..xb.len().min(400)]));
        }
    }
    None
}

/// 4-ulp policy (DESIGN 3.3 (b)) for values carried only through an arithmetic inverse: slider
/// velocity and everything computed from it. Returns true if the two object views differ only there.
fn only_inverse_drift(va: &str, vb: &str) -> bool {
    let ta: Vec<&str> = va.split(' ').collect();
    let tb: Vec<&str> = vb.split(' ').collect();
    if ta.len() != tb.len() {
        return false;
    }
    for (x, y) in ta.iter().zip(&tb) {
        if x == y {
            continue;
        }
        match (x.strip_prefix("vel="), y.strip_prefix("vel=")) {
            (Some(p), Some(q)) => {
                let (Ok(p), Ok(q)) = (u64::from_str_radix(p, 16), u64::from_str_radix(q, 16)) else { return false };
                if p.abs_diff(q) > 4 {
                    return false;
                }
            }
            _ => return false,
        }
    }
    true
}

/// domain of C02: hit-object lines and accepted timing-point lines in chronological order.
/// Also reports whether the `Mode` record comes after lines whose decoding depends on the mode.
fn domain(bytes: &[u8]) -> (bool, bool) {
    let Ok(p) = rosu_map::from_bytes::<Probe>(bytes) else { return (false, false) };
    let mut chrono = p.pre_objects.windows(2).all(|w| w[0].start_time <= w[1].start_time);
    let mut last_t = f64::NEG_INFINITY;
    let mut seen_dependent = false;
    let mut mode_after = false;
    for ((line, rej), sec) in p.log.iter().zip(&p.sections) {
        if *rej {
            continue;
        }
        match sec {
            5 => {
                seen_dependent = true;
                if let Some(t) = line.split(',').next().and_then(|t| t.trim().parse::<f64>().ok()) {
                    if t < last_t {
                        chrono = false;
                    }
                    last_t = t;
                }
            }
            7 => seen_dependent = true,
            0 => {
                let key = line.split(':').next().unwrap_or("").trim();
                if key == "Mode" && seen_dependent {
                    mode_after = true;
                }
            }
            _ => {}
        }
    }
    (chrono, mode_after)
}

/// two consecutive control points at the same position at least one of which starts a segment
/// (the legacy text format expresses segment starts by repeating a point, so such lists are ambiguous)
fn typed_point_repeats_predecessor(h: &HitObject) -> bool {
    let HitObjectKind::Slider(s) = &h.kind else { return false };
    !f17_free(s.path.control_points())
}

/// The exact shape of finding F17, transcribed from the Lean predicate `C04.F17Free` (Props/C04DecodedPaths.lean, where it is
/// proved that for every DECODED slider the shape half of representability holds exactly when this predicate does): going
/// through the control points after the (typed) first one with the type `T` of the current segment and the predecessor `a`,
///  * an UNTYPED point that repeats a TYPED predecessor must be the last point or stand directly before a typed point,
///  * a TYPED point of the current segment's type (not a perfect curve) that does not end its segment - the kind the encoder may
///    write implicitly, by repeating the point - must not repeat its predecessor and must not be Catmull (consecutive explicit
///    Catmull segments are outside the preserved view).
/// Lists outside this predicate are ambiguous in the legacy path string; lists inside it must read back exactly.
pub fn f17_free(cps: &[rosu_map::section::hit_objects::PathControlPoint]) -> bool {
    use rosu_map::section::hit_objects::{PathType, SplineType};
    let Some(first) = cps.first() else { return true };
    let Some(mut cur) = first.path_type else { return true };
    for i in 1..cps.len() {
        let (a, b, rest) = (&cps[i - 1], &cps[i], &cps[i + 1..]);
        let next_typed = rest.first().map_or(false, |c| c.path_type.is_some());
        let ends_seg = rest.first().map_or(true, |c| c.path_type.is_some());
        match b.path_type {
            None => {
                if b.pos == a.pos && a.path_type.is_some() && !(rest.is_empty() || next_typed) {
                    return false;
                }
            }
            Some(t) => {
                if t == cur && t != PathType::PERFECT_CURVE && !ends_seg && (t.kind == SplineType::Catmull || b.pos == a.pos) {
                    return false;
                }
                cur = t;
            }
        }
    }
    true
}

/// F20: the slider has no requested length and its computed distance is above the limit (131072) that the
/// decoder enforces on the length field
fn computed_length_above_limit(h: &mut HitObject) -> bool {
    let HitObjectKind::Slider(s) = &mut h.kind else { return false };
    s.path.expected_dist().is_none() && s.path.curve().dist() > 131072.0
}

/// F15 is only accepted as the explanation when the same file with the map's (final) `Mode` announced
/// before the first section header — and every other `Mode` record dropped, so that the mode is the same for
/// every line — round-trips cleanly.
fn mode_first_variant_passes(bytes: &[u8], m1: &Beatmap) -> bool {
    let Ok(text) = std::str::from_utf8(bytes) else { return false };
    let mut out = String::new();
    let mut done = false;
    for line in text.split_inclusive('\n') {
        if !done && crate::frame::ref_section(line.trim_end()).is_some() {
            out.push_str(&format!("[General]\nMode: {}\n", mode_idx(m1.mode)));
            done = true;
        }
        if line.split(':').next().map_or(false, |k| k.trim() == "Mode") && line.contains(':') {
            continue;
        }
        out.push_str(line);
    }
    if !done {
        return false;
    }
    let r = prop_rt_inner(out.as_bytes(), false);
    r.starts_with("OK")
}

pub fn prop_rt(bytes: &[u8]) -> String {
    prop_rt_inner(bytes, true)
}

fn prop_rt_inner(bytes: &[u8], explain: bool) -> String {
    let (mut m1, _t, mut m2) = match roundtrip(bytes) {
        Ok(x) => x,
        Err(e) => return format!("FAIL {e}"),
    };
    if explain {
        if let Some(d) = crate::util::path_roundtrip_check(&m1, &_t) {
            return format!("FAIL {d}");
        }
    }
    let (chrono, mode_after) = domain(bytes);
    if !chrono {
        return "SKIP not-chronological".to_owned();
    }
    // domain of the property: chronological timing-point and object lines (checked on the decoded map:
    // objects come out sorted anyway; timing lines are judged by the generator, which tags the case)
    let probes = probes_of(&[&m1, &m2]);
    let a = preserved(&mut m1, &probes, true);
    let b2 = preserved(&mut m2, &probes, true);
    match diff_views(&a, &b2) {
        None => "OK".to_owned(),
        Some(d) => {
            // tolerate ≤4 ulp drift of slider velocity (100/(100/sv) is not exact in IEEE) and report it
            if a.len() == b2.len() && a.iter().zip(&b2).all(|((ka, va), (_, vb))| va == vb || (ka.starts_with("object[") && only_inverse_drift(va, vb))) {
                return "OK velocity-drift<=4ulp".to_owned();
            }
            let mut tags = Vec::new();
            if !explain {
                return format!("FAIL {d}");
            }
            if mode_after && mode_first_variant_passes(bytes, &m1) {
                tags.push("mode-record-after-timing-or-object-lines");
            }
            if m1.audio_file.contains("//") || m1.background_file.contains("//") {
                tags.push("file-name-contains-double-slash");
            }
            if m1.hit_objects.iter().any(typed_point_repeats_predecessor) {
                tags.push("repeated-point-at-segment-start");
            }
            if m1.hit_objects.iter().any(|h| {
                h.samples.iter().any(|x| match &x.name {
                    rosu_map::section::hit_objects::hit_samples::HitSampleInfoName::File(f) => f.trim_end() != f.as_str(),
                    _ => false,
                })
            }) {
                tags.push("sample-file-name-ends-with-white-space");
            }
            {
                // F22: control points stored at distinct times (distinct under total_cmp) that are closer than the decoder's
                // grouping epsilon: the collections keep them apart, the decoder groups their lines when they are adjacent
                let cp = m1.control_points.clone();
                let mut ts: Vec<f64> = cp.timing_points.iter().map(|p| p.time)
                    .chain(cp.difficulty_points.iter().map(|p| p.time))
                    .chain(cp.effect_points.iter().map(|p| p.time))
                    .chain(cp.sample_points.iter().map(|p| p.time))
                    .collect();
                // … and the times at which the encoder adds sample points of its own: object starts, ends and slider nodes
                for h in m1.hit_objects.iter_mut() {
                    ts.push(h.start_time);
                    match &mut h.kind {
                        HitObjectKind::Slider(sl) => {
                            let spans = sl.span_count();
                            let dur = sl.duration();
                            for k in 1..=spans.clamp(0, 64) {
                                ts.push(h.start_time + dur * f64::from(k) / f64::from(spans.max(1)));
                            }
                        }
                        HitObjectKind::Spinner(sp) => ts.push(h.start_time + sp.duration),
                        HitObjectKind::Hold(ho) => ts.push(h.start_time + ho.duration),
                        HitObjectKind::Circle(_) => {}
                    }
                }
                ts.retain(|t| !t.is_nan());
                ts.sort_by(|a, b| a.total_cmp(b));
                ts.dedup_by(|a, b| a.to_bits() == b.to_bits());
                if ts.windows(2).any(|w| (w[1] - w[0]).abs() < f64::EPSILON) {
                    tags.push("control-points-within-epsilon");
                }
            }
            if m1.hit_objects.iter_mut().any(computed_length_above_limit) {
                tags.push("computed-length-above-parse-limit");
            }
            // F25 / F26: the encoder writes a spinner's / hold note's END time `start + duration`; the decoder stores
            // `max(end - start, 0)` resp. `max(start, end) - start`. In doubles (start + d) - start need not be d (F25: the
            // duration comes back one ulp off), and start + d can lie above the parse limit although start and the original end
            // did not (F26: the line is rejected when read back)
            if m1.hit_objects.iter().any(|h| match &h.kind {
                HitObjectKind::Spinner(sp) => ((h.start_time + sp.duration) - h.start_time).max(0.0).to_bits() != sp.duration.to_bits(),
                HitObjectKind::Hold(ho) => (h.start_time.max(h.start_time + ho.duration) - h.start_time).to_bits() != ho.duration.to_bits(),
                _ => false,
            }) {
                tags.push("end-time-rounding");
            }
            if m1.hit_objects.iter().any(|h| match &h.kind {
                HitObjectKind::Spinner(sp) => h.start_time + sp.duration > 2147483647.0,
                HitObjectKind::Hold(ho) => h.start_time + ho.duration > 2147483647.0,
                _ => false,
            }) {
                tags.push("end-time-above-parse-limit");
            }
            if m1.hit_objects.iter().any(|h| match &h.kind {
                HitObjectKind::Slider(s) => s.node_samples.iter().flatten().any(|x| matches!(x.name, rosu_map::section::hit_objects::hit_samples::HitSampleInfoName::File(_))),
                _ => false,
            }) {
                tags.push("node-sample-file-name");
            }
            format!("FAIL {d} explained={}", if tags.is_empty() { "unexplained".to_owned() } else { tags.join("+") })
        }
    }
}

const HEADERS: [&str; 8] = ["[General]", "[Editor]", "[Metadata]", "[Difficulty]", "[Events]", "[TimingPoints]", "[Colours]", "[HitObjects]"];

/// C04 on the encoding of decode(bytes)
pub fn prop_lines(bytes: &[u8]) -> String {
    let Ok(mut m1) = rosu_map::from_bytes::<Beatmap>(bytes) else { return "FAIL decode error".into() };
    let Ok(text) = m1.encode_to_string() else { return "FAIL encode error".into() };
    if let Some(d) = crate::util::path_roundtrip_check(&m1, &text) {
        return format!("FAIL {d}");
    }
    // the text reaches a sink that buffers: `encode` hands every byte over before it returns Ok (seed C04-s: the final flush removed;
    // a Vec / String target does not notice)
    {
        let mut bw = std::io::BufWriter::with_capacity(1 << 16, Vec::new());
        if m1.clone().encode(&mut bw).is_err() {
            return "FAIL encode into a BufWriter failed".into();
        }
        if bw.get_ref().as_slice() != text.as_bytes() {
            return format!("FAIL encode returned Ok but only {} of {} bytes reached the sink behind a BufWriter", bw.get_ref().len(), text.len());
        }
    }
    let lines: Vec<&str> = text.split('\n').collect();
    let Some(first) = lines.first() else { return "FAIL empty output".into() };
    if !first.starts_with("osu file format v") || first["osu file format v".len()..].parse::<i32>() != Ok(m1.format_version) {
        return format!("FAIL first line is not the version line: {first:?}");
    }
    let heads: Vec<&str> = lines.iter().copied().filter(|l| crate::frame::ref_section(l).is_some()).collect();
    if heads != HEADERS {
        return format!("FAIL section headers are {heads:?}");
    }
    // every non-blank line inside a section must reach its parser and be accepted
    let Ok(p) = rosu_map::from_bytes::<Probe>(text.as_bytes()) else { return "FAIL re-decode error".into() };
    let body: Vec<&str> = lines.iter().copied().skip(1).filter(|l| !l.is_empty() && crate::frame::ref_section(l).is_none()).collect();
    if p.log.len() != body.len() {
        let seen: Vec<&str> = p.log.iter().map(|x| x.0.as_str()).collect();
        let lost = body.iter().find(|l| !seen.contains(&l.trim_end()));
        return format!("FAIL {} of {} record lines reached a parser; e.g. lost {:?}", p.log.len(), body.len(), lost);
    }
    for (i, ((l, rej), want)) in p.log.iter().zip(&body).enumerate() {
        if l != want.trim_end() {
            return format!("FAIL line reached the parser as {l:?}, written as {want:?}");
        }
        if *rej {
            // F20: a slider line whose length field (the computed distance of a slider decoded without a requested
            // length) is above the decoder's limit of 131072 — and which is otherwise acceptable
            let f: Vec<&str> = l.split(',').collect();
            let is_slider = p.sections.get(i) == Some(&7) && f.len() > 7 && f[3].parse::<i32>().map_or(false, |t| t & 2 != 0);
            if is_slider && f[7].parse::<f64>().map_or(false, |x| x > 131072.0 && x.is_finite()) {
                let mut g = f.clone();
                g[7] = "1";
                // acceptance of the line with an in-range length is judged by a fresh HitObjects decode
                let repaired = format!("osu file format v{}\n\n[HitObjects]\n{}\n", m1.format_version, g.join(","));
                if rosu_map::from_str::<rosu_map::section::hit_objects::HitObjects>(&repaired).map_or(false, |h| h.hit_objects.len() == 1) {
                    return format!("FAIL encoder wrote a line its decoder rejects: {l:?} explained=computed-length-above-parse-limit");
                }
            }
            // F26: a spinner / hold line whose END time field (start + duration, rounded) is above the decoder's limit of
            // i32::MAX - and which is otherwise acceptable
            let ty = f.get(3).and_then(|t| t.parse::<i32>().ok()).unwrap_or(0);
            if p.sections.get(i) == Some(&7) && f.len() > 5 && ty & (8 | 128) != 0 && ty & 3 == 0 {
                let end_field = f[5].split(':').next().unwrap_or("");
                if end_field.parse::<f64>().map_or(false, |x| x > 2147483647.0 && x.is_finite()) {
                    let mut g: Vec<String> = f.iter().map(|x| (*x).to_owned()).collect();
                    g[5] = g[5].replacen(end_field, "2147483647", 1);
                    let repaired = format!("osu file format v{}\n\n[General]\nMode: {}\n\n[HitObjects]\n{}\n", m1.format_version, mode_idx(m1.mode), g.join(","));
                    if rosu_map::from_str::<rosu_map::section::hit_objects::HitObjects>(&repaired).map_or(false, |h| h.hit_objects.len() == 1) {
                        return format!("FAIL encoder wrote a line its decoder rejects: {l:?} explained=end-time-above-parse-limit");
                    }
                }
            }
            // ... and the sample point the encoder collects at such an end time (or at a slider's end / node time) is written
            // as a [TimingPoints] line with that time: the same finding
            if p.sections.get(i) == Some(&5) && f.len() >= 2 && f[0].parse::<f64>().map_or(false, |x| x > 2147483647.0 && x.is_finite()) {
                let mut g: Vec<String> = f.iter().map(|x| (*x).to_owned()).collect();
                g[0] = "2147483647".to_owned();
                let repaired = format!("osu file format v{}\n\n[General]\nMode: {}\n\n[TimingPoints]\n{}\n", m1.format_version, mode_idx(m1.mode), g.join(","));
                let ok = rosu_map::from_str::<rosu_map::section::timing_points::TimingPoints>(&repaired)
                    .map_or(false, |t| !t.control_points.sample_points.is_empty() || !t.control_points.timing_points.is_empty());
                if ok {
                    return format!("FAIL encoder wrote a line its decoder rejects: {l:?} explained=end-time-above-parse-limit");
                }
            }
            return format!("FAIL encoder wrote a line its decoder rejects: {l:?}");
        }
    }
    // no record is dropped silently: the number of objects / breaks / colours / timing points survives
    let m2 = p.map;
    if m2.hit_objects.len() != m1.hit_objects.len() {
        return format!("FAIL {} objects written, {} read back", m1.hit_objects.len(), m2.hit_objects.len());
    }
    if m2.breaks.len() != m1.breaks.len() || m2.custom_combo_colors.len() != m1.custom_combo_colors.len() {
        return "FAIL breaks / colours lost".into();
    }
    // no line is misread as a different record: every object comes back as the same kind, and a slider with the same
    // set of segment types, degrees included (lists with a typed point that repeats its predecessor are ambiguous in
    // the text format — finding F17, judged by C02 — and are left out here)
    for (i, (a, b)) in m1.hit_objects.iter().zip(&m2.hit_objects).enumerate() {
        if std::mem::discriminant(&a.kind) != std::mem::discriminant(&b.kind) {
            return format!("FAIL object {i} is read back as a different kind");
        }
        // ... with the same addition samples in the same banks, for circles, spinners and hold notes (file-named samples and the
        // per-node lists of sliders are left to C02: findings F18 / F21); seed C04-o: the addition bank taken from the file sample's entry
        let dflt = |hs: &[rosu_map::section::hit_objects::hit_samples::HitSampleInfo]| {
            // the additions (whistle / finish / clap): whether a normal sample stands next to a file-named one depends on the file
            // name surviving the line (finding F21, judged by C02)
            let v: Vec<_> = hs
                .iter()
                .filter(|s| matches!(&s.name, rosu_map::section::hit_objects::hit_samples::HitSampleInfoName::Default(d) if d.to_lowercase_str() != "hitnormal"))
                .cloned()
                .collect();
            names_banks(&v)
        };
        if !matches!(a.kind, HitObjectKind::Slider(_)) && dflt(&a.samples) != dflt(&b.samples) {
            return format!("FAIL object {i}: samples {} are read back as {}", dflt(&a.samples), dflt(&b.samples));
        }
        if let (HitObjectKind::Slider(sa), HitObjectKind::Slider(sb)) = (&a.kind, &b.kind) {
            if typed_point_repeats_predecessor(a) {
                continue;
            }
            let types = |s: &rosu_map::section::hit_objects::HitObjectSlider| {
                let mut t: Vec<String> = s.path.control_points().iter().filter_map(|c| c.path_type.map(|t| format!("{t:?}"))).collect();
                t.sort();
                t.dedup();
                t
            };
            if types(sa) != types(sb) {
                return format!("FAIL slider {i}: segment types {:?} are read back as {:?}", types(sa), types(sb));
            }
            // outside the ambiguous shape of F17 the control points read back exactly: positions and types, in order
            // (seed C04-k: an implicit segment start written where the reader splits elsewhere)
            let list = |s: &rosu_map::section::hit_objects::HitObjectSlider| {
                s.path.control_points().iter().map(|c| format!("{:x}:{:x}:{:?}", c.pos.x.to_bits(), c.pos.y.to_bits(), c.path_type)).collect::<Vec<_>>()
            };
            if list(sa) != list(sb) {
                return format!("FAIL slider {i}: {} control points {:?} are read back as {} {:?}", list(sa).len(), list(sa), list(sb).len(), list(sb));
            }
        }
    }
    // the background is written as a Background event and comes back as the background whatever its name ends in (seed C04-q: the
    // event-type token taken from a re-ordered enum: a `.avi` background read back as a video); names with `//` are finding F16
    if m2.background_file != m1.background_file && !m1.background_file.contains("//") {
        return format!("FAIL background file {:?} is read back as {:?}", m1.background_file, m2.background_file);
    }
    // no bookmark is dropped or changed (seed C04-v: `, ` as separator; the reader discards what does not parse, silently)
    if m2.bookmarks != m1.bookmarks {
        return format!("FAIL bookmarks {:?} are read back as {:?}", m1.bookmarks, m2.bookmarks);
    }
    // a timing point keeps its meter (seed C04-r: the numerator narrowed to a byte by the writer)
    if m2.control_points.timing_points.len() == m1.control_points.timing_points.len() {
        for (a, b) in m1.control_points.timing_points.iter().zip(&m2.control_points.timing_points) {
            if a.time_signature.numerator != b.time_signature.numerator {
                return format!("FAIL timing point at {}: meter {} is read back as {}", a.time, a.time_signature.numerator, b.time_signature.numerator);
            }
        }
    }
    if m2.control_points.timing_points.len() != m1.control_points.timing_points.len() {
        // F22: two stored timing points whose times differ by less than the decoder's grouping epsilon (possible only when
        // their lines were not adjacent in the input): the encoder writes them next to each other and the decoder merges them
        let close = m1.control_points.timing_points.windows(2).any(|w| (w[1].time - w[0].time).abs() < f64::EPSILON);
        let lost = m1.control_points.timing_points.len() - m2.control_points.timing_points.len().min(m1.control_points.timing_points.len());
        let pairs = m1.control_points.timing_points.windows(2).filter(|w| (w[1].time - w[0].time).abs() < f64::EPSILON).count();
        let tag = if close && lost <= pairs { " explained=timing-points-within-epsilon" } else { "" };
        return format!("FAIL {} timing points written, {} read back{tag}", m1.control_points.timing_points.len(), m2.control_points.timing_points.len());
    }
    format!("OK lines={}", body.len())
}

// --- C03 ---------------------------------------------------------------------------------------

fn s_of(hexv: &str) -> String {
    String::from_utf8_lossy(&unhex(hexv)).into_owned()
}

/// apply `field=value` to the map; returns false for an unknown field or unparsable value
pub fn apply_edit(m: &mut Beatmap, field: &str, v: &str) -> bool {
    let f64v = || u64::from_str_radix(v, 16).ok().map(f64::from_bits);
    let f32v = || u32::from_str_radix(v, 16).ok().map(f32::from_bits);
    let i32v = || v.parse::<i32>().ok();
    let boolv = || Some(v == "1");
    macro_rules! set {
        ($dst:expr, $val:expr) => {
            match $val {
                Some(x) => {
                    $dst = x;
                    true
                }
                None => false,
            }
        };
    }
    match field {
        "title" => set!(m.title, Some(s_of(v))),
        "title_unicode" => set!(m.title_unicode, Some(s_of(v))),
        "artist" => set!(m.artist, Some(s_of(v))),
        "artist_unicode" => set!(m.artist_unicode, Some(s_of(v))),
        "creator" => set!(m.creator, Some(s_of(v))),
        "version" => set!(m.version, Some(s_of(v))),
        "source" => set!(m.source, Some(s_of(v))),
        "tags" => set!(m.tags, Some(s_of(v))),
        "audio_file" => set!(m.audio_file, Some(s_of(v))),
        "background_file" => set!(m.background_file, Some(s_of(v))),
        "beatmap_id" => set!(m.beatmap_id, i32v()),
        "beatmap_set_id" => set!(m.beatmap_set_id, i32v()),
        "preview_time" => set!(m.preview_time, i32v()),
        "countdown_offset" => set!(m.countdown_offset, i32v()),
        "beat_divisor" => set!(m.beat_divisor, i32v()),
        "grid_size" => set!(m.grid_size, i32v()),
        "audio_lead_in" => set!(m.audio_lead_in, f64v()),
        "distance_spacing" => set!(m.distance_spacing, f64v()),
        "timeline_zoom" => set!(m.timeline_zoom, f64v()),
        "slider_multiplier" => set!(m.slider_multiplier, f64v()),
        "slider_tick_rate" => set!(m.slider_tick_rate, f64v()),
        "stack_leniency" => set!(m.stack_leniency, f32v()),
        "hp_drain_rate" => set!(m.hp_drain_rate, f32v()),
        "circle_size" => set!(m.circle_size, f32v()),
        "overall_difficulty" => set!(m.overall_difficulty, f32v()),
        "approach_rate" => set!(m.approach_rate, f32v()),
        "letterbox_in_breaks" => set!(m.letterbox_in_breaks, boolv()),
        "widescreen_storyboard" => set!(m.widescreen_storyboard, boolv()),
        "epilepsy_warning" => set!(m.epilepsy_warning, boolv()),
        "samples_match_playback_rate" => set!(m.samples_match_playback_rate, boolv()),
        "special_style" => set!(m.special_style, boolv()),
        "mode" => set!(m.mode, v.parse::<u8>().ok().map(GameMode::from)),
        "countdown" => set!(
            m.countdown,
            match v {
                "0" => Some(CountdownType::None),
                "1" => Some(CountdownType::Normal),
                "2" => Some(CountdownType::HalfSpeed),
                "3" => Some(CountdownType::DoubleSpeed),
                _ => None,
            }
        ),
        "bookmarks" => {
            m.bookmarks = if v == "-" { Vec::new() } else { v.split(',').filter_map(|x| x.parse().ok()).collect() };
            true
        }
        "breaks" => {
            m.breaks = if v == "-" {
                Vec::new()
            } else {
                v.split(',')
                    .filter_map(|p| {
                        let (a, b) = p.split_once(':')?;
                        Some(rosu_map::section::events::BreakPeriod {
                            start_time: f64::from_bits(u64::from_str_radix(a, 16).ok()?),
                            end_time: f64::from_bits(u64::from_str_radix(b, 16).ok()?),
                        })
                    })
                    .collect()
            };
            true
        }
        "combo_colors" => {
            m.custom_combo_colors = if v == "-" {
                Vec::new()
            } else {
                v.split(',')
                    .filter_map(|p| {
                        let c: Vec<u8> = p.split('.').filter_map(|x| x.parse().ok()).collect();
                        (c.len() == 4).then(|| rosu_map::section::colors::Color::new(c[0], c[1], c[2], c[3]))
                    })
                    .collect()
            };
            true
        }
        "custom_color" => {
            // hexname=r.g.b.a
            let Some((n, c)) = v.split_once('=') else { return false };
            let c: Vec<u8> = c.split('.').filter_map(|x| x.parse().ok()).collect();
            if c.len() != 4 {
                return false;
            }
            let name = s_of(n);
            let col = rosu_map::section::colors::Color::new(c[0], c[1], c[2], c[3]);
            match m.custom_colors.iter_mut().find(|x| x.name == name) {
                Some(o) => o.color = col,
                None => m.custom_colors.push(rosu_map::section::colors::CustomColor { name, color: col }),
            }
            true
        }
        _ => false,
    }
}

pub fn edited(bytes: &[u8], edits: &[&str]) -> Result<(Beatmap, String, Beatmap, Beatmap), String> {
    let mut m = rosu_map::from_bytes::<Beatmap>(bytes).map_err(|e| format!("err {}", kind_tag(e.kind())))?;
    let mut base = m.clone();
    let base_text = base.encode_to_string().map_err(|_| "encode err".to_owned())?;
    let base2 = rosu_map::from_bytes::<Beatmap>(base_text.as_bytes()).map_err(|_| "err".to_owned())?;
    for e in edits {
        let Some((f, v)) = e.split_once('=') else { return Err("bad-edit".into()) };
        if !apply_edit(&mut m, f, v) {
            return Err(format!("bad-edit {f}"));
        }
    }
    let text = m.encode_to_string().map_err(|e| format!("encode err {}", kind_tag(e.kind())))?;
    let m2 = rosu_map::from_bytes::<Beatmap>(text.as_bytes()).map_err(|e| format!("err2 {}", kind_tag(e.kind())))?;
    Ok((m, text, m2, base2))
}

pub fn impl_edit(bytes: &[u8], edits: &[&str]) -> String {
    match edited(bytes, edits) {
        Ok((_m, t, m2, _)) => format!("ok {} ## {}", hex(t.as_bytes()), dump_beatmap(&m2)),
        Err(e) => if e.starts_with("bad-edit") { "bad-edit".to_owned() } else { e },
    }
}

/// C03: the edited fields read back exactly the edited value; every other preserved field equals
/// what it is after an unedited round trip.
pub fn prop_edit(bytes: &[u8], edits: &[&str]) -> String {
    let (mut m, _t, mut m2, mut base2) = match edited(bytes, edits) {
        Ok(x) => x,
        Err(e) => return if e.starts_with("bad-edit") { format!("SKIP {e}") } else { format!("FAIL {e}") },
    };
    if let Some(d) = crate::util::path_roundtrip_check(&m, &_t) {
        return format!("FAIL {d}");
    }
    let names: Vec<&str> = edits.iter().filter_map(|e| e.split_once('=').map(|x| x.0)).collect();
    let probes = probes_of(&[&m, &m2, &base2]);
    let want = preserved(&mut m, &probes, false);
    let got = preserved(&mut m2, &probes, false);
    let base = preserved(&mut base2, &probes, false);
    let field_keys = |f: &str| -> Vec<&'static str> {
        match f {
            "bookmarks" | "beat_divisor" | "grid_size" | "distance_spacing" | "timeline_zoom" => vec!["editor"],
            "slider_multiplier" | "slider_tick_rate" | "hp_drain_rate" | "circle_size" | "overall_difficulty" | "approach_rate" => vec!["difficulty"],
            "background_file" | "breaks" => vec!["events"],
            "combo_colors" | "custom_color" => vec!["colors"],
            _ => vec![],
        }
    };
    let mut edited_keys: Vec<String> = Vec::new();
    for n in &names {
        edited_keys.push((*n).to_owned());
        for k in field_keys(n) {
            edited_keys.push(k.to_owned());
        }
    }
    // edits that the decoder's own map-level processing (C15) propagates into objects / timelines:
    // mode and slider multiplier (velocity, curves, scroll speed), tick rate, and breaks (forced new combo)
    let structural = names.iter().any(|n| matches!(*n, "mode" | "slider_multiplier" | "slider_tick_rate" | "breaks"));
    let get = |v: &[(String, String)], k: &str| v.iter().find(|x| x.0 == k).map(|x| x.1.clone());
    // 1. the edit survives
    for k in &edited_keys {
        let (w, g) = (get(&want, k), get(&got, k));
        if w != g {
            return format!("FAIL edited field {k}: set [{}] read back [{}]", w.unwrap_or("<absent>".into()), g.unwrap_or("<absent>".into()));
        }
    }
    // 2. frame: every other preserved field equals the unedited round trip
    for (k, g) in &got {
        if edited_keys.contains(k) {
            continue;
        }
        if structural && (k.starts_with("object[") || k == "timelines" || k == "timing_points" || k == "special_style") {
            continue;
        }
        if names.contains(&"mode") && k == "special_style" {
            continue;
        }
        match get(&base, k) {
            Some(bv) if &bv == g => {}
            other => {
                return format!("FAIL unedited field {k} changed: without edit [{}] with edit [{}]", other.unwrap_or("<absent>".into()), &g[..g.len().min(300)])
            }
        }
    }
    if !structural && got.len() != base.len() {
        let extra: Vec<&String> = got.iter().map(|x| &x.0).filter(|k| !base.iter().any(|y| &y.0 == *k) && !edited_keys.contains(k)).collect();
        let missing: Vec<&String> = base.iter().map(|x| &x.0).filter(|k| !got.iter().any(|y| &y.0 == *k) && !edited_keys.contains(k)).collect();
        if !extra.is_empty() || !missing.is_empty() {
            return format!("FAIL field set changed: extra {extra:?} missing {missing:?}");
        }
    }
    "OK".to_owned()
}

pub fn dispatch_impl(toks: &[&str]) -> Option<String> {
    match toks {
        ["rt", hexv] => Some(impl_rt(&unhex(hexv))),
        ["edit", hexv, edits @ ..] => Some(impl_edit(&unhex(hexv), edits)),
        _ => None,
    }
}

pub fn dispatch_prop(toks: &[&str]) -> Option<String> {
    match toks {
        ["rt", hexv] => Some(prop_rt(&unhex(hexv))),
        ["lines", hexv] => Some(prop_lines(&unhex(hexv))),
        ["edit", hexv, edits @ ..] => Some(prop_edit(&unhex(hexv), edits)),
        _ => None,
    }
}
