//! C11: record sections other than [General] — observation of the real parsers and an
//! independent table-driven reference written from the property text.
use rosu_map::section::colors::{Colors, ColorsState};
use rosu_map::section::difficulty::{Difficulty, DifficultyState};
use rosu_map::section::editor::{Editor, EditorState};
use rosu_map::section::events::{Events, EventsState};
use rosu_map::section::metadata::{Metadata, MetadataState};
use rosu_map::{DecodeBeatmap, DecodeState};

use crate::util::{hex, unhex};

pub fn h64(x: f64) -> String {
    if x.is_nan() { "nan".into() } else { format!("{:x}", x.to_bits()) }
}
pub fn h32(x: f32) -> String {
    if x.is_nan() { "nan".into() } else { format!("{:x}", x.to_bits()) }
}
pub fn hs(s: &str) -> String {
    hex(s.as_bytes())
}
pub fn join<T: AsRef<str>>(xs: &[T], sep: &str) -> String {
    if xs.is_empty() {
        "-".into()
    } else {
        xs.iter().map(AsRef::as_ref).collect::<Vec<_>>().join(sep)
    }
}
pub fn lines_of(hexes: &[&str]) -> Vec<String> {
    hexes.iter().map(|h| String::from_utf8_lossy(&unhex(h)).into_owned()).collect()
}

fn fmt_editor(e: &Editor) -> String {
    let bm: Vec<String> = e.bookmarks.iter().map(|b| b.to_string()).collect();
    format!("bm={} ds={} bd={} gs={} tz={}", join(&bm, ","), h64(e.distance_spacing), e.beat_divisor, e.grid_size, h64(e.timeline_zoom))
}
fn fmt_metadata(m: &Metadata) -> String {
    format!(
        "t={} tu={} a={} au={} c={} v={} s={} tg={} id={} sid={}",
        hs(&m.title), hs(&m.title_unicode), hs(&m.artist), hs(&m.artist_unicode), hs(&m.creator),
        hs(&m.version), hs(&m.source), hs(&m.tags), m.beatmap_id, m.beatmap_set_id
    )
}
fn fmt_difficulty(d: &Difficulty, har: bool) -> String {
    format!(
        "hp={} cs={} od={} ar={} sm={} tr={} har={}",
        h32(d.hp_drain_rate), h32(d.circle_size), h32(d.overall_difficulty), h32(d.approach_rate),
        h64(d.slider_multiplier), h64(d.slider_tick_rate), u8::from(har)
    )
}
fn fmt_events(e: &Events) -> String {
    let br: Vec<String> = e.breaks.iter().map(|b| format!("{}:{}", h64(b.start_time), h64(b.end_time))).collect();
    format!("bg={} br={}", hs(&e.background_file), join(&br, ","))
}
fn fmt_colors(c: &Colors) -> String {
    let combo: Vec<String> = c.custom_combo_colors.iter().map(|c| format!("{}.{}.{}.{}", c.0[0], c.0[1], c.0[2], c.0[3])).collect();
    let custom: Vec<String> = c
        .custom_colors
        .iter()
        .map(|x| format!("{}={}.{}.{}.{}", hs(&x.name), x.color.0[0], x.color.0[1], x.color.0[2], x.color.0[3]))
        .collect();
    format!("combo={} custom={}", join(&combo, ","), join(&custom, ","))
}

fn flags<S, E>(st: &mut S, lines: &[String], f: fn(&mut S, &str) -> Result<(), E>) -> String {
    lines.iter().map(|l| if f(st, l).is_ok() { '1' } else { '0' }).collect()
}

pub fn run_section(name: &str, lines: &[String]) -> Option<String> {
    Some(match name {
        "editor" => {
            let mut st = EditorState::create(14);
            let fl = flags(&mut st, lines, Editor::parse_editor);
            format!("ok={} {}", fl, fmt_editor(&st))
        }
        "metadata" => {
            let mut st = MetadataState::create(14);
            let fl = flags(&mut st, lines, Metadata::parse_metadata);
            format!("ok={} {}", fl, fmt_metadata(&st))
        }
        "difficulty" => {
            let mut st = DifficultyState::create(14);
            let fl = flags(&mut st, lines, Difficulty::parse_difficulty);
            format!("ok={} {}", fl, fmt_difficulty(&st.difficulty, st.has_approach_rate))
        }
        "events" => {
            let mut st = EventsState::create(14);
            let fl = flags(&mut st, lines, Events::parse_events);
            format!("ok={} {}", fl, fmt_events(&st))
        }
        "colors" => {
            let mut st = ColorsState::create(14);
            let fl = flags(&mut st, lines, Colors::parse_colors);
            format!("ok={} {}", fl, fmt_colors(&st))
        }
        _ => return None,
    })
}

// ---------------------------------------------------------------------------------------------
// reference interpretation (written from the property statement C11, not from the parsers)

pub fn strip_comment(l: &str) -> &str {
    match l.find("//") {
        Some(i) => l[..i].trim_end(),
        None => l.trim_end(),
    }
}
/// key = trimmed text before the first colon, value = trimmed text after the FIRST colon
pub fn key_value(l: &str) -> (&str, &str) {
    match l.find(':') {
        Some(i) => (l[..i].trim(), l[i + 1..].trim()),
        None => (l.trim(), ""),
    }
}
pub fn ref_i32(v: &str) -> Option<i32> {
    v.trim().parse::<i32>().ok().filter(|n| *n != i32::MIN)
}
pub fn ref_f64(v: &str) -> Option<f64> {
    v.trim().parse::<f64>().ok().filter(|x| !x.is_nan() && x.abs() <= 2_147_483_647.0)
}
pub fn ref_f32(v: &str) -> Option<f32> {
    v.trim().parse::<f32>().ok().filter(|x| !x.is_nan() && x.abs() <= 2_147_483_647_i32 as f32)
}
pub fn ref_clean_filename(s: &str) -> String {
    s.trim_matches('"').replace("\\\\", "\\").replace('\\', "/")
}
fn clampf(x: f64, lo: f64, hi: f64) -> f64 {
    if x < lo { lo } else if x > hi { hi } else { x }
}

fn ref_section(name: &str, lines: &[String]) -> Option<String> {
    Some(match name {
        "editor" => {
            let mut e = Editor::default();
            for l in lines {
                let (k, v) = key_value(strip_comment(l));
                match k {
                    "Bookmarks" => e.bookmarks = v.split(',').filter_map(|p| p.parse::<i32>().ok()).collect(),
                    "DistanceSpacing" => if let Some(x) = ref_f64(v) { e.distance_spacing = x },
                    "BeatDivisor" => if let Some(x) = ref_i32(v) { e.beat_divisor = x },
                    "GridSize" => if let Some(x) = ref_i32(v) { e.grid_size = x },
                    "TimelineZoom" => if let Some(x) = ref_f64(v) { e.timeline_zoom = x },
                    _ => {}
                }
            }
            fmt_editor(&e)
        }
        "metadata" => {
            let mut m = Metadata::default();
            for l in lines {
                let (k, v) = key_value(l);
                match k {
                    "Title" => m.title = v.to_owned(),
                    "TitleUnicode" => m.title_unicode = v.to_owned(),
                    "Artist" => m.artist = v.to_owned(),
                    "ArtistUnicode" => m.artist_unicode = v.to_owned(),
                    "Creator" => m.creator = v.to_owned(),
                    "Version" => m.version = v.to_owned(),
                    "Source" => m.source = v.to_owned(),
                    "Tags" => m.tags = v.to_owned(),
                    "BeatmapID" => if let Some(x) = ref_i32(v) { m.beatmap_id = x },
                    "BeatmapSetID" => if let Some(x) = ref_i32(v) { m.beatmap_set_id = x },
                    _ => {}
                }
            }
            fmt_metadata(&m)
        }
        "difficulty" => {
            let mut d = Difficulty::default();
            let mut ar_set = false;
            for l in lines {
                let (k, v) = key_value(strip_comment(l));
                match k {
                    "HPDrainRate" => if let Some(x) = ref_f32(v) { d.hp_drain_rate = x },
                    "CircleSize" => if let Some(x) = ref_f32(v) { d.circle_size = x },
                    "OverallDifficulty" => if let Some(x) = ref_f32(v) {
                        d.overall_difficulty = x;
                        if !ar_set { d.approach_rate = x }
                    },
                    "ApproachRate" => if let Some(x) = ref_f32(v) { d.approach_rate = x; ar_set = true },
                    "SliderMultiplier" => if let Some(x) = ref_f64(v) { d.slider_multiplier = clampf(x, 0.4, 3.6) },
                    "SliderTickRate" => if let Some(x) = ref_f64(v) { d.slider_tick_rate = clampf(x, 0.5, 8.0) },
                    _ => {}
                }
            }
            fmt_difficulty(&d, ar_set)
        }
        "events" => {
            let mut e = Events::default();
            for l in lines {
                let f: Vec<&str> = strip_comment(l).split(',').collect();
                if f.len() < 3 { continue }
                match f[0] {
                    "0" | "Background" => e.background_file = ref_clean_filename(f[2]),
                    "1" | "Video" => {
                        let name = ref_clean_filename(f[2]);
                        let b = name.as_bytes();
                        if b.len() >= 3 {
                            let ext = String::from_utf8_lossy(&b[b.len() - 3..]).to_ascii_lowercase();
                            if !["mp4", "mov", "avi", "flv", "mpg", "wmv", "m4v"].contains(&ext.as_str()) {
                                e.background_file = name;
                            }
                        }
                    }
                    "2" | "Break" => {
                        if let (Some(s), Some(en)) = (ref_f64(f[1]), ref_f64(f[2])) {
                            e.breaks.push(rosu_map::section::events::BreakPeriod { start_time: s, end_time: if en > s { en } else { s } });
                        }
                    }
                    "4" | "Sprite" => {
                        if e.background_file.is_empty() && f.len() >= 4 {
                            e.background_file = ref_clean_filename(f[3]);
                        }
                    }
                    _ => {}
                }
            }
            fmt_events(&e)
        }
        "colors" => {
            let mut c = Colors::default();
            for l in lines {
                let (k, v) = key_value(strip_comment(l));
                let f: Vec<&str> = v.split(',').map(str::trim).collect();
                if f.len() != 3 && f.len() != 4 { continue }
                let (Ok(r), Ok(g), Ok(b)) = (f[0].parse::<u8>(), f[1].parse::<u8>(), f[2].parse::<u8>()) else { continue };
                let col = rosu_map::section::colors::Color::new(r, g, b, 255);
                if k.starts_with("Combo") {
                    c.custom_combo_colors.push(col);
                } else if let Some(old) = c.custom_colors.iter_mut().find(|x| x.name == k) {
                    old.color = col;
                } else {
                    c.custom_colors.push(rosu_map::section::colors::CustomColor { name: k.to_owned(), color: col });
                }
            }
            fmt_colors(&c)
        }
        _ => return None,
    })
}

/// the same records inside a file: `[Section]` + the lines, as UTF-8 / UTF-8 with BOM / UTF-16LE / UTF-16BE, with and without
/// the version line, read with the section's own decoder — every recognised record must set the same field as when the
/// parser is called on the line directly. Only for lines the framing hands on unchanged (no blank / comment / header lines,
/// no trailing white space, no line breaks).
fn file_form(name: &str, lines: &[String], want: &str) -> Option<String> {
    let neutral = |l: &String| {
        !l.is_empty()
            && l.trim_end() == l.as_str()
            && !l.trim_start().starts_with("//")
            && !l.contains(['\n', '\r'])
            && crate::frame::ref_section(l).is_none()
    };
    if !lines.iter().all(neutral) {
        return None;
    }
    let header = match name {
        "editor" => "[Editor]",
        "metadata" => "[Metadata]",
        "difficulty" => "[Difficulty]",
        "events" => "[Events]",
        "colors" => "[Colours]",
        _ => return None,
    };
    // `has_approach_rate` is parser state, not part of the decoded value
    let want = want.split(" har=").next().unwrap_or(want);
    for with_version in [true, false] {
        let mut text = String::new();
        if with_version {
            text.push_str("osu file format v14\n\n");
        }
        text.push_str(header);
        text.push('\n');
        for l in lines {
            text.push_str(l);
            text.push('\n');
        }
        for (enc, bytes) in crate::reader::four_encodings(&text) {
            let got = match name {
                "editor" => rosu_map::from_bytes::<Editor>(&bytes).ok().map(|e| fmt_editor(&e)),
                "metadata" => rosu_map::from_bytes::<Metadata>(&bytes).ok().map(|e| fmt_metadata(&e)),
                "difficulty" => rosu_map::from_bytes::<Difficulty>(&bytes).ok().map(|e| fmt_difficulty(&e, false)),
                "events" => rosu_map::from_bytes::<Events>(&bytes).ok().map(|e| fmt_events(&e)),
                _ => rosu_map::from_bytes::<Colors>(&bytes).ok().map(|e| fmt_colors(&e)),
            };
            let got = got.unwrap_or_else(|| "decode-error".to_owned());
            let got = got.split(" har=").next().unwrap_or(&got).to_owned();
            if got != want {
                return Some(format!(
                    "the records inside a file ({enc}, {} version line) decode to [{got}], the section parser on the same lines gives [{want}]",
                    if with_version { "with" } else { "without" }
                ));
            }
        }
    }
    None
}

pub fn dispatch_impl(toks: &[&str]) -> Option<String> {
    match toks {
        ["sec", name, hexes @ ..] => run_section(name, &lines_of(hexes)),
        _ => None,
    }
}

pub fn dispatch_prop(toks: &[&str]) -> Option<String> {
    match toks {
        ["sec", name, hexes @ ..] => {
            let lines = lines_of(hexes);
            let got = run_section(name, &lines)?;
            let got_state = got.split_once(' ').map_or("", |x| x.1).to_owned();
            let want = ref_section(name, &lines)?;
            if got_state != want {
                return Some(format!("FAIL got[{got_state}] want[{want}]"));
            }
            Some(match file_form(name, &lines, &got_state) {
                Some(d) => format!("FAIL {d}"),
                None => "OK".into(),
            })
        }
        _ => None,
    }
}
