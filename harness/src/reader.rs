//! C08, C09 (read side), C10: delivery schedules, entry points, text encodings.
//!
//! Observations (`impl`) print the recording decoder's result exactly like `frame`.
//! Oracles (`prop`) are written against std (`String::from_utf8_lossy`, `char::decode_utf16`,
//! `BufReader`) and the independent framing transcription `spec_frame_text`, not against the model.
//! A `FAIL` line carries `explained=<tag>` only when the observation is reproduced exactly by the
//! defect-aware reading named by the tag; everything else is an unexplained failure.
use std::io::{self, BufReader, ErrorKind};
use std::sync::atomic::{AtomicUsize, Ordering};

use rosu_map::DecodeBeatmap;

use crate::frame::{fmt_rec, spec_frame_text, Rec, RecState};
use crate::util::{hex, kind_tag, parse_sched, unhex, Ev, SchedReader};

fn decode_sched(evs: Vec<Ev>) -> io::Result<Rec> {
    Rec::decode(SchedReader::new(evs))
}

fn from_bytes(bytes: &[u8]) -> String {
    fmt_rec(rosu_map::from_bytes::<Rec>(bytes))
}

fn sched_bytes(evs: &[Ev]) -> Vec<u8> {
    let mut v = Vec::new();
    for e in evs {
        if let Ev::Chunk(c) = e {
            v.extend_from_slice(c);
        }
    }
    v
}

fn first_fail(evs: &[Ev]) -> Option<ErrorKind> {
    evs.iter().find_map(|e| match e {
        Ev::Fail(k) => Some(*k),
        _ => None,
    })
}

/// number of bytes in the leading chunks of one or two bytes (before the first chunk of >= 3)
fn short_prefix(evs: &[Ev]) -> usize {
    let mut n = 0;
    for e in evs {
        match e {
            Ev::Chunk(c) if c.len() >= 3 => break,
            Ev::Chunk(c) => n += c.len(),
            Ev::Intr => {}
            Ev::Fail(_) | Ev::Eof => break,
        }
    }
    n
}

use crate::util::scratch_dir;

static COUNTER: AtomicUsize = AtomicUsize::new(0);

fn via_path(bytes: &[u8]) -> String {
    let n = COUNTER.fetch_add(1, Ordering::Relaxed);
    let path = scratch_dir().join(format!("{}-{}.osu", std::process::id(), n));
    std::fs::write(&path, bytes).expect("write scratch file");
    let res = rosu_map::from_path::<Rec>(&path);
    let _ = std::fs::remove_file(&path);
    fmt_rec(res)
}

/// `from_path` on a named pipe: a path whose metadata reports length 0 although the bytes are there, delivered by the
/// kernel in whatever pieces the writer's `write` calls and the pipe buffer produce (std::io::pipe + /proc/self/fd).
fn via_pipe_path(bytes: &[u8]) -> Option<String> {
    use std::io::Write;
    let (rd, mut wr) = std::io::pipe().ok()?;
    use std::os::fd::AsRawFd;
    let path = format!("/proc/self/fd/{}", rd.as_raw_fd());
    if !std::path::Path::new(&path).exists() {
        return None;
    }
    let data = bytes.to_vec();
    let h = std::thread::spawn(move || {
        // several writes so that the reader sees the content in pieces
        for c in data.chunks(4096) {
            if wr.write_all(c).is_err() {
                break;
            }
        }
        drop(wr);
    });
    let res = rosu_map::from_path::<Rec>(&path);
    drop(rd);
    let _ = h.join();
    Some(fmt_rec(res))
}

fn via_bufreader(cap: usize, bytes: &[u8]) -> String {
    fmt_rec(Rec::decode(BufReader::with_capacity(cap, bytes)))
}

fn via_str(bytes: &[u8]) -> Option<String> {
    let s = std::str::from_utf8(bytes).ok()?;
    Some(fmt_rec(rosu_map::from_str::<Rec>(s)))
}

pub fn four_encodings(text: &str) -> [(&'static str, Vec<u8>); 4] {
    let mut le = vec![0xFF, 0xFE];
    let mut be = vec![0xFE, 0xFF];
    for u in text.encode_utf16() {
        le.extend_from_slice(&u.to_le_bytes());
        be.extend_from_slice(&u.to_be_bytes());
    }
    let mut bom8 = vec![0xEF, 0xBB, 0xBF];
    bom8.extend_from_slice(text.as_bytes());
    [
        ("utf8", text.as_bytes().to_vec()),
        ("utf8bom", bom8),
        ("utf16le", le),
        ("utf16be", be),
    ]
}

#[derive(Copy, Clone, PartialEq, Eq, Debug)]
enum Enc {
    Utf8,
    Le,
    Be,
}

fn sniff(bytes: &[u8]) -> (Enc, &[u8]) {
    if let Some(r) = bytes.strip_prefix(&[0xEF, 0xBB, 0xBF]) {
        (Enc::Utf8, r)
    } else if let Some(r) = bytes.strip_prefix(&[0xFF, 0xFE]) {
        (Enc::Le, r)
    } else if let Some(r) = bytes.strip_prefix(&[0xFE, 0xFF]) {
        (Enc::Be, r)
    } else {
        (Enc::Utf8, bytes)
    }
}

fn units(enc: Enc, body: &[u8]) -> Vec<u16> {
    body.chunks_exact(2)
        .map(|p| match enc {
            Enc::Le => u16::from_le_bytes([p[0], p[1]]),
            _ => u16::from_be_bytes([p[0], p[1]]),
        })
        .collect()
}

fn lossy16(us: &[u16]) -> String {
    char::decode_utf16(us.iter().copied())
        .map(|r| r.unwrap_or(char::REPLACEMENT_CHARACTER))
        .collect()
}

/// The text a file denotes, by the statement of C10: BOM per the table, UTF-8 converted lossily
/// line by line (`String::from_utf8_lossy`), UTF-16 paired into code units (a trailing odd byte
/// cannot form a unit and is dropped), split at U+000A, unpaired surrogates replaced
/// (`char::decode_utf16`).
fn reference_text(bytes: &[u8]) -> String {
    let (enc, body) = sniff(bytes);
    match enc {
        Enc::Utf8 => body
            .split(|b| *b == b'\n')
            .map(|l| String::from_utf8_lossy(l).into_owned())
            .collect::<Vec<_>>()
            .join("\n"),
        _ => units(enc, body)
            .split(|u| *u == 0x000A)
            .map(lossy16)
            .collect::<Vec<_>>()
            .join("\n"),
    }
}

/// some UTF-16 code unit other than U+000A contains the byte 0x0A (finding F5)
fn stray_lf(enc: Enc, body: &[u8]) -> bool {
    enc != Enc::Utf8
        && units(enc, body)
            .iter()
            .any(|u| *u != 0x000A && (u & 0xFF == 0x0A || u >> 8 == 0x0A))
}

/// byte-level line splitting as the code performs it; `None` = the UTF-16LE extra byte is
/// missing at the very end (finding F6)
fn byte_level_lines(enc: Enc, body: &[u8]) -> Option<Vec<Vec<u8>>> {
    let mut lines = Vec::new();
    let mut p = 0;
    while p < body.len() {
        match body[p..].iter().position(|b| *b == 0x0A) {
            None => {
                lines.push(body[p..].to_vec());
                p = body.len();
            }
            Some(i) => {
                let mut end = p + i + 1;
                if enc == Enc::Le {
                    if end >= body.len() {
                        return None;
                    }
                    end += 1;
                }
                lines.push(body[p..end].to_vec());
                p = end;
            }
        }
    }
    Some(lines)
}

fn le_dangling(bytes: &[u8]) -> bool {
    let (enc, body) = sniff(bytes);
    enc == Enc::Le && byte_level_lines(enc, body).is_none()
}

/// the defect-aware reading of a UTF-16 file: lines cut at 0x0A *bytes*
fn byte_level_text(bytes: &[u8]) -> Option<String> {
    let (enc, body) = sniff(bytes);
    let lines = byte_level_lines(enc, body)?;
    Some(
        lines
            .iter()
            .map(|l| match enc {
                Enc::Utf8 => String::from_utf8_lossy(l).into_owned(),
                _ => lossy16(&units(enc, l)),
            })
            .map(|l| l.trim_end().to_owned())
            .collect::<Vec<_>>()
            .join("\n"),
    )
}

fn fmt_spec((version, calls): (i32, Vec<(u8, String)>)) -> String {
    fmt_rec(Ok(Rec(RecState { version, calls })))
}

/// judge one file against the text it denotes; `Ok(())` or the failure text
fn judge_text(bytes: &[u8]) -> Result<(), String> {
    let actual = from_bytes(bytes);
    let expected = fmt_spec(spec_frame_text(&reference_text(bytes)));
    if actual == expected {
        return Ok(());
    }
    let (enc, body) = sniff(bytes);
    let defect_aware = match byte_level_text(bytes) {
        Some(t) => fmt_spec(spec_frame_text(&t)),
        None => "err UnexpectedEof".to_owned(),
    };
    let mut tag = "unexplained";
    if actual == defect_aware {
        if le_dangling(bytes) {
            tag = "utf16le-dangling-lf";
        } else if stray_lf(enc, body) {
            tag = "utf16-stray-lf";
        }
    }
    Err(format!(
        "explained={tag} enc={enc:?} impl=[{}] expected=[{}]",
        short(&actual),
        short(&expected)
    ))
}

fn short(s: &str) -> String {
    if s.len() > 160 {
        format!("{}…", &s[..s.char_indices().take_while(|(i, _)| *i < 160).last().map_or(0, |(i, _)| i)])
    } else {
        s.to_owned()
    }
}

fn prop_delivery(evs: &[&str]) -> String {
    let sched = parse_sched(evs);
    if first_fail(&sched).is_some() {
        return "SKIP has-fault".to_owned();
    }
    let bytes = sched_bytes(&sched);
    let lost = short_prefix(&sched);
    let a = fmt_rec(decode_sched(sched));
    let b = from_bytes(&bytes);
    if a == b {
        return "OK".to_owned();
    }
    // a first chunk shorter than a BOM is consumed and lost (finding F4)?
    let tag = if lost > 0 && a == from_bytes(&bytes[lost..]) {
        "short-first-chunk"
    } else {
        "unexplained"
    };
    format!(
        "FAIL delivery-dependent explained={tag} lost={lost} sched=[{}] bytes=[{}]",
        short(&a),
        short(&b)
    )
}

fn prop_bufreader(cap: usize, bytes: &[u8]) -> String {
    let a = via_bufreader(cap, bytes);
    let b = from_bytes(bytes);
    if a == b {
        return "OK".to_owned();
    }
    let tag = if cap < 3 && bytes.len() > cap && a == from_bytes(&[]) {
        "short-first-chunk"
    } else {
        "unexplained"
    };
    format!(
        "FAIL delivery-dependent explained={tag} cap={cap} bufreader=[{}] bytes=[{}]",
        short(&a),
        short(&b)
    )
}

fn prop_same(what: &str, a: Option<String>, bytes: &[u8]) -> String {
    let Some(a) = a else {
        return "SKIP not-applicable".to_owned();
    };
    let b = from_bytes(bytes);
    if a == b {
        "OK".to_owned()
    } else {
        format!(
            "FAIL delivery-dependent explained=unexplained {what}=[{}] bytes=[{}]",
            short(&a),
            short(&b)
        )
    }
}

/// C09, read side: the first fatal error of the schedule is what `decode` returns; without one,
/// `decode` does not fail; `Interrupted` results do not change the outcome.
fn prop_fault(evs: &[&str]) -> String {
    let sched = parse_sched(evs);
    let without_intr: Vec<Ev> = sched
        .iter()
        .filter(|e| !matches!(e, Ev::Intr))
        .cloned()
        .collect();
    let has_intr = without_intr.len() != sched.len();
    let res = decode_sched(sched.clone());
    let a = fmt_rec(res);
    if has_intr {
        let b = fmt_rec(decode_sched(without_intr));
        if a != b {
            return format!(
                "FAIL interrupted-not-transparent explained=unexplained with=[{}] without=[{}]",
                short(&a),
                short(&b)
            );
        }
    }
    match first_fail(&sched) {
        Some(k) => {
            let want = format!("err {}", kind_tag(k));
            if a == want {
                "OK".to_owned()
            } else {
                format!(
                    "FAIL fault-not-surfaced explained=unexplained want=[{want}] got=[{}]",
                    short(&a)
                )
            }
        }
        None => {
            if !a.starts_with("err ") {
                return "OK".to_owned();
            }
            // an error although the reader never failed
            let bytes = sched_bytes(&sched);
            let seen = &bytes[short_prefix(&sched)..];
            let tag = if a == "err UnexpectedEof" && le_dangling(seen) {
                "utf16le-dangling-lf"
            } else {
                "unexplained"
            };
            format!("FAIL err-without-fault explained={tag} got=[{a}]")
        }
    }
}

fn prop_reftext(bytes: &[u8]) -> String {
    match judge_text(bytes) {
        Ok(()) => "OK".to_owned(),
        Err(e) => format!("FAIL text-not-transparent {e}"),
    }
}

/// C10: the same text in four encodings.
fn prop_enc4(bytes: &[u8]) -> String {
    let Ok(text) = std::str::from_utf8(bytes) else {
        return "SKIP not-utf8".to_owned();
    };
    if text.starts_with('\u{FEFF}') {
        return "SKIP leading-U+FEFF".to_owned();
    }
    let expected = fmt_spec(spec_frame_text(text));
    let mut fails = Vec::new();
    for (name, data) in four_encodings(text) {
        let actual = from_bytes(&data);
        if actual == expected {
            continue;
        }
        // judge_text recomputes the reference from the encoded bytes (must agree with `text`)
        match judge_text(&data) {
            Ok(()) => fails.push(format!("{name}: explained=unexplained reference-mismatch")),
            Err(e) => fails.push(format!("{name}: {e}")),
        }
    }
    if fails.is_empty() {
        "OK".to_owned()
    } else {
        format!("FAIL encodings-disagree {}", fails.join(" ; "))
    }
}

pub fn dispatch_impl(toks: &[&str]) -> Option<String> {
    match toks {
        ["bufreader", cap, h] => Some(via_bufreader(cap.parse().ok()?, &unhex(h))),
        ["fromstr", h] => Some(via_str(&unhex(h)).unwrap_or_else(|| "not-utf8".to_owned())),
        ["frompath", h] => Some(via_path(&unhex(h))),
        ["faultsched", evs @ ..] => Some(fmt_rec(decode_sched(parse_sched(evs)))),
        ["reftext", h] => Some(from_bytes(&unhex(h))),
        ["enc4", h] => {
            let bytes = unhex(h);
            let text = String::from_utf8_lossy(&bytes);
            Some(
                four_encodings(&text)
                    .iter()
                    .map(|(_, d)| from_bytes(d))
                    .collect::<Vec<_>>()
                    .join(" | "),
            )
        }
        _ => None,
    }
}

pub fn dispatch_prop(toks: &[&str]) -> Option<String> {
    match toks {
        ["framesched", evs @ ..] => Some(prop_delivery(evs)),
        ["bufreader", cap, h] => Some(prop_bufreader(cap.parse().ok()?, &unhex(h))),
        ["fromstr", h] => {
            let b = unhex(h);
            let r = prop_same("from_str", via_str(&b), &b);
            Some(if r == "OK" { entry_points(&b).map_or(r, |d| format!("FAIL {d}")) } else { r })
        }
        ["frompath", h] => {
            let b = unhex(h);
            let mut r = prop_same("from_path", Some(via_path(&b)), &b);
            if r == "OK" {
                // the same bytes behind a path that is not a regular file (seed C08-j: buffer sized from the metadata length)
                r = match via_pipe_path(&b) {
                    Some(o) => prop_same("from_path(pipe)", Some(o), &b),
                    None => r,
                };
            }
            Some(if r == "OK" { entry_points(&b).map_or(r, |d| format!("FAIL {d}")) } else { r })
        }
        ["faultsched", evs @ ..] => Some(prop_fault(evs)),
        ["pathfault", what] => Some(prop_pathfault(what)),
        ["reftext", h] => Some(prop_reftext(&unhex(h))),
        ["enc4", h] => Some(prop_enc4(&unhex(h))),
        _ => None,
    }
}

/// every public way of handing the same bytes to the full decoder gives the same `Beatmap`: the generic functions, the
/// inherent `Beatmap::from_bytes` / `from_path` wrappers, `str::parse` (`FromStr`) and `Beatmap::decode` on a reader.
pub fn entry_points(bytes: &[u8]) -> Option<String> {
    use rosu_map::Beatmap;
    let want = rosu_map::from_bytes::<Beatmap>(bytes).ok();
    let mut got: Vec<(&str, Option<Beatmap>)> = vec![
        ("Beatmap::from_bytes", Beatmap::from_bytes(bytes).ok()),
        ("Beatmap::decode(&[u8])", Beatmap::decode(bytes).ok()),
        ("Beatmap::decode(Cursor)", Beatmap::decode(std::io::Cursor::new(bytes)).ok()),
    ];
    if let Ok(s) = std::str::from_utf8(bytes) {
        got.push(("str::parse::<Beatmap>", s.parse::<Beatmap>().ok()));
        got.push(("rosu_map::from_str", rosu_map::from_str::<Beatmap>(s).ok()));
    }
    let n = COUNTER.fetch_add(1, Ordering::Relaxed);
    let path = scratch_dir().join(format!("{}-ep{}.osu", std::process::id(), n));
    if std::fs::write(&path, bytes).is_ok() {
        got.push(("Beatmap::from_path", Beatmap::from_path(&path).ok()));
        got.push(("rosu_map::from_path", rosu_map::from_path::<Beatmap>(&path).ok()));
        let _ = std::fs::remove_file(&path);
    }
    // compared through `Debug`: a NaN inside (a degenerate curve) must not make equal maps look different
    let want = format!("{want:?}");
    for (name, g) in got {
        if format!("{g:?}") != want {
            return Some(format!("delivery-dependent explained=unexplained {name} gives a different Beatmap than rosu_map::from_bytes"));
        }
    }
    None
}

/// C09 through `from_path`: a file that opens but whose reads fail (`/proc/self/mem` at offset 0: EIO; a directory:
/// EISDIR) must give `Err` from every decoder, never a (default) map.
/// `encode_to_path` onto a target that opens and then refuses every write (`/dev/full` behind a symbolic link, once with a UTF-8 name
/// and once with a name that is not valid UTF-8): an error is returned, nothing panics (seed C09-t: the file name unwrapped as UTF-8
/// on the error path only)
fn prop_encpathfull() -> String {
    use std::os::unix::ffi::OsStrExt;
    if !std::path::Path::new("/dev/full").exists() {
        return "SKIP no-/dev/full".to_owned();
    }
    let Ok(map) = rosu_map::from_str::<rosu_map::Beatmap>("osu file format v14\n\n[HitObjects]\n64,64,500,1,0,0:0:0:0:\n") else { return "SKIP".to_owned() };
    let dir = scratch_dir();
    for name in [&b"full-target.osu"[..], &b"map\xff.osu"[..], &b"\xe9t\xe9.osu"[..]] {
        let link = dir.join(std::ffi::OsStr::from_bytes(name));
        let _ = std::fs::remove_file(&link);
        if std::os::unix::fs::symlink("/dev/full", &link).is_err() {
            continue;
        }
        let mut m = map.clone();
        let r = std::panic::catch_unwind(std::panic::AssertUnwindSafe(|| m.encode_to_path(&link)));
        let _ = std::fs::remove_file(&link);
        match r {
            Err(_) => return format!("FAIL encode_to_path panics when every write to {:?} fails", String::from_utf8_lossy(name)),
            Ok(Ok(())) => return format!("FAIL encode_to_path returns Ok although every write to {:?} fails", String::from_utf8_lossy(name)),
            Ok(Err(_)) => {}
        }
    }
    "OK".to_owned()
}

fn prop_pathfault(what: &str) -> String {
    use std::io::Read;
    if what == "full" {
        return prop_encpathfull();
    }
    let path = match what {
        "mem" => std::path::PathBuf::from("/proc/self/mem"),
        "dir" => scratch_dir(),
        _ => return "SKIP unknown".to_owned(),
    };
    // premise: the path opens and the first read fails
    let Ok(mut f) = std::fs::File::open(&path) else { return "SKIP cannot-open".to_owned() };
    let mut buf = [0u8; 16];
    let Err(want) = f.read(&mut buf) else { return "SKIP read-succeeds".to_owned() };
    macro_rules! chk {
        ($($t:ty),*) => {$(
            match rosu_map::from_path::<$t>(&path) {
                Err(e) if e.kind() == want.kind() => {}
                Err(e) => return format!("FAIL from_path::<{}> returns err {} for a reader failing with {}", stringify!($t), kind_tag(e.kind()), kind_tag(want.kind())),
                Ok(_) => return format!("FAIL from_path::<{}> returns a map although every read fails with {}", stringify!($t), kind_tag(want.kind())),
            }
        )*};
    }
    chk!(rosu_map::Beatmap, rosu_map::section::general::General, rosu_map::section::editor::Editor, rosu_map::section::metadata::Metadata,
         rosu_map::section::difficulty::Difficulty, rosu_map::section::events::Events, rosu_map::section::colors::Colors,
         rosu_map::section::timing_points::TimingPoints, rosu_map::section::hit_objects::HitObjects);
    "OK".to_owned()
}

#[allow(dead_code)]
fn _unused() {
    let _ = hex(&[]);
}
