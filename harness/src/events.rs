//! C20: the slider event stream of the real `SliderEventsIter` (public API) and an eager reference
//! written from the property text.
//!
//! Requests (same as lean/RosuModel/Model/Cmds/Events.lean):
//! `sev <start> <spanDur> <velocity> <tickDist> <totalDist> <spanCount> [<pre> [<k>]]`
//! `sevseq <pre> (<start> <spanDur> <velocity> <tickDist> <totalDist> <spanCount> <k>)*`
use std::fmt::Write;
use std::panic::{self, AssertUnwindSafe};

use rosu_map::section::hit_objects::{SliderEvent, SliderEventType, SliderEventsIter};

#[derive(Clone, Copy)]
struct Use {
    start: f64,
    dur: f64,
    vel: f64,
    tick: f64,
    total: f64,
    n: i32,
    take: Option<usize>,
}

fn f64_of_hex(s: &str) -> Option<f64> {
    u64::from_str_radix(s, 16).ok().map(f64::from_bits)
}

fn parse_take(s: &str) -> Option<usize> {
    if s == "all" {
        None
    } else {
        Some(s.parse().unwrap_or(0))
    }
}

fn parse_uses(toks: &[&str]) -> Option<Vec<Use>> {
    if toks.len() % 7 != 0 {
        return None;
    }
    toks.chunks_exact(7)
        .map(|c| {
            Some(Use {
                start: f64_of_hex(c[0])?,
                dur: f64_of_hex(c[1])?,
                vel: f64_of_hex(c[2])?,
                tick: f64_of_hex(c[3])?,
                total: f64_of_hex(c[4])?,
                n: c[5].parse().ok()?,
                take: parse_take(c[6]),
            })
        })
        .collect()
}

fn parse_request(toks: &[&str]) -> Option<(usize, Vec<Use>)> {
    match toks {
        ["sev", s, d, v, t, l, n, opt @ ..] => {
            let (pre, k) = match opt {
                [] => ("0", "all"),
                [pre] => (*pre, "all"),
                [pre, k, ..] => (*pre, *k),
            };
            Some((pre.parse().unwrap_or(0), parse_uses(&[s, d, v, t, l, n, k])?))
        }
        ["sevseq", pre, rest @ ..] => Some((pre.parse().unwrap_or(0), parse_uses(rest)?)),
        _ => None,
    }
}

fn junk_buf(pre: usize) -> Vec<SliderEvent> {
    (0..pre)
        .map(|i| SliderEvent {
            kind: SliderEventType::Tick,
            span_idx: 1000 + i as i32,
            span_start_time: i as f64,
            time: (2 * i) as f64,
            path_progress: 0.5,
        })
        .collect()
}

fn fmt_f64(x: f64) -> String {
    if x.is_nan() {
        "nan".to_owned()
    } else {
        format!("{:x}", x.to_bits())
    }
}

fn letter(k: SliderEventType) -> char {
    match k {
        SliderEventType::Head => 'H',
        SliderEventType::Tick => 'T',
        SliderEventType::Repeat => 'R',
        SliderEventType::LastTick => 'L',
        SliderEventType::Tail => 'E',
    }
}

fn fmt_events(out: &mut String, evs: &[SliderEvent]) {
    for e in evs {
        write!(
            out,
            " {}:{}:{}:{}:{}",
            letter(e.kind),
            e.span_idx,
            fmt_f64(e.span_start_time),
            fmt_f64(e.time),
            fmt_f64(e.path_progress)
        )
        .unwrap();
    }
}

/// one iterator on the shared buffer; `None` = `new` panicked.
fn run_use(u: &Use, buf: &mut Vec<SliderEvent>) -> Option<Vec<SliderEvent>> {
    panic::catch_unwind(AssertUnwindSafe(|| {
        let iter = SliderEventsIter::new(u.start, u.dur, u.vel, u.tick, u.total, u.n, buf);
        match u.take {
            None => iter.collect::<Vec<_>>(),
            Some(k) => iter.take(k).collect::<Vec<_>>(),
        }
    }))
    .ok()
}

pub fn dispatch_impl(toks: &[&str]) -> Option<String> {
    if !matches!(toks.first(), Some(&"sev") | Some(&"sevseq")) {
        return None;
    }
    let Some((pre, uses)) = parse_request(toks) else {
        return Some("bad-request".to_owned());
    };
    let mut buf = junk_buf(pre);
    let mut out = String::new();
    for u in &uses {
        match run_use(u, &mut buf) {
            None => out.push_str("panic"),
            Some(evs) => {
                write!(out, "ok n={}", evs.len()).unwrap();
                fmt_events(&mut out, &evs);
            }
        }
        out.push_str(" | ");
    }
    write!(out, "buf={}", buf.len()).unwrap();
    fmt_events(&mut out, &buf);
    Some(out)
}

// ------------------------------------------------------------------------------------------------
// the property itself (C20), as an eager list written from its text
// ------------------------------------------------------------------------------------------------

#[derive(Clone, Debug, PartialEq)]
struct RefEvent {
    kind: char,
    span: i32,
    span_start: f64,
    time: f64,
    progress: f64,
}

fn same_bits(a: f64, b: f64) -> bool {
    (a.is_nan() && b.is_nan()) || a.to_bits() == b.to_bits()
}

/// distance in units in the last place at the magnitude `scale ∨ |a| ∨ |b|`.
fn ulps(a: f64, b: f64, scale: f64) -> f64 {
    if same_bits(a, b) || a == b {
        return 0.0;
    }
    if !a.is_finite() || !b.is_finite() {
        return f64::INFINITY;
    }
    let m = a.abs().max(b.abs()).max(scale.abs());
    if !m.is_finite() {
        return f64::INFINITY;
    }
    let ulp = f64::from_bits(m.to_bits() + 1) - m;
    (a - b).abs() / ulp
}

struct Dev {
    /// max deviation (scaled ulps) of the times computed by the second reading (`end = start + n·dur`)
    alt_time: f64,
    /// max deviation of a tick distance from the exact multiple `i·tick`, in units of `i` ulp (must be ≤ 1)
    multiple: f64,
    /// the tick count differs from the one obtained with exact multiples (rounding at the cut-off)
    cutoff_flip: bool,
}

/// Reference event list for a slider, from the property statement:
/// head; per span its ticks in chronological order then (not after the last span) a repeat; last tick; tail.
/// Tick distances are the multiples of the (clamped) tick distance *obtained by repeated addition*
/// (the legacy expression), cut at `len` and at 10 ms of travel before the span end.
fn reference(u: &Use) -> (Vec<RefEvent>, Vec<f64>, f64, f64) {
    let len = if u.total.is_nan() || u.total > 100_000.0 { 100_000.0 } else { u.total };
    let mut tick = u.tick;
    if tick < 0.0 {
        tick = 0.0;
    }
    if tick > len {
        tick = len;
    }
    let min_dist = u.vel * 10.0;

    let mut dists = Vec::new();
    if tick > 0.0 {
        let mut d = tick;
        while d <= len && !(d >= len - min_dist) {
            dists.push(d);
            d += tick;
        }
    }

    let n = u.n;
    let mut evs = Vec::new();
    evs.push(RefEvent { kind: 'H', span: 0, span_start: u.start, time: u.start, progress: 0.0 });

    for s in 0..n {
        let span_start = u.start + f64::from(s) * u.dur;
        let odd = s % 2 == 1;
        let order: Vec<f64> = if odd { dists.iter().rev().copied().collect() } else { dists.clone() };
        for d in order {
            let progress = d / len;
            let in_time = if odd { 1.0 - progress } else { progress };
            evs.push(RefEvent { kind: 'T', span: s, span_start, time: span_start + in_time * u.dur, progress });
        }
        if s < n - 1 {
            evs.push(RefEvent {
                kind: 'R',
                span: s,
                span_start,
                time: span_start + u.dur,
                progress: if odd { 0.0 } else { 1.0 },
            });
        }
    }

    let last_start = u.start + f64::from(n - 1) * u.dur;
    let total = f64::from(n) * u.dur;
    let half = u.start + total / 2.0;
    let lenient = (last_start + u.dur) + -36.0;
    // f64::max semantics: a NaN operand is ignored
    let last_time = if half.is_nan() { lenient } else if lenient.is_nan() { half } else if half > lenient { half } else { lenient };
    let mut last_progress = (last_time - last_start) / u.dur;
    if n % 2 == 0 {
        last_progress = 1.0 - last_progress;
    }
    evs.push(RefEvent { kind: 'L', span: n - 1, span_start: last_start, time: last_time, progress: last_progress });
    evs.push(RefEvent {
        kind: 'E',
        span: n - 1,
        span_start: last_start,
        time: u.start + total,
        progress: if n % 2 == 0 { 0.0 } else { 1.0 },
    });

    (evs, dists, len, tick)
}

fn check_use(u: &Use, got: &[SliderEvent]) -> Result<Dev, String> {
    let (want, dists, len, tick) = reference(u);
    let n = u.n;
    let mut dev = Dev { alt_time: 0.0, multiple: 0.0, cutoff_flip: false };

    // kinds, order, counts: exact
    let kinds_got: String = got.iter().map(|e| letter(e.kind)).collect();
    let kinds_want: String = want.iter().map(|e| e.kind).collect();
    if kinds_got != kinds_want {
        let i = kinds_got.bytes().zip(kinds_want.bytes()).position(|(a, b)| a != b).unwrap_or(kinds_got.len().min(kinds_want.len()));
        return Err(format!(
            "kinds differ at event {i}: got {} events, want {} (ticks/span {})",
            got.len(),
            want.len(),
            dists.len()
        ));
    }
    let expected_count = 1 + (n as usize) * dists.len() + (n as usize - 1) + 2;
    if got.len() != expected_count {
        return Err(format!("count {} != 1 + n*ticks + (n-1) + 2 = {expected_count}", got.len()));
    }
    let repeats = got.iter().filter(|e| e.kind == SliderEventType::Repeat).count();
    if repeats != n as usize - 1 {
        return Err(format!("{repeats} repeats for {n} spans"));
    }
    if !(tick > 0.0) && got.iter().any(|e| e.kind == SliderEventType::Tick) {
        return Err("ticks although the tick distance is not positive".into());
    }

    // fields: bit-for-bit against the reference (same expressions)
    for (i, (g, w)) in got.iter().zip(&want).enumerate() {
        if g.span_idx != w.span {
            return Err(format!("event {i} ({}) span idx {} want {}", w.kind, g.span_idx, w.span));
        }
        for (name, a, b) in [
            ("span_start_time", g.span_start_time, w.span_start),
            ("time", g.time, w.time),
            ("path_progress", g.path_progress, w.progress),
        ] {
            if !same_bits(a, b) {
                return Err(format!("event {i} ({}) {name} {} want {}", w.kind, fmt_f64(a), fmt_f64(b)));
            }
        }
    }

    // second reading of the closed forms: end = start + n·dur, repeat k at start + k·dur,
    // last tick = max(start + (end − start)/2, end − 36); tolerance 4 ulp at the magnitude of the operands
    let scale = u.start.abs().max((f64::from(n) * u.dur).abs());
    if scale.is_finite() {
        let end = u.start + f64::from(n) * u.dur;
        let mut alt = |a: f64, b: f64, what: &str, i: usize| -> Result<(), String> {
            if a.is_nan() && b.is_nan() {
                return Ok(());
            }
            let d = ulps(a, b, scale);
            if d > dev.alt_time {
                dev.alt_time = d;
            }
            if d > 4.0 {
                return Err(format!("event {i} {what}: {} vs closed form {} = {d} ulp", fmt_f64(a), fmt_f64(b)));
            }
            Ok(())
        };
        for (i, g) in got.iter().enumerate() {
            match g.kind {
                SliderEventType::Repeat => alt(g.time, u.start + f64::from(g.span_idx + 1) * u.dur, "repeat time", i)?,
                SliderEventType::Tail => alt(g.time, end, "tail time", i)?,
                SliderEventType::LastTick => {
                    let a = u.start + (end - u.start) / 2.0;
                    let b = end - 36.0;
                    let m = if a.is_nan() { b } else if b.is_nan() { a } else { a.max(b) };
                    alt(g.time, m, "last tick time", i)?
                }
                _ => {}
            }
        }
    }

    // ticks: multiples of the tick distance, min distance, same on every span, chronological
    let min_dist = u.vel * 10.0;
    let mut exact_count = 0usize;
    if tick > 0.0 {
        let mut i = 1.0f64;
        while i * tick <= len && !(i * tick >= len - min_dist) {
            exact_count += 1;
            i += 1.0;
        }
    }
    dev.cutoff_flip = exact_count != dists.len();
    for (i, d) in dists.iter().enumerate() {
        // d is the (i+1)-fold sum of `tick`: within (i+1) ulp of the exact multiple (recursive-summation bound)
        let k = (i + 1) as f64;
        let dv = ulps(*d, k * tick, 0.0) / k;
        if dv > dev.multiple {
            dev.multiple = dv;
        }
        if dv > 1.0 {
            return Err(format!("tick {i}: distance {d} is not within {k} ulp of {k}·{tick}"));
        }
    }
    let mut per_span: Vec<Vec<&SliderEvent>> = vec![Vec::new(); n as usize];
    for g in got.iter().filter(|e| e.kind == SliderEventType::Tick) {
        per_span[g.span_idx as usize].push(g);
    }
    let timed = u.dur >= 0.0 && u.dur.is_finite() && u.start.is_finite();
    for (s, ticks) in per_span.iter().enumerate() {
        let mut prog: Vec<f64> = ticks.iter().map(|e| e.path_progress).collect();
        if s % 2 == 1 {
            prog.reverse();
        }
        for (i, p) in prog.iter().enumerate() {
            // d < len − 10·velocity and d ≤ len, read off the implementation's progress = d/len (rounding is monotone)
            if !(*p <= 1.0) || *p < 0.0 || (!min_dist.is_nan() && !(*p <= (len - min_dist) / len)) {
                return Err(format!("span {s} tick {i}: progress {p} within the minimum distance of the span end"));
            }
            if i > 0 && !(prog[i - 1] <= *p) {
                return Err(format!("span {s}: tick progress not monotone"));
            }
        }
        if s > 0 {
            let first: Vec<f64> = per_span[0].iter().map(|e| e.path_progress).collect();
            if first.len() != prog.len() || first.iter().zip(&prog).any(|(a, b)| !same_bits(*a, *b)) {
                return Err(format!("span {s} does not carry the ticks of span 0"));
            }
        }
        if timed {
            for w in ticks.windows(2) {
                if w[0].time > w[1].time {
                    return Err(format!("span {s}: ticks out of chronological order"));
                }
            }
            for t in ticks {
                if t.time < t.span_start_time || t.time > t.span_start_time + u.dur {
                    return Err(format!("span {s}: tick outside its span"));
                }
            }
        }
    }
    Ok(dev)
}

pub fn dispatch_prop(toks: &[&str]) -> Option<String> {
    if !matches!(toks.first(), Some(&"sev") | Some(&"sevseq")) {
        return None;
    }
    let Some((pre, uses)) = parse_request(toks) else {
        return Some("SKIP bad-request".to_owned());
    };
    let mut buf = junk_buf(pre);
    let mut dev = Dev { alt_time: 0.0, multiple: 0.0, cutoff_flip: false };
    let mut judged = 0;
    for (idx, u) in uses.iter().enumerate() {
        let in_domain = u.n >= 1 && !(u.total < 0.0);
        let got = run_use(u, &mut buf);
        if !in_domain {
            continue;
        }
        let Some(got) = got else {
            return Some(format!("FAIL iterator {idx}: panic inside the domain"));
        };
        // the stream must not depend on the buffer: a fresh buffer gives the full reference stream,
        // of which a partially consumed iterator must have produced a prefix
        let mut fresh = Vec::new();
        let Some(full) = run_use(&Use { take: None, ..*u }, &mut fresh) else {
            return Some(format!("FAIL iterator {idx}: panic on a fresh buffer"));
        };
        let k = u.take.map_or(full.len(), |k| k.min(full.len()));
        if got.len() != k || got.iter().zip(&full).any(|(a, b)| {
            a.kind != b.kind
                || a.span_idx != b.span_idx
                || !same_bits(a.time, b.time)
                || !same_bits(a.span_start_time, b.span_start_time)
                || !same_bits(a.path_progress, b.path_progress)
        }) {
            return Some(format!("FAIL iterator {idx}: stream depends on the previous buffer contents"));
        }
        // "the events are: …" is a statement about the stream however it is consumed: `nth`, `skip`, `step_by`, `last`, `count` and
        // interleavings of `next` and `nth` must hand out the same events as `next` alone (an implementation may override any of
        // the `Iterator` methods: seed C20-n)
        if full.len() <= 4000 {
            let same = |a: &SliderEvent, b: &SliderEvent| {
                a.kind == b.kind && a.span_idx == b.span_idx && same_bits(a.time, b.time) && same_bits(a.span_start_time, b.span_start_time) && same_bits(a.path_progress, b.path_progress)
            };
            fn mk<'a>(u: &Use, buf: &'a mut Vec<SliderEvent>) -> SliderEventsIter<'a> {
                SliderEventsIter::new(u.start, u.dur, u.vel, u.tick, u.total, u.n, buf)
            }
            let len = full.len();
            let picks = [(0usize, 0usize), (0, 1), (1, 0), (1, 2), (2, 3), (3, 1), (0, len.saturating_sub(1)), (1, len.saturating_sub(2)), (2, len), (len / 2, 1), (len / 2, len / 3)];
            for (j, n) in picks {
                let mut b2 = Vec::new();
                let r = panic::catch_unwind(AssertUnwindSafe(|| {
                    let mut it = mk(u, &mut b2);
                    for _ in 0..j {
                        it.next();
                    }
                    let x = it.nth(n);
                    let y = it.next();
                    (x, y)
                }));
                let Ok((x, y)) = r else { return Some(format!("FAIL iterator {idx}: panic in next^{j}; nth({n})")) };
                let (wx, wy) = (full.get(j + n), full.get(j + n + 1));
                let okx = match (&x, wx) { (Some(a), Some(b)) => same(a, b), (None, None) => true, _ => false };
                let oky = match (&y, wy) { (Some(a), Some(b)) => same(a, b), (None, None) => true, _ => false };
                if !okx || !oky {
                    return Some(format!("FAIL iterator {idx}: after {j} calls of next, nth({n}) / the following next differ from the events next alone hands out"));
                }
            }
            let mut b3 = Vec::new();
            let stepped: Vec<SliderEvent> = mk(u, &mut b3).step_by(2).collect();
            let mut b4 = Vec::new();
            let skipped: Vec<SliderEvent> = mk(u, &mut b4).skip(3).collect();
            let mut b5 = Vec::new();
            let cnt = mk(u, &mut b5).count();
            let mut b6 = Vec::new();
            let last = mk(u, &mut b6).last();
            let want_step: Vec<&SliderEvent> = full.iter().step_by(2).collect();
            if stepped.len() != want_step.len() || stepped.iter().zip(&want_step).any(|(a, b)| !same(a, b))
                || skipped.len() != len.saturating_sub(3) || skipped.iter().zip(full.iter().skip(3)).any(|(a, b)| !same(a, b))
                || cnt != len
                || match (&last, full.last()) { (Some(a), Some(b)) => !same(a, b), (None, None) => false, _ => true }
            {
                return Some(format!("FAIL iterator {idx}: step_by / skip / count / last disagree with the events next hands out"));
            }
        }
        match check_use(u, &full) {
            Err(e) => return Some(format!("FAIL iterator {idx}: {e}")),
            Ok(d) => {
                dev.alt_time = dev.alt_time.max(d.alt_time);
                dev.multiple = dev.multiple.max(d.multiple);
                dev.cutoff_flip |= d.cutoff_flip;
                judged += 1;
            }
        }
    }
    if judged == 0 {
        return Some("SKIP outside-domain (span count < 1 or negative length)".to_owned());
    }
    Some(format!(
        "OK judged={judged} max_alt_time_ulp={:.2} max_multiple_dev={:.3} cutoff_flip={}",
        dev.alt_time, dev.multiple, dev.cutoff_flip as u8
    ))
}
