//! Correspondence / property harness: drives the real rosu-map in-process.
//!
//! `harness impl  < cases`  — one canonical observation line per request line
//!                            (same request language as the Lean driver).
//! `harness prop  < cases`  — evaluates the property itself on the implementation.
mod c15;
mod codec;
mod curve;
mod curveprop;
mod dump;
mod events;
mod frame;
mod reader;
mod util;
mod writer;
mod timing;
mod hitobj;
mod roundtrip;
mod sections;
mod whole;

use std::io::{self, BufRead, Write};
use std::panic::{self, AssertUnwindSafe};

fn main() {
    let args: Vec<String> = std::env::args().collect();
    let mode = args.get(1).map(String::as_str).unwrap_or("impl");
    panic::set_hook(Box::new(|_| {}));

    let stdin = io::stdin();
    let stdout = io::stdout();
    let mut out = io::BufWriter::new(stdout.lock());

    for line in stdin.lock().lines() {
        let line = line.expect("stdin");
        let toks: Vec<&str> = line.split_ascii_whitespace().collect();
        let res = panic::catch_unwind(AssertUnwindSafe(|| match mode {
            "impl" => dispatch_impl(&toks),
            "prop" => dispatch_prop(&toks),
            _ => "bad-mode".to_owned(),
        }));
        let s = match res {
            Ok(s) => s,
            Err(e) => {
                let msg = e
                    .downcast_ref::<String>()
                    .cloned()
                    .or_else(|| e.downcast_ref::<&str>().map(|s| (*s).to_owned()))
                    .unwrap_or_default();
                format!("PANIC {}", msg.replace('\n', " "))
            }
        };
        writeln!(out, "{s}").unwrap();
    }
    out.flush().unwrap();
}

/// Each module answers the requests it knows (`None` = not mine).
fn dispatch_impl(toks: &[&str]) -> String {
    None.or_else(|| frame::dispatch_impl(toks))
        .or_else(|| reader::dispatch_impl(toks))
        .or_else(|| writer::dispatch_impl(toks))
        .or_else(|| codec::dispatch_impl(toks))
        .or_else(|| curve::dispatch_impl(toks))
        .or_else(|| timing::dispatch_impl(toks))
        .or_else(|| sections::dispatch_impl(toks))
        .or_else(|| hitobj::dispatch_impl(toks))
        .or_else(|| whole::dispatch_impl(toks))
        .or_else(|| roundtrip::dispatch_impl(toks))
        .or_else(|| events::dispatch_impl(toks))
        .unwrap_or_else(|| "bad-request".to_owned())
}

fn dispatch_prop(toks: &[&str]) -> String {
    None.or_else(|| frame::dispatch_prop(toks))
        .or_else(|| reader::dispatch_prop(toks))
        .or_else(|| writer::dispatch_prop(toks))
        .or_else(|| codec::dispatch_prop(toks))
        .or_else(|| curve::dispatch_prop(toks))
        .or_else(|| timing::dispatch_prop(toks))
        .or_else(|| sections::dispatch_prop(toks))
        .or_else(|| hitobj::dispatch_prop(toks))
        .or_else(|| whole::dispatch_prop(toks))
        .or_else(|| roundtrip::dispatch_prop(toks))
        .or_else(|| c15::dispatch_prop(toks))
        .or_else(|| events::dispatch_prop(toks))
        .unwrap_or_else(|| "SKIP no-oracle".to_owned())
}
