//! Correspondence / property harness: drives the real rosu-map in-process.
//!
//! `harness impl  < cases`  — one canonical observation line per request line
//!                            (same request language as the Lean driver).
//! `harness prop  < cases`  — evaluates the property itself on the implementation.
mod c15;
mod codec;
mod curve;
mod curveprop;
mod dump;
mod events;
mod frame;
mod reader;
mod util;
mod writer;
mod timing;
mod hitobj;
mod roundtrip;
mod sections;
mod whole;

use std::io::{self, BufRead, Write};
use std::panic::{self, AssertUnwindSafe};

/// Per-request watchdog: a request that runs longer than `VERIF_CASE_TIMEOUT` seconds (default 10)
/// is reported as `TIMEOUT` and the process exits with status 3 (the caller resumes after that
/// request). A spinning thread cannot be cancelled, hence the exit.
static CASE_START_MS: std::sync::atomic::AtomicU64 = std::sync::atomic::AtomicU64::new(0);
/// limit of the running request when its line begins with the token `limit=<seconds>` (0 = the default); used for requests
/// that are known not to return (finding F23), so that a run does not spend the default limit on each of them
static CASE_LIMIT_MS: std::sync::atomic::AtomicU64 = std::sync::atomic::AtomicU64::new(0);

fn now_ms() -> u64 {
    use std::time::{SystemTime, UNIX_EPOCH};
    SystemTime::now().duration_since(UNIX_EPOCH).map(|d| d.as_millis() as u64).unwrap_or(0)
}

fn main() {
    use std::sync::atomic::Ordering;
    use std::sync::{Arc, Mutex};

    let args: Vec<String> = std::env::args().collect();
    let mode = args.get(1).map(String::as_str).unwrap_or("impl");
    panic::set_hook(Box::new(|_| {}));
    let limit_ms: u64 = std::env::var("VERIF_CASE_TIMEOUT").ok().and_then(|s| s.parse().ok()).unwrap_or(10) * 1000;

    let stdin = io::stdin();
    let out = Arc::new(Mutex::new(io::BufWriter::new(io::stdout())));
    {
        let out = Arc::clone(&out);
        std::thread::spawn(move || loop {
            std::thread::sleep(std::time::Duration::from_millis(200));
            let start = CASE_START_MS.load(Ordering::SeqCst);
            let own = CASE_LIMIT_MS.load(Ordering::SeqCst);
            let limit_ms = if own != 0 { own } else { limit_ms };
            if start != 0 && now_ms().saturating_sub(start) > limit_ms {
                if let Ok(mut o) = out.lock() {
                    let _ = writeln!(o, "TIMEOUT request ran longer than {} s", limit_ms / 1000);
                    let _ = o.flush();
                }
                std::process::exit(3);
            }
        });
    }

    for line in stdin.lock().lines() {
        let line = line.expect("stdin");
        let mut toks: Vec<&str> = line.split_ascii_whitespace().collect();
        let own = toks.first().and_then(|t| t.strip_prefix("limit=")).and_then(|t| t.parse::<u64>().ok());
        if own.is_some() {
            toks.remove(0);
        }
        CASE_LIMIT_MS.store(own.unwrap_or(0) * 1000, Ordering::SeqCst);
        CASE_START_MS.store(now_ms(), Ordering::SeqCst);
        let res = panic::catch_unwind(AssertUnwindSafe(|| match mode {
            "impl" => dispatch_impl(&toks),
            "prop" => dispatch_prop(&toks),
            _ => "bad-mode".to_owned(),
        }));
        CASE_START_MS.store(0, Ordering::SeqCst);
        let s = match res {
            Ok(s) => s,
            Err(e) => {
                let msg = e
                    .downcast_ref::<String>()
                    .cloned()
                    .or_else(|| e.downcast_ref::<&str>().map(|s| (*s).to_owned()))
                    .unwrap_or_default();
                format!("PANIC {}", msg.replace('\n', " "))
            }
        };
        writeln!(out.lock().unwrap(), "{s}").unwrap();
    }
    out.lock().unwrap().flush().unwrap();
}

/// Each module answers the requests it knows (`None` = not mine).
fn dispatch_impl(toks: &[&str]) -> String {
    None.or_else(|| frame::dispatch_impl(toks))
        .or_else(|| reader::dispatch_impl(toks))
        .or_else(|| writer::dispatch_impl(toks))
        .or_else(|| codec::dispatch_impl(toks))
        .or_else(|| curve::dispatch_impl(toks))
        .or_else(|| timing::dispatch_impl(toks))
        .or_else(|| sections::dispatch_impl(toks))
        .or_else(|| hitobj::dispatch_impl(toks))
        .or_else(|| whole::dispatch_impl(toks))
        .or_else(|| roundtrip::dispatch_impl(toks))
        .or_else(|| events::dispatch_impl(toks))
        .unwrap_or_else(|| "bad-request".to_owned())
}

fn dispatch_prop(toks: &[&str]) -> String {
    None.or_else(|| frame::dispatch_prop(toks))
        .or_else(|| reader::dispatch_prop(toks))
        .or_else(|| writer::dispatch_prop(toks))
        .or_else(|| codec::dispatch_prop(toks))
        .or_else(|| curve::dispatch_prop(toks))
        .or_else(|| timing::dispatch_prop(toks))
        .or_else(|| sections::dispatch_prop(toks))
        .or_else(|| hitobj::dispatch_prop(toks))
        .or_else(|| whole::dispatch_prop(toks))
        .or_else(|| roundtrip::dispatch_prop(toks))
        .or_else(|| c15::dispatch_prop(toks))
        .or_else(|| events::dispatch_prop(toks))
        .unwrap_or_else(|| "SKIP no-oracle".to_owned())
}
