"""Shared input-building helpers for the generators."""
import itertools
import os
import random

RES = "/repo/resources"


def hexs(b: bytes) -> str:
    return b.hex() if b else "-"


def encodings(text: str):
    """the four supported encodings of a text"""
    return {
        "utf8": text.encode("utf-8", "surrogatepass") if False else text.encode("utf-8"),
        "utf8bom": b"\xef\xbb\xbf" + text.encode("utf-8"),
        "utf16le": b"\xff\xfe" + text.encode("utf-16-le"),
        "utf16be": b"\xfe\xff" + text.encode("utf-16-be"),
    }


def bundled_files():
    out = []
    if os.path.isdir(RES):
        for f in sorted(os.listdir(RES)):
            if f.endswith(".osu"):
                out.append(os.path.join(RES, f))
    return out


def join_lines(lines, rng=None, eol=None, final=None):
    """join with LF or CRLF; `final` says whether the last line is terminated"""
    if eol is None:
        eol = rng.choice(["\n", "\r\n"]) if rng else "\n"
    if final is None:
        final = rng.random() < 0.5 if rng else True
    s = eol.join(lines)
    if final and lines:
        s += eol
    return s
