"""Inputs and delivery schedules shared by C08, C09 and C10 (all choices from the caller's rng)."""
from .gen import bundled_files, encodings, hexs, join_lines
from .props.c05 import CORE, EXTRA

ENCODINGS = ["utf8", "utf8bom", "utf16le", "utf16be"]
ERROR_KINDS = ["Other", "UnexpectedEof", "PermissionDenied", "TimedOut", "WouldBlock"]
SMALL = 4096          # bundled files up to this size get the exhaustive treatment

# non-ASCII record lines whose UTF-16 code units contain no byte 0x0A
SAFE_LINES = [
    "Title: 日本語のタイトル", "Artist: é è ü ß", "Creator: Ωμέγα", "Tags: a b", "Source: x　",
    "Title: 😀 emoji 🎵", "Version:  nbsp ", "TitleUnicode: 한국어", "Tags: � replacement",
    "Artist: Āĉċ", "Title: tail ", "Title: 　lead", "ArtistUnicode: 𝄞 clef",
    "Tags: zero​width", "Title:  ogham ",
]
# ... and lines with a code unit other than U+000A that contains the byte 0x0A (finding F5)
STRAY_LINES = [
    "Title: aĊb", "Title: ਊ", "Artist: 上", "Tags: x਀y", "Title: ૿", "Creator: 上海",
    "Title: 𐐊", "Source: ੁ", "Title: ਊਊ", "Tags: ੁ",
]


def gen_text(rng, stray=None):
    """a file text over the C05 line alphabet plus non-ASCII records; returns (text, has_stray)"""
    full = CORE + EXTRA
    k = rng.choice([1, 2, 3, 5, 8, 13, 21])
    if stray is None:
        stray = rng.random() < 0.15
    lines = []
    if rng.random() < 0.6:
        lines.append(rng.choice(["osu file format v14", "osu file format v9", "", "osu file format v128"]))
    if rng.random() < 0.8:
        lines.append(rng.choice(["[General]", "[Metadata]", "[HitObjects]", "[Events]"]))
    used_stray = False
    for _ in range(k):
        r = rng.random()
        if r < 0.5:
            lines.append(rng.choice(full)[1])
        elif r < 0.9 or not stray:
            lines.append(rng.choice(SAFE_LINES))
        else:
            lines.append(rng.choice(STRAY_LINES))
            used_stray = True
    if stray and not used_stray:
        lines.insert(rng.randrange(len(lines) + 1), rng.choice(STRAY_LINES))
    text = join_lines(lines, rng=rng)
    if text.startswith("﻿"):
        text = " " + text
    return text, has_stray_lf(text)


def has_stray_lf(text):
    """some UTF-16 code unit other than U+000A contains the byte 0x0A"""
    b = text.encode("utf-16-be")
    for i in range(0, len(b), 2):
        hi, lo = b[i], b[i + 1]
        if (hi, lo) != (0, 0x0A) and (hi == 0x0A or lo == 0x0A):
            return True
    return False


def sniff(data):
    if data[:3] == b"\xef\xbb\xbf":
        return "utf8", data[3:]
    if data[:2] == b"\xff\xfe":
        return "utf16le", data[2:]
    if data[:2] == b"\xfe\xff":
        return "utf16be", data[2:]
    return "utf8", data


def units_stray_lf(data):
    """predicate of F5 on raw bytes: UTF-16 input containing a code unit != U+000A with a byte 0x0A"""
    enc, body = sniff(data)
    if enc == "utf8":
        return False
    for i in range(0, len(body) - 1, 2):
        a, b = body[i], body[i + 1]
        lf = (a, b) == ((0x0A, 0) if enc == "utf16le" else (0, 0x0A))
        if not lf and (a == 0x0A or b == 0x0A):
            return True
    return False


def le_dangling(data):
    """predicate of F6 on raw bytes: UTF-16LE input in which a 0x0A byte that ends a line (as the
    reader cuts lines: at each 0x0A byte, plus one more byte) is the last byte of the input"""
    enc, body = sniff(data)
    if enc != "utf16le":
        return False
    p = 0
    while True:
        q = body.find(b"\n", p)
        if q < 0:
            return False
        if q + 1 >= len(body):
            return True
        p = q + 2


def small_bundled():
    out = []
    for f in bundled_files():
        data = open(f, "rb").read()
        out.append((f, data))
    return out


def chunk_fixed(data, k, first=None):
    toks = []
    p = 0
    if first:
        toks.append("c" + hexs(data[:first]))
        p = first
    while p < len(data):
        toks.append("c" + data[p:p + k].hex())
        p += k
    return toks


def chunk_random(data, rng, first_min=1):
    toks = []
    p = 0
    style = rng.choice(["tiny", "mixed", "wide"])
    while p < len(data):
        if style == "tiny":
            n = rng.choice([1, 1, 2, 3, 4])
        elif style == "mixed":
            n = rng.choice([1, 2, 3, 5, 7, 16, 64, 257])
        else:
            n = rng.randint(1, max(1, len(data)))
        if p == 0:
            n = max(n, first_min)
        toks.append("c" + data[p:p + n].hex())
        p += n
    return toks


def with_intr(toks, rng, density=None):
    if density is None:
        density = rng.choice([0.05, 0.3, 1.0])
    out = []
    for t in toks:
        while rng.random() < density / (1 + density):
            out.append("i")
        out.append(t)
    while rng.random() < 0.3:
        out.append("i")
    return out


def parse_tokens(toks):
    """[(kind, payload)] with kind in c/i/f"""
    evs = []
    for t in toks:
        if t == "i":
            evs.append(("i", None))
        elif t.startswith("f"):
            evs.append(("f", t[1:]))
        else:
            evs.append(("c", b"" if t[1:] == "-" else bytes.fromhex(t[1:])))
    return evs


def short_first_chunk(evs):
    """predicate of F4: the first non-empty chunk is shorter than 3 bytes while more bytes follow"""
    total = sum(len(p) for k, p in evs if k == "c")
    for k, p in evs:
        if k == "f":
            return False
        if k == "c" and len(p) > 0:
            return len(p) < 3 and total > len(p)
    return False


def lost_prefix(evs):
    n = 0
    for k, p in evs:
        if k == "f" or (k == "c" and len(p) >= 3):
            break
        if k == "c":
            n += len(p)
    return n
