"""Tokens taken from /repo's CURRENT source text: short string literals and CamelCase identifiers of the section / parser modules
(record keys are enum variants there, written through a macro). The generators use them as keys and leading tokens of extra
lines in every section, so that a word the code begins to recognise somewhere (a new key, a key accepted in another section,
a new event or sample name) is part of the input alphabet without anyone having to add it - differential testing cannot see
behaviour behind inputs it never generates. Unknown words are ignored by model and code alike, so the extra lines cannot raise
a false alarm."""
import glob
import os
import re

from . import core

_CACHE = None


def source_tokens():
    global _CACHE
    if _CACHE is not None:
        return _CACHE
    lits, idents = set(), set()
    for f in sorted(glob.glob(os.path.join(core.REPO, "src", "**", "*.rs"), recursive=True)):
        try:
            src = open(f, encoding="utf-8", errors="replace").read()
        except OSError:
            continue
        src = src.split("#[cfg(test)]")[0]
        src = re.sub(r"//.*", "", src)
        for m in re.finditer(r'b?"((?:[^"\\]|\\.){1,24})"', src):
            s = m.group(1)
            if "{" in s or "\\" in s or "\n" in s or s.startswith("failed") or s.startswith("invalid"):
                continue
            lits.add(s)
        rel = os.path.relpath(f, core.REPO)
        if rel.startswith(os.path.join("src", "section")) or rel.endswith("macros.rs") or rel.endswith("format_version.rs"):
            for m in re.finditer(r"\b([A-Z][a-z0-9]+(?:[A-Z][a-z0-9]*)+|[A-Z][a-z]{2,})\b", src):
                idents.add(m.group(1))
    # words that are Rust / std names rather than format words do no harm, but keep the list short
    drop = {"Self", "Some", "None", "Vec", "String", "Option", "Result", "Ok", "Err", "Default", "Debug", "Clone", "Copy", "From", "Into", "Box",
            "Display", "Error", "Formatter", "FromStr", "PartialEq", "PartialOrd", "Ordering", "Eq", "Iterator", "Cow", "Borrowed", "Owned"}
    _CACHE = sorted(lits) + sorted(i for i in idents if i not in drop)
    return _CACHE


def extra_lines(rng, n):
    """n lines built around source tokens, in the shapes records have (key: value, key : r,g,b, token,fields…, bare token)."""
    toks = source_tokens()
    if not toks:
        return []
    out = []
    for _ in range(n):
        t = rng.choice(toks)
        v = rng.choice(["1", "0", "3", "abc", "1,2,3", "0.5", "-1", "100,200", "x.png", "2147483647", ""])
        out.append(rng.choice(["{t}: {v}", "{t}:{v}", "{t} : {v}", "{t},{v}", "{t},0,0,{v}", "{t}", "Editor{t}: {v}", "{t}s: {v}"]).format(t=t, v=v))
    return out
