"""Structured .osu generator (the 'osu-grammar' family of DESIGN.md 3.4): every section, four modes,
versions 3..128, all object kinds, multi-segment paths, same-time timing groups, optional hostile values."""
import math

from .props.c11 import FLOATS, INTS, STRINGS, EVENT_LINES, COLOR_LINES
from .props.c14 import EXTRAS, PATHS, EDGE_SETS, EDGE_SOUNDS

GOOD_TITLES = ["Renatus", "Re:Zero", "a // b", "[General]", "osu file format v9", "日本語タイトル", "x: y: z", "tab\tin", "Ĉirkaŭ", "C:\\dir\\a"]
GOOD_PATHS = ["B|{a}:{b}", "L|{a}:{b}|{c}:{d}", "P|{a}:{b}|{c}:{d}", "C|{a}:{b}|{c}:{d}|{e}:{f}", "B|{a}:{b}|{c}:{d}|{c}:{d}|{e}:{f}",
              "B|{a}:{b}|L|{c}:{d}", "L|{a}:{b}|P|{c}:{d}|{e}:{f}|{a}:{d}", "B|{a}:{b}|B|{c}:{d}", "P|{a}:{a}|{b}:{b}", "B3|{a}:{b}|{c}:{d}|{e}:{f}",
              "C|{a}:{b}|{a}:{b}|{c}:{d}", "L|{a}:{b}|{a}:{b}|{c}:{d}", "B|{a}:{b}|{c}:{d}|{e}:{f}|{a}:{f}|{e}:{b}",
              # control points that coincide with the slider's own position (relative (0,0))
              "B|{x}:{y}|B|{c}:{d}|{e}:{f}", "L|{x}:{y}|L|{c}:{d}|{e}:{f}", "C|{x}:{y}|{c}:{d}|{e}:{f}", "B|{a}:{b}|{x}:{y}|{c}:{d}",
              "L|{x}:{y}|{c}:{d}", "B|{x}:{y}|{x}:{y}|{c}:{d}|{e}:{f}", "P|{x}:{y}|{c}:{d}", "B|{a}:{b}|B|{x}:{y}|{c}:{d}"]


def num(rng, lo, hi, frac=True):
    if frac and rng.random() < 0.4:
        return repr(round(rng.uniform(lo, hi), rng.choice([1, 2, 3, 6])))
    return str(rng.randint(int(lo), int(hi)))


def gen_general(rng, mode, hostile):
    L = ["[General]"]
    def kv(k, good, pool):
        if rng.random() < 0.75:
            L.append(f"{k}: {rng.choice(pool) if rng.random() < hostile else good}")
    kv("AudioFilename", rng.choice(["audio.mp3", "dir\\sub\\a.ogg", "03. Renatus - Soleily 192kbps.mp3", "a:b.mp3"]), STRINGS)
    kv("AudioLeadIn", str(rng.choice([0, 500, 2000, -5])), INTS)
    kv("PreviewTime", str(rng.choice([-1, 0, 164471])), INTS)
    kv("Countdown", rng.choice(["0", "1", "2", "3", "None", "Normal", "Half speed", "Double speed"]), INTS + ["4", "normal"])
    kv("SampleSet", rng.choice(["Normal", "Soft", "Drum", "None", "1", "2"]), INTS + ["soft"])
    kv("SampleVolume", str(rng.choice([100, 0, 55, 150])), INTS)
    kv("StackLeniency", rng.choice(["0.7", "0.2", "1", "0.35"]), FLOATS)
    L.append(f"Mode: {mode}" if rng.random() > hostile else f"Mode: {rng.choice(INTS)}")
    kv("LetterboxInBreaks", rng.choice(["0", "1"]), INTS)
    kv("SpecialStyle", rng.choice(["0", "1"]), INTS)
    kv("WidescreenStoryboard", rng.choice(["0", "1"]), INTS)
    kv("EpilepsyWarning", rng.choice(["0", "1"]), INTS)
    kv("SamplesMatchPlaybackRate", rng.choice(["0", "1"]), INTS)
    kv("CountdownOffset", str(rng.choice([0, 1, 3, -2])), INTS)
    return L


def gen_editor(rng, hostile):
    L = ["[Editor]"]
    if rng.random() < 0.6:
        L.append("Bookmarks: " + ",".join(str(rng.randint(-100, 300000)) for _ in range(rng.randint(0, 5))))
    for k, good, pool in (("DistanceSpacing", "1.2", FLOATS), ("BeatDivisor", "4", INTS), ("GridSize", "8", INTS), ("TimelineZoom", "2.5", FLOATS)):
        if rng.random() < 0.8:
            L.append(f"{k}: {rng.choice(pool) if rng.random() < hostile else good}")
    return L


def gen_metadata(rng, hostile):
    L = ["[Metadata]"]
    for k in ("Title", "TitleUnicode", "Artist", "ArtistUnicode", "Creator", "Version", "Source", "Tags"):
        if rng.random() < 0.8:
            L.append(f"{k}:{rng.choice(STRINGS) if rng.random() < hostile else rng.choice(GOOD_TITLES)}")
    for k in ("BeatmapID", "BeatmapSetID"):
        if rng.random() < 0.8:
            L.append(f"{k}:{rng.choice(INTS) if rng.random() < hostile else rng.choice([0, -1, 123456, 2147483647])}")
    return L


def gen_difficulty(rng, hostile):
    L = ["[Difficulty]"]
    keys = ["HPDrainRate", "CircleSize", "OverallDifficulty", "ApproachRate", "SliderMultiplier", "SliderTickRate"]
    rng.shuffle(keys) if rng.random() < 0.3 else None
    for k in keys:
        if rng.random() < 0.85:
            good = {"SliderMultiplier": rng.choice(["1.4", "0.4", "3.6", "2", "1.7999999523162842"]), "SliderTickRate": rng.choice(["1", "2", "0.5", "8", "4"])}.get(
                k, rng.choice(["5", "9.3", "0", "10", "3.5"]))
            L.append(f"{k}:{rng.choice(FLOATS) if rng.random() < hostile else good}")
    return L


def gen_events(rng, hostile, tmax, tshift=0):
    L = ["[Events]", "//Background and Video events"]
    if rng.random() < 0.7:
        L.append(rng.choice(['0,0,"bg.jpg",0,0', '0,0,"BG with space.png"', 'Video,0,"v.mp4"', '1,0,pic.png', '4,0,0,"sb.png"',
                             'Sprite,Background,Centre,"SB\\bg.png",320,240', 'Sprite,Foreground,TopLeft,fg.png,0,0',
                             # a BACKGROUND whose name ends like a video: written and read back as a background (seed C04-q)
                             '0,0,"intro.avi",0,0', 'Background,0,clip.MP4', '0,0,"x.mov"', '0,0,m.m4v,0,0']))
        if rng.random() < 0.3:
            L.append(rng.choice([' F,0,0,1000,0,1', '_M,0,0,1000,320,240,100,100', 'Sample,100,0,"s.wav",80', 'Animation,Fail,Centre,"anim.png",320,240,4,100']))
    for _ in range(rng.randint(0, 3)):
        if rng.random() < hostile:
            L.append(rng.choice(EVENT_LINES))
        else:
            a = rng.randint(0, max(1, tmax))
            L.append(f"2,{a + tshift},{a + tshift + rng.choice([100, 700, 5000, -50])}")
    return L


def gen_timing(rng, mode, hostile, tmax, chronological, tshift=0, integer_times=False):
    L = ["[TimingPoints]"]
    t = rng.choice([0, -100, 250])
    n = rng.randint(0, 8)
    times = []
    for _ in range(n):
        times.append(t)
        r = rng.random()
        t += 0 if r < 0.25 else rng.choice([1, 120, 500, 2000, 1 if integer_times else 0.5])
    if not chronological:
        rng.shuffle(times)
    times = [x + tshift for x in times]
    # times that differ by less than the decoder's grouping epsilon (adjacent floats, ±0, 1e-17): next to each other
    # when chronological, anywhere otherwise
    if times and not integer_times and rng.random() < 0.12:
        i = rng.randrange(len(times))
        t0 = float(times[i])
        twin = rng.choice([math.nextafter(t0, math.inf), math.nextafter(t0, -math.inf), t0 + 1e-17 if t0 == 0 else t0 * (1 + 3e-16)])
        if t0 == 0 and rng.random() < 0.3:
            twin = -0.0
        j = i + 1 if chronological else rng.randrange(len(times) + 1)
        if chronological and twin < t0:
            j = i
        times.insert(j, twin)
    first = True
    for t in times:
        timing = first or rng.random() < 0.3
        first = False
        if rng.random() < hostile:
            bl = rng.choice(FLOATS + ["0", "-0", "1e-3", "-1e9", "5", "100000"])
        elif timing:
            bl = rng.choice(["500", "333.33", "1000", "461.538461538462", "6", "60000", "300.5"])
        else:
            bl = rng.choice(["-100", "-50", "-200", "-133.333333333333", "-1000", "-10", "-66.6666666666667", "-125"])
        fields = [repr(t) if isinstance(t, float) else str(t), bl, rng.choice(["4", "3", "7", "0", "4", "3", "255", "256", "260", "512", "65536", "2147483647", "1"]), str(rng.randint(0, 3)), str(rng.choice([0, 0, 1, 2, 5, -1, -3])),
                  str(rng.choice([100, 60, 0, 5, 120])), "1" if timing else "0", str(rng.choice([0, 1, 8, 9, 0]))]
        k = 8 if rng.random() > 0.15 else rng.randint(2, 7)
        L.append(",".join(fields[:k]))
    return L


def gen_colours(rng, hostile):
    L = ["[Colours]"]
    for i in range(rng.randint(0, 4)):
        L.append(f"Combo{i + 1} : {rng.randint(0, 255)},{rng.randint(0, 255)},{rng.randint(0, 255)}")
    if rng.random() < 0.4:
        L.append(f"SliderBorder : {rng.randint(0, 255)},{rng.randint(0, 255)},{rng.randint(0, 255)}")
    if rng.random() < hostile:
        L.append(rng.choice(COLOR_LINES))
    if rng.random() < 0.08:
        # a custom colour whose (trimmed) name looks like a section header, a key with brackets (seed C04-l)
        L.append(rng.choice([" [Events]: 1,2,3", " [General] : 4,5,6", "\t[HitObjects]: 7,8,9", " [Colours]x: 1,1,1", " [TimingPoints]: 9,9,9"]))
        if rng.random() < 0.5:
            L.append(f"SliderBorder : {rng.randint(0, 255)},5,6")
    return L


def gen_objects(rng, mode, hostile, chronological, tshift=0, integer_times=False):
    L = ["[HitObjects]"]
    t = rng.choice([0, 500, 1234])
    n = rng.randint(0, 10)
    objs = []
    for _ in range(n):
        x, y = rng.randint(0, 512), rng.randint(0, 384)
        nc = rng.choice([0, 0, 4, 4 + 16 * rng.randint(0, 7)])
        snd = rng.choice([0, 2, 4, 8, 6, 14, 1])
        extra = rng.choice(["0:0:0:0:", "1:2:0:0:", "2:0:0:50:", "0:3:1:70:hit.wav", "", "0:0:3:0:", "1:0:2:0:", "0:2:0:35:", "3:3:7:0:", "2:0:-1:60:", "0:0:-4:0:"])
        kind = rng.choice("ccssnh" if mode == 3 else "cccssn")
        tt = repr(t + tshift) if isinstance(t, float) else str(t + tshift)
        if kind == "c":
            o = f"{x},{y},{tt},{1 | nc},{snd},{extra}"
        elif kind == "s":
            p = rng.choice(GOOD_PATHS).format(a=rng.randint(0, 512), b=rng.randint(0, 384), c=rng.randint(0, 512), d=rng.randint(0, 384),
                                                e=rng.randint(0, 512), f=rng.randint(0, 384), x=x, y=y)
            if rng.random() < 0.3:
                from .props.c14 import rand_path
                p = rand_path(rng)
                if rng.random() < 0.6:
                    # put the object on the same small grid, so that control points coincide with the head
                    x, y = rng.choice([0, 50, 100, 150, 200, 300]), rng.choice([0, 50, 100, 200])
            if rng.random() < 0.06:
                # the first curve point ON the slider's head ending a one-point first segment, then a segment of the same (or another)
                # type: the "previous two control points coincide" rule of the path encoder at its smallest index (seed C04-k)
                t1 = rng.choice("BBLC")
                p = f"{t1}|{x}:{y}|{rng.choice([t1, t1, 'B', 'L'])}|{rng.randint(0, 512)}:{rng.randint(0, 384)}|{rng.randint(0, 512)}:{rng.randint(0, 384)}"
            if rng.random() < hostile:
                p = rng.choice(PATHS)
            reps = rng.choice([1, 1, 2, 3, 5])
            ln = rng.choice(["100", "140.5", "35", "0", "300", "12.25", "1000"])
            es = "|".join(str(rng.choice([0, 2, 4, 8])) for _ in range(reps + 1))
            et = "|".join(f"{rng.randint(0, 3)}:{rng.randint(0, 3)}" for _ in range(reps + 1))
            r = rng.random()
            if r < 0.2:
                o = f"{x},{y},{tt},{2 | nc},{snd},{p},{reps},{ln}"
            elif r < 0.3:
                o = f"{x},{y},{tt},{2 | nc},{snd},{p},{reps}"
            else:
                o = f"{x},{y},{tt},{2 | nc},{snd},{p},{reps},{ln},{es},{et},{extra}"
        elif kind == "n":
            # a spinner's type may carry combo-offset bits as well (they mean nothing for the spinner; what they do to the NEXT
            # object is the question: seed C02-k)
            o = f"256,192,{tt},{8 | (nc if rng.random() < 0.25 else (nc & 4))},{snd},{t + tshift + rng.choice([500, 2000, -10] if integer_times else [500, 2000, -10, 0.25, 0.34, 1000.07])},{extra}"
        else:
            o = f"{x},192,{tt},128,{snd},{t + tshift + rng.choice([300, 1000, 0])}:{extra}"
        if rng.random() < hostile:
            o = corrupt_line(rng, o)
        objs.append(o)
        t += rng.choice([0, 100, 250, 1000, 3000, 1 if integer_times else 0.5])
        if not integer_times and rng.random() < 0.08:
            # decimal fractions that are not dyadic (0.09, 0.34, 1000.1): the sums and differences of such times round
            # (findings F25 / F26 live here: a spinner's end time is written as start + duration)
            t = round(t + rng.choice([0.09, 0.25, 0.1, 0.07, 0.33]), 2)
    if not chronological:
        rng.shuffle(objs)
        if rng.random() < 0.15:
            # many objects on few distinct times, out of order: stability of the finaliser's sort
            ties = []
            times = [rng.choice([0, 250, 1000, 1000.5, 4000]) for _ in range(4)]
            for i in range(rng.randint(24, 64)):
                ties.append(f"{i},192,{rng.choice(times)},1,0,0:0:0:0:")
            objs = objs + ties
            rng.shuffle(objs)
    return L + objs


def corrupt_line(rng, l):
    f = l.split(",")
    k = rng.random()
    if k < 0.25 and len(f) > 1:
        del f[rng.randrange(len(f))]
    elif k < 0.5 and len(f) > 1:
        i, j = rng.randrange(len(f)), rng.randrange(len(f))
        f[i], f[j] = f[j], f[i]
    elif k < 0.75:
        f[rng.randrange(len(f))] = rng.choice(["99999999999", "x", "", "nan", "-1", "1e400", "|", ":"])
    else:
        f.append(rng.choice(["garbage", "1:2:x", "|||"]))
    return ",".join(f)


def gen_map(rng, hostile=0.0, chronological=True, mode=None, version=None, tshift=0, integer_times=False, alien=True):
    mode = rng.randint(0, 3) if mode is None else mode
    version = rng.choice([14, 14, 9, 7, 3, 5, 12, 128, 6, 8]) if version is None else version
    lines = [f"osu file format v{version}", ""]
    secs = [gen_general(rng, mode, hostile), gen_editor(rng, hostile), gen_metadata(rng, hostile), gen_difficulty(rng, hostile),
            gen_events(rng, hostile, 20000, tshift), gen_timing(rng, mode, hostile, 20000, chronological, tshift, integer_times),
            gen_colours(rng, hostile), gen_objects(rng, mode, hostile, chronological, tshift, integer_times)]
    if rng.random() < 0.15:
        rng.shuffle(secs)
    if rng.random() < 0.1:
        secs = [s for s in secs if rng.random() < 0.8]
    if rng.random() < 0.2:
        # a section that appears again later in the file, with other content (sections may repeat, in any order)
        again = [lambda: gen_general(rng, mode, hostile), lambda: gen_editor(rng, hostile), lambda: gen_metadata(rng, hostile),
                 lambda: gen_difficulty(rng, hostile), lambda: gen_events(rng, hostile, 20000, tshift), lambda: gen_colours(rng, hostile),
                 lambda: gen_colours(rng, hostile), lambda: gen_timing(rng, mode, hostile, 20000, chronological, tshift + 30000, integer_times)]
        for _ in range(rng.randint(1, 3)):
            secs.insert(rng.randint(1, len(secs)) if secs else 0, rng.choice(again)())
    if rng.random() < 0.15:
        # a [TimingPoints] / [HitObjects] / [Events] section cut in two with other sections in between: parser state that is
        # pending at the cut (the open same-time group of timing lines, the last object's kind, ...) must survive the
        # excursion exactly as it does inside one section; the second part may open with a line at the very time the first
        # part ended on, carrying other values (seed C07-j)
        heads = [i for i, sec in enumerate(secs) if sec and sec[0] in ("[TimingPoints]", "[HitObjects]", "[Events]") and len(sec) > 2]
        if heads:
            i = rng.choice(heads)
            sec = secs[i]
            k = rng.randint(2, len(sec) - 1)
            first, second = sec[:k], [sec[0]] + sec[k:]
            last = first[-1]
            if sec[0] == "[TimingPoints]" and last.count(",") >= 1 and rng.random() < 0.7:
                t = last.split(",")[0]
                extra = rng.choice([f"{t},250,3,2,0,60,1,1", f"{t},-50,4,1,0,100,0,0", f"{t},500,4,1,0,100,1,0", f"{t},-200,4,2,1,30,0,1"])
                second.insert(1, extra)
            secs[i] = first
            j = rng.randint(i + 1, len(secs))
            if j == i + 1 and rng.random() < 0.7:
                # make sure something that reaches a parser lies in between
                secs.insert(j, rng.choice([["[HitObjects]", f"64,64,{500 + tshift},1,0,0:0:0:0:", f"128,64,{900 + tshift},1,0,0:0:0:0:"], ["[Colours]", "Combo1 : 1,2,3"],
                                           ["[Events]", f"2,{100 + tshift},{900 + tshift}"], ["[General]", "StackLeniency: 0.5"]]))
                j += 1
            secs.insert(j, second)
    if rng.random() < 0.12:
        # sections that every provided decoder ignores, holding lines that would be records elsewhere
        ign = [rng.choice(["[Variables]", "[CatchTheBeat]", "[Mania]"])]
        ign += rng.choice([["$var=320", "$t=1000"], ["Mode: 3", "Title:ignored", "0,0,1000,1,0,0:0:0:0:"], ["Combo1 : 1,2,3", "2,100,900", "0,333,4,1,0,100,1,0"]])
        secs.insert(rng.randint(0, len(secs)), ign)
    if secs and alien and rng.random() < 0.15:
        # records in the "wrong" section: another section's lines, and keys spelled with their section's name in front
        # (legacy spellings such as `EditorBookmarks` / `EditorDistanceSpacing` under [General])
        for _ in range(rng.randint(1, 4)):
            src = rng.choice(secs)
            dst = rng.choice(secs)
            body = [l for l in src[1:] if l and not l.startswith("//")]
            if not body or src is dst:
                continue
            l = rng.choice(body)
            if ":" in l and rng.random() < 0.5:
                l = src[0].strip("[]").rstrip("s") + l
            dst.insert(rng.randint(1, len(dst)), l)
    if secs and alien and rng.random() < 0.2:
        # lines built around words of /repo's CURRENT source (record keys, event / sample names, section names - lib/srctokens.py)
        # in any section: a word the code begins to recognise somewhere is in the alphabet without being listed here
        from .srctokens import extra_lines
        for l in extra_lines(rng, rng.randint(1, 4)):
            dst = rng.choice(secs)
            dst.insert(rng.randint(1, len(dst)), l)
    for s in secs:
        lines += s + [""]
    return lines
