"""Whole-file input families shared by C01, C07, C15 (DESIGN.md 3.4): noise, osu-grammar with hostile numerics,
mutations / splices / truncations of the bundled maps, BOM / UTF-16 variants."""
from .gen import bundled_files, encodings
from .osugen import gen_map, corrupt_line

_BUNDLED = None


def bundled():
    global _BUNDLED
    if _BUNDLED is None:
        _BUNDLED = [(f, open(f, "rb").read()) for f in bundled_files()]
    return _BUNDLED


def small_bundled(limit=6000):
    return [(f, d) for f, d in bundled() if len(d) <= limit]


# small byte strings around the reader's corner cases (BOMs, UTF-16 tails, 0x0A bytes inside other code units)
READER_CORNERS = [b"", b"\n", b"\xff", b"\xff\xfe", b"\xfe\xff", b"\xef\xbb", b"\xef\xbb\xbf", b"\xff\xfe\n", b"\xfe\xff\n", b"\xff\xfe\n\x00",
                  b"\xfe\xff\x00\n", b"\xfe\xff\x01\n", b"\xff\xfe\x05\n", b"\xff\xfe\x41\n\n\x00", b"\xfe\xff\n\x41\x00\n", b"\xff\xfe\n\n\n\x00",
                  b"\xfe\xff\n\n\x00\n", b"\xff\xfe\x41\x00\n", b"\xff\xfe\n\x41", b"\xfe\xff\x00\n\n", b"\xff\xfe\x00\n\x00\n\x00",
                  "\ufeff[General]\nTitle:a\u010a".encode("utf-16-le"), "\ufeff[General]\nTitle:a\u010a".encode("utf-16-be"),
                  "\ufeff[Metadata]\nVersion:Extra \u4e0a".encode("utf-16-le"), "\ufeff[Metadata]\nVersion:Extra \u4e0a".encode("utf-16-be"),
                  "\ufeff[Metadata]\nVersion:x\u0a05".encode("utf-16-le"), "\ufeff[Metadata]\nVersion:x\U0001f60a".encode("utf-16-be"),
                  "\ufeff\r\n[Metadata]\r\nTitle:first\r\n".encode("utf-16-le"), "\ufeff\r\n[Metadata]\r\nTitle:first\r\n".encode("utf-16-be")]


def noise(rng):
    k = rng.random()
    n = rng.choice([0, 1, 2, 3, 5, 17, 64, 300])
    if k < 0.4:
        return bytes(rng.getrandbits(8) for _ in range(n))
    if k < 0.7:
        alphabet = b"[]:,|-0123456789.eE \r\n\tGeneralHitObjectsTimingPoints//BPLC"
        return bytes(rng.choice(alphabet) for _ in range(n * 3))
    return rng.choice([b"\xef\xbb\xbf", b"\xff\xfe", b"\xfe\xff", b""]) + bytes(rng.getrandbits(8) for _ in range(n))


def mutate_bytes(rng, data):
    b = bytearray(data)
    for _ in range(rng.randint(1, 8)):
        if not b:
            break
        k = rng.random()
        i = rng.randrange(len(b))
        if k < 0.3:
            b[i] = rng.getrandbits(8)
        elif k < 0.5:
            del b[i:i + rng.randint(1, 20)]
        elif k < 0.7:
            b[i:i] = bytes(rng.choice(b",:|-.0123456789eE\n[]") for _ in range(rng.randint(1, 6)))
        elif k < 0.85:
            j = rng.randrange(len(b))
            b[i:i] = b[j:j + rng.randint(1, 200)]
        else:
            b[i:i] = rng.choice([b"99999999999", b"-1e400", b"nan", b"2147483648", b"\xff\xfe", b"\x00", b"\xf0\x9f"])
    return bytes(b)


def mutate_lines(rng, data):
    ls = data.decode("utf-8", "replace").split("\n")
    for _ in range(rng.randint(1, 6)):
        if not ls:
            break
        i = rng.randrange(len(ls))
        k = rng.random()
        if k < 0.4:
            ls[i] = corrupt_line(rng, ls[i])
        elif k < 0.6:
            del ls[i]
        elif k < 0.8:
            ls.insert(i, ls[rng.randrange(len(ls))])
        else:
            j = rng.randrange(len(ls))
            ls[i], ls[j] = ls[j], ls[i]
    return "\n".join(ls).encode()


def cross_section(rng):
    """every section's record vocabulary delivered to ONE section's parser: the lines of all eight generators, plain and with
    their own section's name in front of the key (legacy spellings like `EditorBookmarks`), under a single header — and the
    header once more later, so that the section is entered twice."""
    from . import osugen as g
    mode = rng.randint(0, 3)
    secs = [g.gen_general(rng, mode, 0), g.gen_editor(rng, 0), g.gen_metadata(rng, 0), g.gen_difficulty(rng, 0), g.gen_events(rng, 0, 20000),
            g.gen_timing(rng, mode, 0, 20000, True), g.gen_colours(rng, 0), g.gen_objects(rng, mode, 0, True)]
    # the three sections every provided decoder ignores take part as targets: nothing delivered there may have an effect
    target = rng.choice([s[0] for s in secs] + ["[Variables]", "[CatchTheBeat]", "[Mania]"])
    body = []
    for s in secs:
        name = s[0].strip("[]")
        for l in s[1:]:
            if not l or l.startswith("//"):
                continue
            body.append(l)
            if ":" in l.split(",")[0] and rng.random() < 0.7:
                body.append(rng.choice([name, name.rstrip("s")]) + l)
    rng.shuffle(body)
    cut = rng.randint(0, len(body))
    other = rng.choice(secs)[0]
    lines = [f"osu file format v{rng.choice([14, 9, 5, 3])}", "", target] + body[:cut] + ["", other, rng.choice(body) if body else "", "", target] + body[cut:]
    return "\n".join(lines).encode()


def file_case(rng, tier):
    """(tag, bytes)"""
    k = rng.random()
    if k < 0.03:
        return "reader-corner", rng.choice(READER_CORNERS)
    if k < 0.07:
        return "cross-section", cross_section(rng)
    if k < 0.1:
        return "noise", noise(rng)
    if k < 0.55:
        ls = gen_map(rng, hostile=rng.choice([0, 0.1, 0.3, 0.6]), chronological=rng.random() < 0.6)
        text = ("\r\n" if rng.random() < 0.2 else "\n").join(ls)
        if rng.random() < 0.15:
            enc = rng.choice(["utf8bom", "utf16le", "utf16be"])
            return "grammar-" + enc, encodings(text)[enc]
        return "grammar", text.encode()
    pool = small_bundled() if (tier == "quick" or rng.random() < 0.8) else bundled()
    f, d = rng.choice(pool)
    if k < 0.75:
        return "mutate-bytes", mutate_bytes(rng, d)
    if k < 0.9:
        return "mutate-lines", mutate_lines(rng, d)
    return "truncate", d[: rng.randrange(len(d) + 1)]
