"""Cases for the number-codec differential (DESIGN.md 3.3): Rust FromStr/Display/casts vs the model's codec."""
import struct

from .gen import hexs
from .runner import Case

SPECIAL_TEXT = [
    "", " ", "0", "-0", "+0", "1", "-1", "+1", "1.", ".5", ".", "-.", "+.5e-3", "1e5", "1E5", "1e", "1e+", "1e-", "e5",
    "1e5x", "0x10", "1_000", "inf", "-inf", "+inf", "Inf", "INFINITY", "infinity", "infinit", "nan", "NaN", "-nan", "+NaN",
    "1e400", "-1e400", "1e-400", "1e999999999999", "1e-999999999999", "0e999999999999", "0.1", "0.2", "0.3", "0.7", "1.4",
    "3.6", "0.4", "0.5", "8", "6", "60000", "100", "-100", "2147483647", "2147483648", "-2147483648", "-2147483649",
    "2147483647.5", "2147483520", "2147483583.99", "2147483584", "131072", "131072.1", "-131072", "131073",
    "4.9e-324", "2.4703282292062327e-324", "2.4703282292062328e-324", "2.2250738585072014e-308", "2.2250738585072011e-308",
    "1.7976931348623157e308", "1.7976931348623158e308", "1.7976931348623159e308", "9007199254740993", "9007199254740992.5",
    "1.00000000000000011102230246251565404236316680908203125", "1.00000000000000011102230246251565404236316680908203124",
    "1.00000000000000011102230246251565404236316680908203126", "3.4028235e38", "3.4028236e38", "3.40282357e38", "1e-45",
    "7e-46", "7.1e-46", "1.17549435e-38", "16777217", "16777216.5", "16777217.0000001", "0.000001", "1e-5", "123456789012345678901234567890",
    " 1", "1 ", "１", "1,5", "--1", "+-1", "1..2", "1.2.3", "00012", "-000.000", "1e0000000000000000000001", "١", "1e٣",
]


def codec_cases(rng, n):
    cs = []
    for t in SPECIAL_TEXT:
        for cmd in ("pf64", "pf32", "i32", "i32raw", "u8"):
            cs.append(Case(f"{cmd} {hexs(t.encode())}", prop=False, tags=("codec-special",)))
    # random decimal texts
    for _ in range(n):
        k = rng.random()
        if k < 0.3:
            t = str(rng.randint(-2**33, 2**33))
        elif k < 0.6:
            t = repr(rng.uniform(-1e6, 1e6))
        elif k < 0.8:
            digs = "".join(rng.choice("0123456789") for _ in range(rng.randint(1, 30)))
            pos = rng.randint(0, len(digs))
            t = rng.choice(["", "-", "+"]) + digs[:pos] + rng.choice([".", ""]) + digs[pos:]
            if rng.random() < 0.4:
                t += rng.choice("eE") + rng.choice(["", "-", "+"]) + str(rng.randint(0, 330))
        else:
            t = "".join(rng.choice("0123456789.-+eE infa") for _ in range(rng.randint(0, 8)))
        for cmd in ("pf64", "pf32", "i32", "u8"):
            cs.append(Case(f"{cmd} {hexs(t.encode())}", prop=False, tags=("codec-parse",)))
    # display: random bit patterns + structured values
    vals64 = [0, 1 << 63, 1, 0x000FFFFFFFFFFFFF, 0x0010000000000000, 0x7FEFFFFFFFFFFFFF, 0x7FF0000000000000,
              0xFFF0000000000000, 0x7FF8000000000000, 0x3FF0000000000000, 0x4340000000000000, 0x4330000000000000]
    for _ in range(n):
        k = rng.random()
        if k < 0.4:
            vals64.append(rng.getrandbits(64))
        elif k < 0.7:
            vals64.append(struct.unpack("<Q", struct.pack("<d", rng.uniform(-1e5, 1e5)))[0])
        elif k < 0.85:
            vals64.append(struct.unpack("<Q", struct.pack("<d", float(rng.randint(-10**7, 10**7)) / rng.choice([1, 2, 4, 8, 10, 100, 1000])))[0])
        else:
            e = rng.randint(1, 2046)
            vals64.append((e << 52) | rng.choice([0, 1, (1 << 52) - 1]))
    # conversions that the model implements on bit patterns (Model/FloatBits.lean): ties and boundaries
    def d2b(x):
        return struct.unpack("<Q", struct.pack("<d", x))[0]

    def f2b(x):
        return struct.unpack("<I", struct.pack("<f", x))[0]
    cast64 = []
    for _ in range(n):
        k = rng.random()
        sign = rng.getrandbits(1) << 63
        if k < 0.25:      # exactly between two f32 values, and its neighbours (round half to even)
            b32 = rng.getrandbits(31)
            if (b32 >> 23) in (0, 255):
                b32 = (rng.randint(1, 254) << 23) | (b32 & 0x7FFFFF)
            e = (b32 >> 23) - 127 + 1023
            mid = (e << 52) | ((b32 & 0x7FFFFF) << 29) | (1 << 28)
            cast64 += [sign | mid, sign | (mid - 1), sign | (mid + 1)]
        elif k < 0.4:     # the f32 subnormal range and the underflow boundary
            e = rng.randint(1023 - 152, 1023 - 125)
            cast64.append(sign | (e << 52) | rng.choice([0, 1, 1 << 51, (1 << 52) - 1, rng.getrandbits(52), rng.getrandbits(30) << 22]))
        elif k < 0.5:     # the f32 overflow boundary
            cast64.append(sign | ((1023 + rng.choice([126, 127, 128])) << 52) | rng.choice([0, (1 << 52) - 1, 0xFFFFFE0000000, 0xFFFFFEFFFFFFF, 0xFFFFFF0000000, rng.getrandbits(52)]))
        elif k < 0.7:     # around integers (ceil, as i32), incl. +-2^31
            v = rng.choice([0, 1, 2, 3, 1000, 131072, 2**24, 2**31 - 1, 2**31, 2**31 + 1, 2**32, 2**52, 2**53, 2**63, 2**64, rng.randint(0, 2**33)])
            x = float(v)
            b = d2b(x)
            cast64 += [sign | b, sign | (b + 1), sign | max(b - 1, 0), sign | d2b(x + 0.5), sign | d2b(x + rng.random())]
        elif k < 0.8:     # small fractions
            cast64.append(sign | d2b(rng.random() * rng.choice([1.0, 1e-3, 1e-10, 1e-300])))
        else:
            cast64.append(rng.getrandbits(64))
    cast32 = []
    for _ in range(n):
        k = rng.random()
        sign = rng.getrandbits(1) << 31
        if k < 0.3:
            cast32.append(sign | rng.choice([rng.getrandbits(23), 1, 0x7FFFFF, 1 << rng.randint(0, 22)]))      # subnormals
        elif k < 0.6:
            v = rng.choice([0, 1, 2, 1000, 131072, 2**23, 2**24, 2**31, rng.randint(0, 2**25)])
            b = f2b(float(v))
            cast32 += [sign | b, sign | (b + 1), sign | max(b - 1, 0), sign | f2b(v + 0.5), sign | f2b(v + rng.random())]
        else:
            cast32.append(rng.getrandbits(32))
    for b in vals64 + cast64:
        cs.append(Case(f"castf64i32 {b:x}", prop=False, tags=("codec-cast",)))
        cs.append(Case(f"castf64f32 {b:x}", prop=False, tags=("codec-cast",)))
        cs.append(Case(f"ceilf64 {b:x}", prop=False, tags=("codec-cast",)))
        cs.append(Case(f"usizef64 {b:x}", prop=False, tags=("codec-cast",)))
    for b in cast32:
        cs.append(Case(f"castf32f64 {b:x}", prop=False, tags=("codec-cast",)))
        cs.append(Case(f"castf32i32 {b:x}", prop=False, tags=("codec-cast",)))
        cs.append(Case(f"ceilf32 {b:x}", prop=False, tags=("codec-cast",)))
    # the arithmetic itself (Lean 4.33 defines it through the logical model Float.Model and compiles it to C): operand pairs
    pool64 = vals64[:12] + cast64[: max(8, n // 4)] + [d2b(x) for x in (0.1, 0.25, 0.5, 1.0, 2.0, 3.0, 100.0, 1e-5, 1e16, 6.0, 60000.0, 2.220446049250313e-16)]
    pool32 = [0, 1 << 31, 1, 0x007FFFFF, 0x00800000, 0x7F7FFFFF, 0x7F800000, 0xFF800000, 0x7FC00000, 0x3F800000] + cast32[: max(8, n // 4)]
    for _ in range(n):
        op = rng.choice(["add", "sub", "mul", "div", "sqrt", "abs", "neg", "cmp", "minmax"])
        a, b = rng.choice(pool64), rng.choice(pool64)
        if rng.random() < 0.3:      # neighbours: cancellation, ties
            b = (a + rng.choice([-2, -1, 0, 1, 2])) % (1 << 64)
        if rng.random() < 0.15:
            b = a ^ (1 << 63)
        if op == "minmax" and a << 1 & (2**64 - 1) == 0 and b << 1 & (2**64 - 1) == 0:
            op = "cmp"      # min/max of two zeros of different sign is not specified by Rust
        cs.append(Case(f"fop64 {op} {a:x} {b:x}", prop=False, tags=("codec-arith",)))
        a, b = rng.choice(pool32), rng.choice(pool32)
        if rng.random() < 0.3:
            b = (a + rng.choice([-2, -1, 0, 1, 2])) % (1 << 32)
        if rng.random() < 0.15:
            b = a ^ (1 << 31)
        if op == "minmax" and a << 1 & (2**32 - 1) == 0 and b << 1 & (2**32 - 1) == 0:
            op = "cmp"
        cs.append(Case(f"fop32 {op} {a:x} {b:x}", prop=False, tags=("codec-arith",)))
    for b in vals64:
        cs.append(Case(f"df64 {b:x}", prop=False, tags=("codec-display",)))
    vals32 = [0, 1 << 31, 1, 0x007FFFFF, 0x00800000, 0x7F7FFFFF, 0x7F800000, 0xFF800000, 0x7FC00000, 0x3F800000, 0x4B800000]
    for _ in range(n):
        k = rng.random()
        if k < 0.5:
            vals32.append(rng.getrandbits(32))
        elif k < 0.8:
            vals32.append(struct.unpack("<I", struct.pack("<f", rng.uniform(-1e5, 1e5)))[0])
        else:
            e = rng.randint(1, 254)
            vals32.append((e << 23) | rng.choice([0, 1, (1 << 23) - 1]))
    for b in vals32:
        cs.append(Case(f"df32 {b:x}", prop=False, tags=("codec-display",)))
        cs.append(Case(f"castf32i32 {b:x}", prop=False, tags=("codec-cast",)))
    for v in [0, 1, -1, 16777216, 16777217, 16777219, 2147483647, -2147483648, 131072, 33554433] + [rng.randint(-2**31, 2**31 - 1) for _ in range(n // 4)]:
        cs.append(Case(f"casti32f32 {v}", prop=False, tags=("codec-cast",)))
    return cs
