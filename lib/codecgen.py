"""Cases for the number-codec differential (DESIGN.md 3.3): Rust FromStr/Display/casts vs the model's codec."""
import struct

from .gen import hexs
from .runner import Case

SPECIAL_TEXT = [
    "", " ", "0", "-0", "+0", "1", "-1", "+1", "1.", ".5", ".", "-.", "+.5e-3", "1e5", "1E5", "1e", "1e+", "1e-", "e5",
    "1e5x", "0x10", "1_000", "inf", "-inf", "+inf", "Inf", "INFINITY", "infinity", "infinit", "nan", "NaN", "-nan", "+NaN",
    "1e400", "-1e400", "1e-400", "1e999999999999", "1e-999999999999", "0e999999999999", "0.1", "0.2", "0.3", "0.7", "1.4",
    "3.6", "0.4", "0.5", "8", "6", "60000", "100", "-100", "2147483647", "2147483648", "-2147483648", "-2147483649",
    "2147483647.5", "2147483520", "2147483583.99", "2147483584", "131072", "131072.1", "-131072", "131073",
    "4.9e-324", "2.4703282292062327e-324", "2.4703282292062328e-324", "2.2250738585072014e-308", "2.2250738585072011e-308",
    "1.7976931348623157e308", "1.7976931348623158e308", "1.7976931348623159e308", "9007199254740993", "9007199254740992.5",
    "1.00000000000000011102230246251565404236316680908203125", "1.00000000000000011102230246251565404236316680908203124",
    "1.00000000000000011102230246251565404236316680908203126", "3.4028235e38", "3.4028236e38", "3.40282357e38", "1e-45",
    "7e-46", "7.1e-46", "1.17549435e-38", "16777217", "16777216.5", "16777217.0000001", "0.000001", "1e-5", "123456789012345678901234567890",
    " 1", "1 ", "１", "1,5", "--1", "+-1", "1..2", "1.2.3", "00012", "-000.000", "1e0000000000000000000001", "١", "1e٣",
]


def codec_cases(rng, n):
    cs = []
    for t in SPECIAL_TEXT:
        for cmd in ("pf64", "pf32", "i32", "i32raw", "u8"):
            cs.append(Case(f"{cmd} {hexs(t.encode())}", prop=False, tags=("codec-special",)))
    # random decimal texts
    for _ in range(n):
        k = rng.random()
        if k < 0.3:
            t = str(rng.randint(-2**33, 2**33))
        elif k < 0.6:
            t = repr(rng.uniform(-1e6, 1e6))
        elif k < 0.8:
            digs = "".join(rng.choice("0123456789") for _ in range(rng.randint(1, 30)))
            pos = rng.randint(0, len(digs))
            t = rng.choice(["", "-", "+"]) + digs[:pos] + rng.choice([".", ""]) + digs[pos:]
            if rng.random() < 0.4:
                t += rng.choice("eE") + rng.choice(["", "-", "+"]) + str(rng.randint(0, 330))
        else:
            t = "".join(rng.choice("0123456789.-+eE infa") for _ in range(rng.randint(0, 8)))
        for cmd in ("pf64", "pf32", "i32", "u8"):
            cs.append(Case(f"{cmd} {hexs(t.encode())}", prop=False, tags=("codec-parse",)))
    # display: random bit patterns + structured values
    vals64 = [0, 1 << 63, 1, 0x000FFFFFFFFFFFFF, 0x0010000000000000, 0x7FEFFFFFFFFFFFFF, 0x7FF0000000000000,
              0xFFF0000000000000, 0x7FF8000000000000, 0x3FF0000000000000, 0x4340000000000000, 0x4330000000000000]
    for _ in range(n):
        k = rng.random()
        if k < 0.4:
            vals64.append(rng.getrandbits(64))
        elif k < 0.7:
            vals64.append(struct.unpack("<Q", struct.pack("<d", rng.uniform(-1e5, 1e5)))[0])
        elif k < 0.85:
            vals64.append(struct.unpack("<Q", struct.pack("<d", float(rng.randint(-10**7, 10**7)) / rng.choice([1, 2, 4, 8, 10, 100, 1000])))[0])
        else:
            e = rng.randint(1, 2046)
            vals64.append((e << 52) | rng.choice([0, 1, (1 << 52) - 1]))
    for b in vals64:
        cs.append(Case(f"df64 {b:x}", prop=False, tags=("codec-display",)))
        cs.append(Case(f"castf64i32 {b:x}", prop=False, tags=("codec-cast",)))
        cs.append(Case(f"castf64f32 {b:x}", prop=False, tags=("codec-cast",)))
    vals32 = [0, 1 << 31, 1, 0x007FFFFF, 0x00800000, 0x7F7FFFFF, 0x7F800000, 0xFF800000, 0x7FC00000, 0x3F800000, 0x4B800000]
    for _ in range(n):
        k = rng.random()
        if k < 0.5:
            vals32.append(rng.getrandbits(32))
        elif k < 0.8:
            vals32.append(struct.unpack("<I", struct.pack("<f", rng.uniform(-1e5, 1e5)))[0])
        else:
            e = rng.randint(1, 254)
            vals32.append((e << 23) | rng.choice([0, 1, (1 << 23) - 1]))
    for b in vals32:
        cs.append(Case(f"df32 {b:x}", prop=False, tags=("codec-display",)))
        cs.append(Case(f"castf32i32 {b:x}", prop=False, tags=("codec-cast",)))
    for v in [0, 1, -1, 16777216, 16777217, 16777219, 2147483647, -2147483648, 131072, 33554433] + [rng.randint(-2**31, 2**31 - 1) for _ in range(n // 4)]:
        cs.append(Case(f"casti32f32 {v}", prop=False, tags=("codec-cast",)))
    return cs
