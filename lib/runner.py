"""Generic check flow (DESIGN.md 3.5): build → proofs → audit → correspondence → property search → evidence."""
import json
import os
import random
import sys
import time

from . import core


class Case:
    __slots__ = ("line", "corr", "prop", "tags")

    def __init__(self, line, corr=True, prop=True, tags=()):
        self.line = line
        self.corr = corr
        self.prop = prop
        self.tags = tuple(tags)


class Property:
    id = "C00"
    lean_module = None          # e.g. RosuModel.Props.C05
    theorem_modules = None      # files whose top-level theorems are listed and audited (default: lean_module alone)
    namespace = None            # e.g. Rosu.C05
    required_theorems = []      # short names that must exist and pass the audit
    partial_theorems = {}       # short name -> what is missing w.r.t. the property statement
    trusted_base = []
    assumptions = []
    design_ref = ""
    nontrivial_rule = ""
    level_text = ""
    technique = "Lean 4 theorems over a hand-written model + per-run model/implementation correspondence"

    def corpus(self):
        d = os.path.join(core.VERIF, "corpus", self.id)
        out = []
        if os.path.isdir(d):
            for f in sorted(os.listdir(d)):
                for l in open(os.path.join(d, f)):
                    l = l.strip()
                    if l and not l.startswith("#"):
                        # optional prefixes: `@nocorr ` (no model counterpart), `@noprop ` (no oracle)
                        corr = prop = True
                        while l.startswith("@"):
                            flag, l = l.split(" ", 1)
                            corr = corr and flag != "@nocorr"
                            prop = prop and flag != "@noprop"
                        out.append(Case(l, corr=corr, prop=prop, tags=("corpus",)))
        return out

    def gen(self, rng, tier):
        raise NotImplementedError

    def is_nontrivial(self, case, impl_out):
        return True

    def py_oracle(self, case, impl_out):
        """optional implementation-level oracle evaluated in python on the harness observation:
        return None (no opinion), "OK", "SKIP …" or "FAIL …"."""
        return None

    def post(self, tier, corr_cases, impl_out):
        """optional extra implementation-level checks; returns a list of (Case, "FAIL …") to be treated like oracle failures"""
        return []

    def known(self, case, out, findings):
        """return the id of the known finding this failing case is an instance of, or None"""
        return None

    def shrink(self, case, still_fails):
        return case


def _uniq(cases):
    seen = set()
    out = []
    for c in cases:
        if c.line not in seen:
            seen.add(c.line)
            out.append(c)
    return out


def run(prop, tier, seed):
    t0 = time.time()
    pid = prop.id
    known = core.load_known()
    findings = [f for f in known.get("findings", []) if f["property"] == pid]

    core.build_harness()

    proof_problems = []
    ok_build, log = core.lake_build([prop.lean_module, "rosudriver"])
    driver_ok = True
    if not ok_build:
        proof_problems.append({"what": "lake build failed", "log": log[-3000:]})
        # try the driver alone: the model may still be executable
        driver_ok, _ = core.lake_build(["rosudriver"])
    theorems = [f"{prop.namespace}.{t}" for t in prop.required_theorems]
    audit_ok, audit_report = (False, {"skipped": "build failed"})
    discharged = 0
    if ok_build:
        found = [t for m in (prop.theorem_modules or [prop.lean_module])
                 for t in (core.list_theorems(m[0], m[1]) if isinstance(m, tuple) else core.list_theorems(m, prop.namespace))]
        for t in found:
            if t not in theorems:
                theorems.append(t)
        audit_ok, audit_report = core.audit(prop.lean_module, theorems)
        discharged = sum(1 for t in theorems
                         if t in audit_report["axioms"] and set(audit_report["axioms"][t]) <= core.ALLOWED_AXIOMS)
        if audit_report.get("forbidden"):
            discharged = 0
        if not audit_ok:
            proof_problems.append({"what": "audit failed", "report": audit_report})
        if tier == "thorough":
            mods = sorted(m for m in core.transitive_local_imports(prop.lean_module) if ".Props." in m or ".Lemmas." in m)
            lc_ok, lc_log = core.leanchecker(mods)
            audit_report["leanchecker"] = {"modules": mods, "ok": lc_ok}
            if not lc_ok:
                proof_problems.append({"what": "leanchecker rejected a compiled module", "log": lc_log})
                discharged = 0

    rng = random.Random(seed)
    cases = _uniq(prop.corpus() + prop.gen(rng, tier))
    corr_cases = [c for c in cases if c.corr]
    prop_cases = [c for c in cases if c.prop]

    impl_out = core.run_impl([c.line for c in corr_cases])
    disagreements = []
    model_out = []
    if driver_ok:
        model_out = core.run_model([c.line for c in corr_cases])
        for c, a, b in zip(corr_cases, impl_out, model_out):
            if a != b:
                disagreements.append({"case": c.line, "impl": a[:2000], "model": b[:2000]})
    else:
        disagreements.append({"case": None, "impl": None, "model": "driver does not build"})

    prop_out = core.run_prop([c.line for c in prop_cases])
    impl_by_line = {c.line: o for c, o in zip(corr_cases, impl_out)}
    for i, c in enumerate(prop_cases):
        if prop_out[i].startswith("SKIP"):
            obs = impl_by_line.get(c.line)
            if obs is None:
                obs = core.run_impl([c.line])[0]
            r = prop.py_oracle(c, obs)
            if r is not None:
                prop_out[i] = r
    failures, known_hits, skipped = [], {}, 0
    # a known finding is a defect of the pinned code that the model reproduces: a failing case on which model and
    # implementation DISAGREE is never explained by one (something else changed the behaviour there)
    mismatch_lines = {d["case"] for d in disagreements if d.get("case")}
    for c, o in zip(prop_cases, prop_out):
        if o == "OK" or o.startswith("OK "):
            continue
        if o.startswith("SKIP"):
            skipped += 1
            continue
        fid = prop.known(c, o, findings)
        if fid and c.line in mismatch_lines:
            fid = None
            o = o + f" [would match a known finding, but model and implementation disagree on this case]"
        if fid:
            known_hits.setdefault(fid, []).append(c.line)
        else:
            failures.append((c, o))

    for c, o in prop.post(tier, corr_cases, impl_out):
        fid = prop.known(c, o, findings)
        if fid:
            known_hits.setdefault(fid, []).append(c.line)
        else:
            failures.append((c, o))

    tags = {}
    for c in cases:
        for t in c.tags:
            tags[t] = tags.get(t, 0) + 1
    nontrivial = len({c.line for c, o in zip(corr_cases, impl_out) if prop.is_nontrivial(c, o)})

    violation = None
    if failures:
        c, o = failures[0]
        c = prop.shrink(c, lambda cc: _still_fails(prop, cc, findings))
        o2 = _prop_all(prop, [c])[0]
        path = core.write_replay(pid, "input", {
            "property": pid, "kind": "failing-input", "request": c.line, "failure": o, "prop_result_on_replay": o2,
            "impl_observation": core.run_impl([c.line])[0][:4000],
            "model_observation": (core.run_model([c.line])[0][:4000] if driver_ok else None),
            "how_to_replay": f"./check {pid} --replay <this file>",
            "other_failures": len(failures) - 1,
        })
        violation = (path, "")
    elif proof_problems or disagreements:
        # the property is no longer shown to hold: search harder for a failing input
        found = None
        budget_seeds = [seed + 1000003 * k for k in range(1, 4 if tier == "quick" else 9)]
        extra = []
        for d in disagreements[:50]:
            if d["case"]:
                extra.append(Case(d["case"]))
        for s in budget_seeds:
            extra += [c for c in prop.gen(random.Random(s), tier) if c.prop]
        extra = _uniq(extra)
        outs = _prop_all(prop, extra)
        for c, o in zip(extra, outs):
            if o.startswith("OK") or o.startswith("SKIP"):
                continue
            if _explained(prop, c, o, findings):
                continue
            found = (c, o)
            break
        if found:
            c, o = found
            c = prop.shrink(c, lambda cc: _still_fails(prop, cc, findings))
            path = core.write_replay(pid, "input", {
                "property": pid, "kind": "failing-input", "request": c.line,
                "prop_result": _prop_all(prop, [c])[0],
                "broken": proof_problems, "first_disagreement": disagreements[:1],
            })
            violation = (path, "")
        else:
            path = core.write_replay(pid, "unproved", {
                "property": pid, "kind": "no-failing-input-found",
                "broken_proof_obligations": proof_problems,
                "correspondence_disagreements": disagreements[:5],
                "n_disagreements": len(disagreements),
                "searched_cases": len(extra) + len(prop_cases),
            })
            violation = (path, " no-failing-input-found")

    for fid, hits in known_hits.items():
        f = next(f for f in findings if f["id"] == fid)
        print(f"KNOWN-FINDING: property={pid} {fid}: {f['what']} ({len(hits)} instance(s) this run)")

    samples = [{"request": c.line[:300], "impl": a[:300]} for c, a in list(zip(corr_cases, impl_out))[:3]]
    mid = len(corr_cases) // 2
    samples += [{"request": c.line[:300], "impl": a[:300]} for c, a in list(zip(corr_cases, impl_out))[mid:mid + 2]]
    coverage = {
        "obligations": len(theorems),
        "discharged": discharged,
        "checker_cmd": f"cd /verif/lean && lake build {prop.lean_module} && lake env lean <audit file with #print axioms>",
        "trusted_base": prop.trusted_base,
        "theorems": {t: audit_report.get("axioms", {}).get(t) for t in theorems},
        "leanchecker": audit_report.get("leanchecker"),
        "partial_theorems": prop.partial_theorems,
        "traces_validated_against_impl": len(corr_cases) - len([d for d in disagreements if d["case"]]),
        "correspondence_disagreements": len(disagreements),
        "evaluations": len(cases),
        "property_evaluations_on_impl": len(prop_cases) - skipped,
        "distinct_nontrivial": nontrivial,
        "rule": prop.nontrivial_rule,
        "input_distribution": tags,
        "known_finding_instances": {k: len(v) for k, v in known_hits.items()},
        "samples": samples,
        "exhaustive": False,
    }
    core.write_evidence(pid, tier, seed, coverage, prop.assumptions, time.time() - t0,
                        0 if violation is None else 1)
    if violation:
        print(f"VIOLATION property={pid} replay={violation[0]}{violation[1]}")
        return 1
    print(f"{pid}: ok — {discharged}/{len(theorems)} theorems checked, {len(corr_cases)} correspondence cases, "
          f"{len(prop_cases) - skipped} property evaluations, {time.time() - t0:.1f}s")
    return 0


def _prop_all(prop, cases):
    outs = core.run_prop([c.line for c in cases])
    need = [i for i, o in enumerate(outs) if o.startswith("SKIP")]
    if need:
        obs = core.run_impl([cases[i].line for i in need])
        for i, ob in zip(need, obs):
            r = prop.py_oracle(cases[i], ob)
            if r is not None:
                outs[i] = r
    return outs


def _explained(prop, case, o, findings):
    """the known finding that explains failure `o` of `case`, or None. A case on which model and implementation disagree is
    never explained by a known finding (known findings are defects the model reproduces)."""
    fid = prop.known(case, o, findings)
    if fid and case.corr:
        try:
            if core.run_impl([case.line])[0] != core.run_model([case.line])[0]:
                return None
        except Exception:
            pass
    return fid


def _still_fails(prop, case, findings):
    o = _prop_all(prop, [case])[0]
    if o.startswith("OK") or o.startswith("SKIP"):
        return False
    return _explained(prop, case, o, findings) is None


def replay(prop, path):
    body = json.load(open(path))
    req = body.get("request")
    if not req:
        print(json.dumps(body, indent=1))
        return 0
    core.build_harness()
    core.lake_build(["rosudriver"])
    print("request:", req[:500])
    print("impl   :", core.run_impl([req])[0][:2000])
    print("model  :", core.run_model([req])[0][:2000])
    print("prop   :", _prop_all(prop, [Case(req)])[0][:2000])
    return 0
