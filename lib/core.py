"""Orchestration shared by all property checks (see DESIGN.md section 3.5)."""
import concurrent.futures as cf
import hashlib
import json
import os
import re
import subprocess
import sys
import time

VERIF = os.path.dirname(os.path.dirname(os.path.abspath(__file__)))
LEAN = os.path.join(VERIF, "lean")
HARNESS = os.path.join(VERIF, "harness")
BUILD = os.path.join(VERIF, ".build")
# the implementation under test. Every registered command uses /repo; VERIF_REPO exists only so that
# tools/seedtest.py can run a check against a scratch copy of /repo (with a seeded change applied) while
# other runs are using /repo itself. An alternate repo gets its own copy of the harness and its own target dirs.
REPO = os.path.abspath(os.environ.get("VERIF_REPO", "/repo"))
if REPO != "/repo":
    _alt = os.path.join(BUILD, "alt-" + hashlib.sha1(REPO.encode()).hexdigest()[:10])
    HARNESS_SRC, HARNESS = HARNESS, os.path.join(_alt, "harness")
    HARNESS_TARGET = os.path.join(_alt, "harness-target")
else:
    HARNESS_SRC = HARNESS
    HARNESS_TARGET = os.path.join(BUILD, "harness-target")
HARNESS_BIN = os.path.join(HARNESS_TARGET, "release", "rosu-verif-harness")
DRIVER_BIN = os.path.join(LEAN, ".lake", "build", "bin", "rosudriver")
ALLOWED_AXIOMS = {"propext", "Classical.choice", "Quot.sound"}
NCPU = min(16, os.cpu_count() or 4)

ENV = dict(os.environ)
ENV.update({"CARGO_NET_OFFLINE": "true", "PIP_NO_INDEX": "1", "GOPROXY": "off"})


class Infra(Exception):
    """the machinery itself failed (not a statement about the property)"""


def sh(cmd, cwd=None, timeout=3600, inp=None):
    p = subprocess.run(cmd, cwd=cwd, env=ENV, input=inp, capture_output=True, text=True,
                       timeout=timeout, shell=isinstance(cmd, str))
    return p.returncode, p.stdout, p.stderr


def build_harness():
    """rebuild the harness against /repo's current working tree (hooks on)."""
    if HARNESS != HARNESS_SRC:
        import shutil
        shutil.rmtree(HARNESS, ignore_errors=True)
        shutil.copytree(HARNESS_SRC, HARNESS)
        for f, a, b in (("Cargo.toml", 'path = "/repo"', f'path = "{REPO}"'),
                        (".cargo/config.toml", 'target-dir = "../.build/harness-target"', f'target-dir = "{HARNESS_TARGET}"')):
            t = open(os.path.join(HARNESS, f)).read()
            assert a in t
            open(os.path.join(HARNESS, f), "w").write(t.replace(a, b))
    lock_src = os.path.join(REPO, "Cargo.lock")
    lock_dst = os.path.join(HARNESS, "Cargo.lock")
    if os.path.exists(lock_src) and not os.path.exists(lock_dst):
        import shutil
        shutil.copy(lock_src, lock_dst)
    rc, out, err = sh(["cargo", "build", "--release", "--offline"], cwd=HARNESS, timeout=1800)
    if rc != 0:
        raise Infra("harness build failed:\n" + err[-4000:])


HARNESS_TRACING_BIN = os.path.join(HARNESS_TARGET + "-tracing", "release", "rosu-verif-harness")


def build_harness_tracing():
    """second build of the harness with rosu-map's `tracing` feature on (C01's feature-set quantifier)"""
    rc, out, err = sh(["cargo", "build", "--release", "--offline", "--features", "tracing",
                       "--target-dir", HARNESS_TARGET + "-tracing"], cwd=HARNESS, timeout=1800)
    if rc != 0:
        raise Infra("harness (tracing) build failed:\n" + err[-4000:])


def lake_build(targets, clean=False):
    """returns (ok, log). A failure here is *not* an infrastructure error: it means a proof
    or the model no longer checks."""
    if clean:
        pass  # thorough tier re-checks with leanchecker instead of wiping the shared cache
    rc, out, err = sh(["lake", "build"] + targets, cwd=LEAN, timeout=3600)
    return rc == 0, (out + err)


def strip_comments(src):
    src = re.sub(r"/-.*?-/", "", src, flags=re.S)
    src = re.sub(r"--.*", "", src)
    return src


FORBIDDEN = re.compile(r"\b(sorry|admit|native_decide|bv_decide|implemented_by|unsafe)\b|^\s*axiom\s|maxHeartbeats\s+0", re.M)


def module_files(mod):
    return os.path.join(LEAN, *mod.split(".")) + ".lean"


def transitive_local_imports(mod, seen=None):
    seen = seen if seen is not None else set()
    if mod in seen:
        return seen
    path = module_files(mod)
    if not os.path.exists(path):
        return seen
    seen.add(mod)
    for m in re.findall(r"^import\s+(RosuModel\.[\w.]+)", open(path).read(), flags=re.M):
        transitive_local_imports(m, seen)
    return seen


def audit(prop_module, theorems):
    """source scan for forbidden constructs + `#print axioms` of every property theorem.
    returns (ok, report dict)."""
    report = {"forbidden": [], "axioms": {}, "missing": []}
    mods = sorted(transitive_local_imports(prop_module))
    for m in mods:
        src = strip_comments(open(module_files(m)).read())
        for hit in FORBIDDEN.finditer(src):
            report["forbidden"].append(f"{m}: {hit.group(0).strip()}")
    os.makedirs(os.path.join(BUILD, "audit"), exist_ok=True)
    f = os.path.join(BUILD, "audit", prop_module.replace(".", "_") + ".lean")
    with open(f, "w") as fh:
        fh.write(f"import {prop_module}\n")
        for t in theorems:
            fh.write(f"#print axioms {t}\n")
    rc, out, err = sh(["lake", "env", "lean", f], cwd=LEAN, timeout=1800)
    text = out + err
    for t in theorems:
        m = re.search(r"'" + re.escape(t) + r"' depends on axioms: \[(.*?)\]", text, flags=re.S)
        if m:
            report["axioms"][t] = [a.strip() for a in m.group(1).replace("\n", " ").split(",") if a.strip()]
        elif re.search(r"'" + re.escape(t) + r"' does not depend on any axioms", text):
            report["axioms"][t] = []
        else:
            report["missing"].append(t)
    bad = [t for t, ax in report["axioms"].items() if not set(ax) <= ALLOWED_AXIOMS]
    report["bad_axioms"] = bad
    ok = not report["forbidden"] and not report["missing"] and not bad
    report["modules"] = mods
    if not ok:
        report["raw"] = text[-3000:]
    return ok, report


def leanchecker(modules):
    """independent re-check of the compiled .olean files (thorough tier). returns (ok, log)"""
    rc, out, err = sh(["lake", "env", "leanchecker"] + modules, cwd=LEAN, timeout=3600)
    return rc == 0, (out + err)[-2000:]


def list_theorems(prop_module, namespace):
    """fully qualified names of the top-level `theorem`s of a module's source file. Follows `namespace X` / `section X` /
    `end X` nesting and `_root_.` prefixes; `namespace` is only the fallback for a file that opens no namespace."""
    src = strip_comments(open(module_files(prop_module)).read())
    stack = []   # (kind, name)
    out = []
    for line in src.split("\n"):
        m = re.match(r"^(namespace|section)\b\s*(\S*)", line)
        if m:
            stack.append((m.group(1), m.group(2)))
            continue
        m = re.match(r"^end\b\s*(\S*)", line)
        if m and stack:
            stack.pop()
            continue
        m = re.match(r"^(?:@\[[^\]]*\]\s*)?(?:private\s+|protected\s+)?theorem\s+([^\s({\[:]+)", line)
        if m:
            n = m.group(1)
            if n.startswith("_root_."):
                out.append(n[len("_root_."):])
            else:
                ns = ".".join(name for kind, name in stack if kind == "namespace" and name)
                out.append(f"{ns or namespace}.{n}")
    return out


def _run_shard(args):
    """run one process over the lines; if it dies (crash, abort) or gives up on a request (TIMEOUT, exit 3),
    keep what it printed, mark the offending request and resume after it"""
    binary, mode, lines = args
    cmd = [binary] + ([mode] if mode else [])
    results = []
    rest = list(lines)
    while rest:
        try:
            p = subprocess.run(cmd, input="\n".join(rest) + "\n", capture_output=True, text=True, env=ENV,
                               timeout=200 + 0.2 * len(rest))
            out = p.stdout.split("\n")
            rc = p.returncode
        except subprocess.TimeoutExpired as e:
            out = (e.stdout.decode() if isinstance(e.stdout, bytes) else (e.stdout or "")).split("\n")
            rc = -9
        if out and out[-1] == "":
            out.pop()
        if len(out) >= len(rest):
            results += out[:len(rest)]
            break
        # fewer answers than requests: `out` covers rest[:len(out)] (a TIMEOUT line answers its request)
        k = len(out)
        if out and out[-1].startswith("TIMEOUT"):
            results += out
            rest = rest[k:]
            # a change that makes MANY requests spin would otherwise cost the limit once per request: after five requests of
            # one shard have run into the limit the rest of the shard is not run (each is answered `SKIP`; the five are
            # failures already, and the replay names one of them)
            # (requests that carry their own `limit=` - inputs recorded as non-terminating, finding F23 - do not count)
            if sum(1 for o, l in zip(results, lines) if o.startswith("TIMEOUT") and not l.startswith("limit=")) >= 5:
                results += ["SKIP not-run: five requests of this shard did not return within the limit"] * len(rest)
                break
        else:
            results += out + [f"CRASH rc={rc}"]
            rest = rest[k + 1:]
    return results


def run_lines(binary, mode, cases, shards=NCPU):
    """run `binary [mode]` over the case lines, sharded over the cores; returns one output per case."""
    if not cases:
        return []
    n = max(1, min(shards, len(cases) // 50 or 1))
    # round-robin over the shards: generators emit their heavy families (long Bezier segments, large files) next to each
    # other, and contiguous blocks would put them all into one process
    parts = [cases[i::n] for i in range(n)]
    with cf.ThreadPoolExecutor(max_workers=n) as ex:
        outs = list(ex.map(_run_shard, [(binary, mode, p) for p in parts]))
    res = [None] * len(cases)
    for i, part in enumerate(outs):
        for j, o in enumerate(part):
            res[i + j * n] = o
    # a request that ran into the per-request limit of the harness is asked once more, alone and with a limit six times as
    # long, before it counts as "does not return": on a loaded machine a heavy request (a large bundled map under an oracle that
    # re-decodes it hundreds of times) can exceed the default limit without hanging (seen once in a seed sweep run next to a
    # mutation campaign, DESIGN 6.2). A request that carries its own `limit=` (finding F23) is not asked again.
    if mode is not None:
        again = [i for i, (c, o) in enumerate(zip(cases, res)) if o.startswith("TIMEOUT") and not c.startswith("limit=")]
        if again:
            base = int(os.environ.get("VERIF_CASE_TIMEOUT", "10"))
            with cf.ThreadPoolExecutor(max_workers=min(4, len(again))) as ex:
                redo = list(ex.map(_run_shard, [(binary, mode, [f"limit={6 * base} " + cases[i]]) for i in again[:4]]))
            for i, r in zip(again[:4], redo):
                if r and not r[0].startswith("TIMEOUT"):
                    res[i] = r[0]
    return res


def run_impl(cases):
    return run_lines(HARNESS_BIN, "impl", cases)


def run_prop(cases):
    return run_lines(HARNESS_BIN, "prop", cases)


def run_model(cases):
    return run_lines(DRIVER_BIN, None, cases)


def digest(s):
    return hashlib.sha1(s.encode()).hexdigest()[:12]


def load_known():
    p = os.path.join(VERIF, "known_findings.json")
    if not os.path.exists(p):
        return {"findings": [], "fixed": []}
    return json.load(open(p))


def write_replay(pid, kind, body):
    d = os.path.join(VERIF, "replays")
    os.makedirs(d, exist_ok=True)
    path = os.path.join(d, f"{pid}-{kind}-{digest(json.dumps(body, sort_keys=True))}.json")
    with open(path, "w") as fh:
        json.dump(body, fh, indent=1)
    return path


def write_evidence(pid, tier, seed, coverage, assumptions, wall, violations):
    d = os.path.join(VERIF, "evidence")
    os.makedirs(d, exist_ok=True)
    ev = {
        "property_id": pid,
        "tier": tier,
        "seed": seed,
        "level": "proof",
        "coverage": coverage,
        "assumptions": assumptions,
        "wall_s": round(wall, 2),
        "violations": violations,
    }
    with open(os.path.join(d, f"{pid}.json"), "w") as fh:
        json.dump(ev, fh, indent=1)
