"""Independent reference parser for hit-object lines, written from the text of property C14
(legacy grammar), not from the Rust code or the Lean model. Produces the same canonical dump as
`harness impl ho`, so the two can be compared as strings."""
import re
import struct
from fractions import Fraction

NUM_RE = re.compile(r"^[+-]?(?:(?:\d+\.?\d*|\.\d+)(?:[eE][+-]?\d+)?)$")
SPECIAL = {"inf", "infinity", "nan"}
I32_MAX = 2147483647
WS = "\t\n\x0b\x0c\r \x85\xa0                　"


def trim(s):
    return s.strip(WS)


def rust_float(s):
    """(kind, Fraction|None): kind in num/inf/-inf/nan, or None if not a Rust float literal"""
    t = s
    body = t[1:] if t[:1] in "+-" else t
    neg = t[:1] == "-"
    if body.lower() in SPECIAL:
        if body.lower() == "nan":
            return ("nan", None)
        return ("-inf" if neg else "inf", None)
    if not NUM_RE.match(t) or not t.isascii():
        return None
    m = re.match(r"^([+-]?)(\d*)\.?(\d*)(?:[eE]([+-]?\d+))?$", t)
    ip, fp, ex = m.group(2), m.group(3), int(m.group(4) or 0)
    mant = int((ip + fp) or "0")
    if mant == 0:
        return ("num", Fraction(0), neg)
    e = ex - len(fp)
    if e > 400:
        return ("-inf" if neg else "inf", None)
    if e < -800:
        return ("num", Fraction(0), neg)
    v = Fraction(mant) * (Fraction(10) ** e)
    return ("num", -v if neg else v, neg)


def round_to(fr, p, emin, emax):
    """round a Fraction to binary float with p bits; returns a Fraction or 'inf'"""
    if fr == 0:
        return Fraction(0)
    sign = -1 if fr < 0 else 1
    a = abs(fr)
    e = a.numerator.bit_length() - a.denominator.bit_length()
    if Fraction(2) ** e > a:
        e -= 1
    e = max(e, emin)
    q = a / (Fraction(2) ** (e - p + 1))
    n = q.numerator // q.denominator
    r = q - n
    if r > Fraction(1, 2) or (r == Fraction(1, 2) and n % 2 == 1):
        n += 1
    res = n * (Fraction(2) ** (e - p + 1))
    if res >= Fraction(2) ** (emax + 1):
        return "inf"
    return sign * res


def f64_of(fr):
    r = round_to(fr, 53, -1022, 1023)
    return float("inf") if r == "inf" else float(r)


def f32_of(fr):
    r = round_to(fr, 24, -126, 127)
    return float("inf") if r == "inf" else float(r)


def parse_float(s, bits, limit, allow_nan=False):
    """rosu-map parse_with_limits on the trimmed text; returns python float or None"""
    r = rust_float(trim(s))
    if r is None:
        return None
    if r[0] == "nan":
        return float("nan") if allow_nan else None
    if r[0] in ("inf", "-inf"):
        return None  # beyond every limit
    v = f64_of(r[1]) if bits == 64 else f32_of(r[1])
    if r[2] and v == 0:
        v = -0.0
    if abs(v) > limit:
        return None
    return v


def raw_i32(s):
    if not re.match(r"^[+-]?\d+$", s) or not s.isascii():
        return None
    n = int(s)
    return n if -2147483648 <= n <= I32_MAX else None


def parse_i32(s):
    n = raw_i32(trim(s))
    if n is None or n == -2147483648:
        return None
    return n


def h64(x):
    if x != x:
        return "nan"
    return format(struct.unpack(">Q", struct.pack(">d", x))[0], "x")


def h32(x):
    if x != x:
        return "nan"
    return format(struct.unpack(">I", struct.pack(">f", x))[0], "x")


def hexs(s):
    b = s.encode()
    return b.hex() if b else "-"


def strip_comment(l):
    i = l.find("//")
    if i >= 0:
        l = l[:i]
    return l.rstrip(WS)


def bank_of(n):
    return n if 0 <= n <= 3 else 1


class Bad(Exception):
    pass


def read_banks(info, pieces, banks_only):
    """the sample-bank field `normal:addition[:custom[:volume[:file]]]`"""
    if not pieces or pieces[0] == "":
        return
    b = parse_i32(pieces[0])
    if b is None or len(pieces) < 2:
        raise Bad
    ab = parse_i32(pieces[1])
    if ab is None:
        raise Bad
    nb = bank_of(b) or None
    adb = bank_of(ab) or None
    info["normal"] = nb
    info["add"] = adb if adb is not None else nb
    if banks_only:
        return
    if len(pieces) > 2:
        c = parse_i32(pieces[2])
        if c is None:
            raise Bad
        info["custom"] = c
    if len(pieces) > 3:
        v = parse_i32(pieces[3])
        if v is None:
            raise Bad
        info["volume"] = max(0, v)
    info["file"] = pieces[4] if len(pieces) > 4 else None


def new_info():
    return {"file": None, "normal": None, "add": None, "volume": 0, "custom": 0}


def sample(name, bank, custom, vol, layered=False):
    suffix = str(custom) if custom >= 2 else "-"
    return f"{name}/{bank if bank is not None else 1}/{suffix}/{vol}/{custom}/{1 if bank is not None else 0}/{1 if layered else 0}"


def samples_of(info, snd):
    out = []
    if info["file"]:
        out.append(sample("F" + hexs(info["file"]), None, 1, info["volume"]))
    else:
        out.append(sample("n", info["normal"], info["custom"], info["volume"], layered=(snd != 0 and not snd & 1)))
    for bit, nm in ((4, "f"), (2, "w"), (8, "c")):
        if snd & bit:
            out.append(sample(nm, info["add"], info["custom"], info["volume"]))
    return "[" + ",".join(out) + "]"


def trunc(v):
    return float(int(v))


def read_point(txt, ox, oy):
    ps = txt.split(":")
    if len(ps) < 2:
        raise Bad
    x = parse_float(ps[0], 64, 131072.0)
    if x is None:
        raise Bad
    y = parse_float(ps[1], 64, 131072.0)
    if y is None:
        raise Bad
    # as i32 as f32, minus the object's position (f32 arithmetic; integers of this size are exact)
    return [f32_of(Fraction(trunc(x)) - Fraction(ox)), f32_of(Fraction(trunc(y)) - Fraction(oy)), None]


def path_type(tok):
    c = tok[:1]
    if c == "B":
        d = raw_i32(tok[1:])
        return "B" + str(d) if d is not None and d > 0 else "B"
    if c == "L":
        return "L"
    if c == "P":
        return "P"
    return "C"


F32_EPS = 2.0 ** -23


def f32(x):
    return struct.unpack(">f", struct.pack(">f", x))[0]


def is_linear(a, b, c):
    # evaluated in f32 as the code does
    t1 = f32(f32(b[1] - a[1]) * f32(c[0] - a[0]))
    t2 = f32(f32(b[0] - a[0]) * f32(c[1] - a[1]))
    return abs(f32(t1 - t2)) < F32_EPS


def convert_segment(out, toks, end_tok, first, ox, oy):
    """one typed segment: toks[0] is the type token, toks[1:] its points, end_tok the first point of the next segment"""
    t = path_type(toks[0])
    vs = []
    if first:
        vs.append([0.0, 0.0, None])
    for p in toks[1:]:
        vs.append(read_point(p, ox, oy))
    epl = 0
    if end_tok is not None:
        vs.append(read_point(end_tok, ox, oy))
        epl = 1
    if t == "P":
        if len(vs) == 3:
            if is_linear(vs[0], vs[1], vs[2]):
                t = "L"
        else:
            t = "B"
    if not vs:
        raise Bad
    vs[0][2] = t
    n = len(vs) - epl
    start = 0
    end = 1
    while end < n:
        same = vs[end][0] == vs[end - 1][0] and vs[end][1] == vs[end - 1][1]
        if same and not (t == "C" and end > 1) and end != n - 1:
            vs[end - 1][2] = t
            out.extend(vs[start:end])
            start = end + 1
        end += 1
    if end > start:
        out.extend(vs[start:end])


def convert_path(leftover, s, ox, oy):
    toks = s.split("|")
    start, first = 0, True
    i = 1
    while i < len(toks):
        if toks[i] == "":
            raise Bad
        if toks[i][0].isascii() and toks[i][0].isalpha():
            convert_segment(leftover, toks[start:i], toks[i + 1] if i + 1 < len(toks) else None, first, ox, oy)
            start, first = i, False
        i += 1
    convert_segment(leftover, toks[start:], None, first, ox, oy)


def fmt_cps(cps):
    if not cps:
        return "-"
    return ";".join(f"{h32(p[0])}:{h32(p[1])}:{p[2] or '-'}" for p in cps)


def run(mode, lines):
    """returns the canonical dump `ok=… last=… cp=… n=… | obj …`"""
    flags = ""
    last = None
    objs = []
    for line in lines:
        leftover = []   # a line starts from clean path buffers: a rejected line leaves no trace (C06)
        try:
            f = strip_comment(line).split(",")
            if len(f) < 5:
                raise Bad
            x = parse_float(f[0], 32, 131072.0)
            if x is None:
                raise Bad
            y = parse_float(f[1], 32, 131072.0)
            if y is None:
                raise Bad
            px, py = trunc(x), trunc(y)
            t = parse_float(f[2], 64, 2147483647.0)
            if t is None:
                raise Bad
            ty = raw_i32(f[3])
            if ty is None:
                raise Bad
            snd = raw_i32(f[4])
            if snd is None:
                raise Bad
            snd &= 0xFF
            co = (ty >> 4) & 7
            nc = bool(ty & 4)
            kind = ty & ~0x70 & ~4
            info = new_info()
            first_or_spinner = last is None or bool(last & 8)
            rest = f[5:]
            if kind & 1:
                if rest:
                    read_banks(info, rest[0].split(":"), False)
                obj = f"C t={h64(t)} p={h32(px)}:{h32(py)} nc={int(first_or_spinner or nc)} co={co if nc else 0} s={samples_of(info, snd)}"
            elif kind & 2:
                if len(rest) < 2:
                    raise Bad
                rc = parse_i32(rest[1])
                if rc is None or rc > 9000:
                    raise Bad
                rc = max(0, rc - 1)
                ln = None
                if len(rest) > 2:
                    v = parse_float(rest[2], 64, 131072.0)
                    if v is None:
                        raise Bad
                    v = max(v, 0.0)
                    if abs(v) >= 2.0 ** -52:
                        ln = v
                if len(rest) > 5:
                    read_banks(info, rest[5].split(":"), True)
                nodes = rc + 2
                node_infos = [dict(info) for _ in range(nodes)]
                if len(rest) > 4 and rest[4] != "":
                    for ni, s in zip(node_infos, rest[4].split("|")):
                        read_banks(ni, s.split(":"), False)
                node_snds = [snd] * nodes
                if len(rest) > 3 and rest[3] != "":
                    for k, s in zip(range(nodes), rest[3].split("|")):
                        v = raw_i32(s)
                        node_snds[k] = (v & 0xFF) if v is not None else 0
                ns = "|".join(samples_of(i, s) for i, s in zip(node_infos, node_snds))
                convert_path(leftover, rest[0], px, py)
                cps, leftover = leftover, []
                obj = (f"S t={h64(t)} p={h32(px)}:{h32(py)} nc={int(first_or_spinner or nc)} co={co if nc else 0} rc={rc} "
                       f"len={h64(ln) if ln is not None else '-'} m={mode} cps={fmt_cps(cps)} ns={ns} s={samples_of(info, snd)}")
            elif kind & 8:
                if not rest:
                    raise Bad
                e = parse_float(rest[0], 64, 2147483647.0)
                if e is None:
                    raise Bad
                d = max(e - t, 0.0)
                if len(rest) > 1:
                    read_banks(info, rest[1].split(":"), False)
                obj = f"N t={h64(t)} p={h32(256.0)}:{h32(192.0)} d={h64(d)} nc={int(nc)} s={samples_of(info, snd)}"
            elif kind & 128:
                end = t
                if rest and rest[0] != "":
                    ss = rest[0].split(":")
                    e = parse_float(ss[0], 64, 2147483647.0)
                    if e is None:
                        raise Bad
                    end = max(t, e)
                    read_banks(info, ss[1:], False)
                obj = f"H t={h64(t)} x={h32(px)} d={h64(end - t)} s={samples_of(info, snd)}"
            else:
                raise Bad
            objs.append(obj)
            last = kind
            flags += "1"
        except Bad:
            flags += "0"
    return f"ok={flags} last={'-' if last is None else last} cp=- n={len(objs)}" + "".join(" | " + o for o in objs)
