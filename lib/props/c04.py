from ..filegen import file_case, bundled, small_bundled
from ..gen import hexs
from ..osugen import gen_map
from ..runner import Case, Property


class C04(Property):
    id = "C04"
    lean_module = "RosuModel.Props.C04"
    namespace = "Rosu.C04"
    design_ref = "5.4"
    required_theorems = ["headers_recognised", "encode_shape", "block_starts_with_header", "encoded_text_lines"]
    partial_theorems = {
        "line acceptance (general_lines_accepted … hitobject_lines_accepted, same_record_kind)": "proved so far: the shape of the output (version line, eight blocks in canonical "
            "order, each starting with its recognised header) and that the reader hands the framing driver exactly the text's lines. That every record line is accepted by its section "
            "parser is proved for the metadata text lines (Props/C03) and otherwise evaluated on the implementation by the `lines` oracle (a wrapping decoder logs every parser call "
            "of the re-decode: no line lost, none rejected, same number of objects / timing points / breaks / colours) and by the char-for-char encoder correspondence",
    }
    level_text = ("Lean 4 theorems over the encoder model: the encoded text is the version line followed by the eight blocks in canonical order, each introduced by a blank line and "
                  "starting with the header its decoder recognises (encode_shape, headers_recognised), and reading that text back yields exactly its own lines (encoded_text_lines, via "
                  "C10). The encoder model is compared character for character with Beatmap::encode_to_string on every generated and bundled map; the property itself is evaluated on the "
                  "real code for every line of every encoding (oracle `lines`).")
    technique = "Lean 4 proof (output shape, reader inversion) + char-for-char encoder correspondence + per-line acceptance oracle on the implementation"
    trusted_base = [
        "Lean 4.33.0 kernel; axioms ⊆ {propext, Classical.choice, Quot.sound} per #print axioms",
        "hand-written Model/Encode.lean (+ decode model) tied to /repo by the `enc` differential: identical text on every case of this run",
        "Rust Display for f32/f64/i32/u8 (model codec validated against Rust by lib/codecgen.py on >10^6 values)",
    ]
    assumptions = ["maps are obtained by decoding (the property's domain); edited maps are C03's domain"]
    nontrivial_rule = "decoded maps from the C01/C02 generators incl. non-chronological and hostile inputs; non-trivial = encoding has more than 40 lines"

    def gen(self, rng, tier):
        cases = []
        n = 1500 if tier == "quick" else 60000
        for _ in range(n):
            if rng.random() < 0.7:
                ls = gen_map(rng, hostile=rng.choice([0, 0.1, 0.3]), chronological=rng.random() < 0.6)
                data = "\n".join(ls).encode()
                tag = "grammar"
            else:
                tag, data = file_case(rng, tier)
            h = hexs(data)
            cases.append(Case("lines " + h, corr=False, tags=(tag,)))
            cases.append(Case("enc " + h, prop=False, tags=("enc-" + tag,)))
        for f, d in (small_bundled() if tier == "quick" else bundled()):
            cases.append(Case("lines " + hexs(d), corr=False, tags=("bundled",)))
            cases.append(Case("enc " + hexs(d), prop=False, tags=("bundled",)))
        return cases

    def is_nontrivial(self, case, impl_out):
        return impl_out.startswith("ok") and impl_out.count("0a") > 40


PROP = C04()
