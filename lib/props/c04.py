from ..filegen import file_case, bundled, small_bundled
from ..gen import hexs
from ..osugen import gen_map
from ..runner import Case, Property


class C04(Property):
    id = "C04"
    lean_module = "RosuModel.Props.C04"
    namespace = "Rosu.C04"
    design_ref = "5.4"
    required_theorems = ["headers_recognised", "encode_shape", "block_starts_with_header", "encoded_text_lines", "version_line_parses",
                         "record_blocks_are_lines", "lines_of_block", "record_lines_accepted_metadata", "record_lines_accepted_colours",
                         "record_lines_accepted_editor", "record_lines_accepted_difficulty", "record_lines_accepted_general",
                         "record_lines_accepted_events", "lines_dispatched", "record_blocks_accepted_and_recovered",
                         "hitobject_lines_accepted_partial"]
    partial_theorems = {
        "record_lines_accepted_editor / _difficulty / _general / _events, record_blocks_accepted_and_recovered":
            "law-dependent: proved for every number codec satisfying CodecLaws (+ IntPrintLaw for AudioLeadIn), shown satisfiable by Lemmas/ToyCodec.lean; CodecLaws is now also a theorem "
            "for the model's IEEE codec (C02: parseBits_printBits_f64/_f32, printBits_clean, codecLaws_float(32) under the bit-cast hypothesis FloatBitsLaw about Lean's opaque Float); IntPrintLaw "
            "likewise (C02: printBits_intBits_f64, intPrintLaw_float under FloatOfIntLaw). Not proved: that Rust's Display/FromStr equal the model codec (tested by lib/codecgen.py). record_lines_accepted_metadata / _colours, version_line_parses, encode_shape, lines_dispatched need no law",
        "record_lines_accepted_*": "stated for section records that are representable (Rt*.Rep*: self-trimmed single-line texts, file names without `//`, backslash (and, for the background, "
            "comma / outer quotes), integers within ±(2^31−1), floats representable by the codec within the parse limit and inside the field's clamp, colour components ≤ 255, custom colour "
            "names without `:` / `//` / leading `Combo`, pairwise distinct). That every *decoded* map satisfies these (the `Decoded` invariant of DESIGN 5.4) is not proved here",
        "hitobject_lines_accepted_partial": "law-dependent; covers circles, spinners and hold notes only (line is LF-free, a record line, accepted in any state, same kind of object comes back); "
            "slider lines are missing",
        "line acceptance for slider and [TimingPoints] lines (timing_lines_accepted, hitobject_lines_accepted, same_record_kind)":
            "NOT yet theorems (`def list_block_lines_accepted_statement : Prop`); record_blocks_accepted_and_recovered assumes of these two blocks only that they are LF-terminated lines that "
            "are neither headers nor skipped. Evaluated on the implementation by the `lines` oracle (a wrapping decoder logs every parser call of the re-decode: no line lost, none "
            "rejected, same number of objects / timing points / breaks / colours) and by the char-for-char encoder correspondence",
    }
    level_text = ("Lean 4 theorems over the encoder and decoder models: the encoded text is the version line followed by the eight blocks in canonical order, each introduced by a blank line and "
                  "starting with the header its decoder recognises (encode_shape, headers_recognised); the version line parses back to the map's version (version_line_parses); each of the six "
                  "record blocks is its header plus an explicit list of LF-terminated record lines (record_blocks_are_lines), every one of which is neither a header nor skipped and is accepted "
                  "by its section's parser in any state (record_lines_accepted_<section>; sections with floats: for every lawful number codec — the model's IEEE codec is proved lawful at the bit level, C02); reading the text back yields exactly its own "
                  "end-trimmed lines (encoded_text_lines, via C10) and the framing driver hands each block's lines, in order, to exactly that section's parser (lines_dispatched, via C05); "
                  "file level for the record blocks: record_blocks_accepted_and_recovered; hit-object lines of circles, spinners and hold notes: hitobject_lines_accepted_partial. "
                  "Acceptance of slider and timing-point lines is not yet a theorem. "
                  "The encoder model is compared character for character with Beatmap::encode_to_string on every generated and bundled map; the property itself is evaluated on the "
                  "real code for every line of every encoding (oracle `lines`).")
    technique = "Lean 4 proof (output shape, reader inversion, per-line acceptance and dispatch for the six record sections; law-dependent where floats are printed) + char-for-char encoder correspondence + per-line acceptance oracle on the implementation"
    trusted_base = [
        "Lean 4.33.0 kernel; axioms ⊆ {propext, Classical.choice, Quot.sound} per #print axioms",
        "hand-written Model/Encode.lean (+ decode model) tied to /repo by the `enc` differential: identical text on every case of this run",
        "Rust Display for f32/f64/i32/u8 (model codec validated against Rust by lib/codecgen.py on >10^6 values; the model codec itself is proved to satisfy CodecLaws in Props/C02Codec.lean "
        "up to the runtime hypotheses FloatBitsLaw / FloatOfIntLaw)",
    ]
    assumptions = ["maps are obtained by decoding (the property's domain); edited maps are C03's domain"]
    nontrivial_rule = "decoded maps from the C01/C02 generators incl. non-chronological and hostile inputs; non-trivial = encoding has more than 40 lines"

    def gen(self, rng, tier):
        cases = []
        n = 1500 if tier == "quick" else 60000
        for _ in range(n):
            if rng.random() < 0.7:
                ls = gen_map(rng, hostile=rng.choice([0, 0.1, 0.3]), chronological=rng.random() < 0.6)
                data = "\n".join(ls).encode()
                tag = "grammar"
            else:
                tag, data = file_case(rng, tier)
            h = hexs(data)
            cases.append(Case("lines " + h, corr=False, tags=(tag,)))
            cases.append(Case("enc " + h, prop=False, tags=("enc-" + tag,)))
        for f, d in (small_bundled() if tier == "quick" else bundled()):
            cases.append(Case("lines " + hexs(d), corr=False, tags=("bundled",)))
            cases.append(Case("enc " + hexs(d), prop=False, tags=("bundled",)))
        return cases

    def known(self, case, out, findings):
        if "explained=computed-length-above-parse-limit" in out and any(f["id"] == "F20" for f in findings):
            return "F20"
        return None

    def is_nontrivial(self, case, impl_out):
        return impl_out.startswith("ok") and impl_out.count("0a") > 40


PROP = C04()
