from ..filegen import file_case, bundled, small_bundled
from ..gen import hexs
from ..osugen import gen_map
from ..runner import Case, Property


class C04(Property):
    id = "C04"
    lean_module = "RosuModel.Props.C04All"   # imports Props/C04Slider.lean, Props/C04Timing.lean (which import Props/C04.lean), Props/C04File.lean, Props/C04Toy.lean, Props/C04Decoded.lean and Props/C04Ieee.lean; all in namespace Rosu.C04
    theorem_modules = ['RosuModel.Props.C04All', 'RosuModel.Props.C04Ieee', 'RosuModel.Props.C04DecodedIeee', 'RosuModel.Props.C04DecodedObjects', 'RosuModel.Props.C04DecodedObjectsToy',
                       'RosuModel.Props.C04DecodedObjectsIeee', ('RosuModel.Lemmas.DecodedObjInv', 'Rosu.DecodedObj'),
                       'RosuModel.Props.C04DecodedObjectsIeee2', 'RosuModel.Props.C04DecodedPaths', 'RosuModel.Props.C04DecodedPathsIeee', ('RosuModel.Lemmas.DecodedPathInv', 'Rosu.DecodedPath'),
                       'RosuModel.Props.C04DecodedTiming', 'RosuModel.Props.C04DecodedTimingToy', 'RosuModel.Props.C04DecodedTimingIeee', 'RosuModel.Props.C04DecodedTimingEvents', 'RosuModel.Props.C04DecodedTimingUpper', 'RosuModel.Props.C04DecodedTimingOrder']   # files whose top-level theorems are all audited
    namespace = "Rosu.C04"
    design_ref = "5.4"
    required_theorems = [
        "span_nonneg_float", "dist_finite_of_end", "sliderTailOk_of_upper", "upper_needs_sign", "sliderTimes_upper_float_partial", "sliderTimes_upper_float_catmull_partial",
        "sliderTimes_upper_float_no_catmull", "sliderTimes_upper_statement_of_dist", "objEnds_iff_upper", "collectedTimes_upper_float_partial", "decoded_repTimingMap_ieee_upper_partial",
        "timing_lines_accepted_decoded_ieee_upper_partial", "timing_lines_accepted_decoded_ieee_upper_catmull_partial", "evU_accepted", "evOverU_not_collectedTimes",
        "sliderTailOk_of_tail", "sliderTail_spans_not_of_tail", "sliderTail_witness",
        "collect_mono", "sliderEventList_events", "collectObject_slider_times", "sliderTimes_of_nodeTimes", "nodeTime_inLimit_float", "sliderTimes_osu_catch_float",
        "collectedTimes_all_modes_float", "decoded_repTimingMap_ieee_ends", "timing_lines_accepted_decoded_ieee_ends", "ev_accepted", "evCatch_accepted", "evOver_not_collectedTimes",
        "ctrlLaws_float", "duration_drifts_float", "end_time_over_limit_float", "durLawsOn_float", "hitobjects_block_accepted_decoded_ieee", "decoded_spinners_representable_ieee_int",
        "decoded_path_shape", "decoded_path_shape_iff", "decoded_sliders_representable", "hitobjects_block_accepted_decoded_f17", "f17_needed", "pathLaws_ieee", "decoded_path_shape_ieee",
        "decoded_stored_points_rep", "decoded_repTimingMap_partial", "timing_lines_accepted_decoded", "encoded_file_accepted_decoded", "decoded_repTimingMap_statement_false",
        "decoded_stored_points_rep_ieee", "timing_lines_accepted_decoded_ieee", "svLaws_float",
        "decoded_circles_representable", "decoded_spinners_representable", "decoded_holds_representable", "decoded_sliders_representable_partial", "hitobjects_block_accepted_decoded",
        "encoded_file_accepted_decoded_partial", "objLaws_ieee", "decoded_circles_representable_ieee", "durLaws_float_false", "objF21_not_repObject","headers_recognised", "encode_shape", "block_starts_with_header", "encoded_text_lines", "version_line_parses",
                         "record_blocks_are_lines", "lines_of_block", "record_lines_accepted_metadata", "record_lines_accepted_colours",
                         "record_lines_accepted_editor", "record_lines_accepted_difficulty", "record_lines_accepted_general",
                         "record_lines_accepted_events", "lines_dispatched", "record_blocks_accepted_and_recovered",
                         "hitobject_lines_accepted_partial", "slider_line_accepted", "slider_path_text_clean", "hitobject_lines_accepted",
                         "slider_line_leaves_clean_buffer", "hitobjects_block_accepted",
                         "timing_block_lines", "decoded_control_points_in_limits", "timing_block_shape", "timing_lines_accepted", "record_and_timing_blocks_accepted",
                         "sample_timing_rep", "sample_records_rep", "sample_timing_text", "sample_encodes",
                         "record_calls_accepted", "encoded_file_accepted", "encoded_file_sections_accepted",
                         "toy_collect", "toyMap_rep", "toyMap_timing_text", "toyMap_objects_text", "toyMap_lines",
                         "reader_lines_lf_free", "parser_calls_keep_decoded_inv", "decoded_inv", "decoded_metadata_colours_representable", "decoded_map_inv",
                         "decoded_records_representable", "decoded_records_representable_of_limitRep", "record_lines_accepted_decoded",
                         "record_lines_accepted_decoded_metadata_colours", "record_blocks_accepted_decoded", "record_blocks_accepted_and_recovered_decoded",
                         "f16_decoded_witness", "constFacts_of_check", "decoded_hypotheses_satisfiable", "decodedSample_decodes", "decodedSample_finishes", "decodedSample_floatsRep",
                         "decodedSample_noDoubleSlash", "decodedSample_encodes",
                         # Props/C04Ieee.lean: ConstFacts proved for the driver's Float / Float32 (decide +kernel), the Decoded invariant with no hypothesis about numbers
                         "constFactsB_float", "constFacts_float", "parser_calls_keep_decoded_inv_float", "decoded_inv_float", "decoded_map_inv_float",
                         "decoded_records_representable_float"]
    partial_theorems = {
        "sliderTimes_upper_float_partial / sliderTailOk_of_tail": "Props/C04DecodedTimingUpper.lean, Props/C04DecodedTimingOrder.lean (sixth session, wave 7): the slider hypothesis of the timing clause reduced to UPPER bounds. "
            "span_nonneg_float (the sign of D = (n·d/v)/n carried through three roundings), dist_finite_of_end (the end clause already excludes a NaN / infinite curve length), sliderTailOk_of_upper (0 ≤ D and "
            "finiteness of tail and span ends follow: −∞ excluded) give sliderTimes_upper_float_partial: `sliderTimes_upper_statement` under `C01.DistOk m.hitObjects` (no computed curve length is negative) — a "
            "theorem for every decoded slider except osu!-path-mode Catmull sliders (sliderTimes_upper_float_no_catmull: unconditional there; …_catmull_partial under C01.CatmullSurplusOk); "
            "sliderTimes_upper_statement_of_dist reduces the full statement to the open C01 statement decoded_dist_nonneg_statement Float Float32. upper_needs_sign: the sign cannot be dropped (A = 0, "
            "d = −2147483647, v = 13, n = 13: all upper bounds hold, the tail is one ulp below −limit). sliderTailOk_of_tail: for D ≥ 2^-16 the bound on every span end follows from the bound on the tail; "
            "sliderTail_spans_not_of_tail: without a lower bound on D it does not (n = 2^29+1, the tail equals the parse limit and the span end for k = n−2 is above it) — from C20's repeat_le_tail decided false",
        "collectedTimes_all_modes_float / timing_lines_accepted_decoded_ieee_ends": "Props/C04DecodedTimingEvents.lean (sixth session, wave 6): the residual `CollectedTimesInLimit` of the timing clause is DERIVED from "
            "conditions on the decoded objects' computed end times, in all four modes on IEEE doubles: sliderEventList_events (no fuel hypothesis) + collectObject_slider_times (only head / repeat / tail events "
            "contribute sample times, each a NodeTime of the slider) + nodeTime_inLimit_float (head ≤ every span end ≤ bound) give sliderTimes_osu_catch_float; spinners / holds through end_time_lower_float; hence "
            "collectedTimes_all_modes_float, decoded_repTimingMap_ieee_ends and timing_lines_accepted_decoded_ieee_ends (the written [TimingPoints] block of a decoded map is accepted line for line with exactly the "
            "values written) under `ObjEndsInLimit m` alone. PARTIAL: for sliders the hypothesis asks `0 ≤ D` for the span duration and finite-and-≤-limit (not merely ≤ limit) for the tail and each span end; the "
            "upper-bounds-only form is kept unproved as `sliderTimes_upper_statement` (missing: non-negativity of the curve length as a theorem; no counterexample known). evOver_not_collectedTimes: the residual is "
            "needed (a slider at 2147483000 decodes and its tail exceeds the parse limit — the F26 predicate), kernel-checked on doubles",
        "record_lines_accepted_editor / _difficulty / _general / _events, record_blocks_accepted_and_recovered":
            "law-dependent: proved for every number codec satisfying CodecLaws (+ IntPrintLaw for AudioLeadIn), shown satisfiable by Lemmas/ToyCodec.lean; CodecLaws is now also a theorem "
            "for the model's IEEE codec (C02: parseBits_printBits_f64/_f32, printBits_clean) and, since Lean 4.33's Float is a structure over the logical model Float.Model, for the driver's Float / Float32 "
            "instances with no runtime hypothesis (C02.codecLaws_float_ieee, C02.codecLaws_float32_ieee; the former bit-cast hypotheses are the theorems C02.floatBitsLaw / C02.float32BitsLaw); IntPrintLaw "
            "likewise (C02: printBits_intBits_f64, C02.intPrintLaw_float_ieee via C02.floatOfIntLaw). The hypotheses are thus theorems for Float / Float32 and the statements for the running instance are "
            "obtained by instantiation (no `_float` corollary of these acceptance theorems is stated). Not proved: that Rust's Display/FromStr equal the model codec (tested by lib/codecgen.py). record_lines_accepted_metadata / _colours, version_line_parses, encode_shape, lines_dispatched need no law",
        "record_lines_accepted_<section> / record_blocks_accepted_and_recovered": "stated for section records that are representable (Rt*.Rep*: self-trimmed single-line texts, file names "
            "without `//`, backslash (and, for the background, comma / outer quotes), integers within ±(2^31−1), floats representable by the codec within the parse limit and inside the field's "
            "clamp, colour components ≤ 255, custom colour names without `:` / `//` / leading `Combo`, pairwise distinct). For DECODED maps these assumptions are discharged by the "
            "`Decoded` invariant below (record_lines_accepted_decoded, record_blocks_accepted_decoded)",
        "decoded_inv / decoded_map_inv / parser_calls_keep_decoded_inv / reader_lines_lf_free":
            "the `Decoded` invariant of DESIGN 5.4 for the six record sections, proved for EVERY byte string (any of the three encodings, hostile / non-chronological content, rejected "
            "lines): reader_lines_lf_free — every line the reader yields has no line feed and is end-trimmed (UTF-8 lossy decoding and both UTF-16 byte orders, Lemmas/DecodedInvReader.lean); "
            "parser_calls_keep_decoded_inv — the initial state has DecInv and one call of any section parser on any LF-free line, accepted or rejected, keeps it; decoded_inv / decoded_map_inv "
            "— lifted through the framing driver (C05's fold) and the finaliser. DecInv says: metadata texts are their own trim and single-line; format version, ids, preview time, countdown "
            "offset, beat divisor, grid size within ±(2^31−1); bookmarks are i32s; audio_lead_in is an integer value; every float is within the parse limit and not NaN; slider multiplier / "
            "tick rate lie inside their clamps as f64::clamp tests them; break ends satisfy max(start,end)=end; file names have no line feed, no backslash, the audio name is its own trim, "
            "the background has no comma and no outer quote; colour components ≤ 255 with alpha 255; custom colour names are their own trim, without `:`, line feed, `//` (parse_colors strips "
            "comments before splitting — contrary to the expectation that `x//y` could be a decoded name) or leading `Combo`, pairwise distinct. NO codec law is used (so this also holds "
            "of the IEEE instance); the only hypothesis is ConstFacts — closed facts about the decoder's own constants (1, 1.4, 5, 0.7, 0.4, 3.6, 0.5, 8 are within the parse limit, `<` is "
            "irreflexive on the clamp bounds and lo < hi is not reversed, 0 = i32-as-f64 0). ConstFacts is now a THEOREM for the driver's instances (Props/C04Ieee.lean): in Lean 4.33 Float / Float32 literals, "
            "comparisons and Float.ofInt reduce in the kernel, so the boolean form constFactsB evaluates by `decide +kernel` (constFactsB_float, zero_eq_ofInt_float) and constFacts_of_check gives "
            "constFacts_float : ConstFacts Float Float32 (Props/C04Decoded.lean could only `#guard` it, a test). Hence parser_calls_keep_decoded_inv_float, decoded_inv_float, decoded_map_inv_float: every byte "
            "string the running decoder accepts leaves it in a state satisfying DecInv — no hypothesis about numbers left; decoded_records_representable_float keeps only the codec side (FloatsRep) and the "
            "F16 exclusion. Instance on the toy scalar by `decide`. decoded_metadata_colours_representable needs no hypothesis at all",
        "decoded_records_representable / record_lines_accepted_decoded / record_blocks_accepted_decoded / record_blocks_accepted_and_recovered_decoded":
            "every clause of every Rep* predicate is either derived from DecInv or isolated as a residual hypothesis: (a) FloatsRep — the codec represents the map's (finite, in-limit) float "
            "values: a codec law, implied by the single law LimitRep (`everything within the parse limit is representable`, a theorem for the toy codec); (b) NoDoubleSlash — neither file "
            "name contains `//` (finding F16: `AudioFilename: a\\\\b`, `a/\\b`, background `a\\\\\\\\b` decode to `a//b`; f16_decoded_witness; replayed on the real code: `rt` FAILs with "
            "explained=file-name-contains-double-slash, `lines` is OK). ACCEPTANCE does not need (b): record_lines_accepted_decoded (all six sections, every line a record line accepted in any "
            "state) and record_blocks_accepted_decoded (file level: the re-read lines are exactly the blocks' lines and each block reaches exactly its parser) assume only the codec laws, "
            "ConstFacts (a theorem for Float / Float32: constFacts_float) and FloatsRep — a name with `//` is cut when read back but its line is still an accepted AudioFilename / background record (Lemmas/DecodedInvAccept.lean). "
            "record_blocks_accepted_and_recovered_decoded additionally asserts the record fields come back and therefore keeps (b). Non-vacuity: a hostile 19-line file is decoded, finalised, "
            "encoded and read back in the kernel on the toy codec (decodedSample_*). The list blocks still enter by their shape (ListBlockShape), as before",
        "hitobject_lines_accepted_partial": "law-dependent; covers circles, spinners and hold notes only (line is LF-free, a record line, accepted in any state, same kind of object comes back); "
            "kept, now contained in hitobject_lines_accepted",
        "slider_line_accepted / hitobject_lines_accepted": "law-dependent (CodecLaws for both float types + SliderRt.CoordLaws for path coordinates: f32 Display read back by f64 FromStr; "
            "satisfiable by the toy codec). For each of the four kinds: the line of a REPRESENTABLE object is LF-free, a record line, accepted by parse_hit_objects in any decoder state, and "
            "exactly one object of the same kind is pushed. For sliders representable means RepSlider: integral position, start time within the parse limit, combo offset 0..7, 0..8999 "
            "repeats, a written length (expected length, or the computed curve length) representable and within ±131072, and a control-point list in the decidable class RepPath (see C02: "
            "first point origin and typed, integral coordinates, well-formed types, three-point perfect curves, no repeated position where the decoder would split — F17 and consecutive "
            "Catmull segments are outside). The ±131072 bound on the written length is forced by the decoder and is violated by the real encoder when a slider has no expected length and "
            "its computed curve is longer than 131072 (witness `0,0,1000,2,0,L|131072:131072|-131072:-131072|131072:131072,1`: `lines` oracle: encoder wrote a line its decoder rejects): finding F20, kept as the explicit "
            "hypothesis RepSlider.distRep. Acceptance alone needs less than RepPath (a repeated point makes the round trip lose a control point, not the line rejected); that weaker "
            "acceptance-only statement is not proved separately. That every object of a DECODED map is representable is not proved here",
        "hitobjects_block_accepted": "law-dependent; conditional on every object of the map being representable (SliderRt.RepObject): encode_hit_objects succeeds, the block is `[HitObjects]` plus "
            "one LF-free record line per object (the ListBlockShape that record_blocks_accepted_and_recovered assumes), and every line is accepted when the block is run from any decoder state",
        "timing_block_shape / timing_lines_accepted / record_and_timing_blocks_accepted":
            "law-dependent (CodecLaws on the f64-side codec; satisfiable: Lemmas/ToyCodec.lean, non-vacuity on C04.sampleMap — a mania map with two timing points, scroll speeds, kiai, "
            "a collected object sample and a suppressed redundant group) and stated for maps satisfying the explicit predicate RtTiming.RepTimingMap: every control-point time and every "
            "timing point's beat length representable by the codec, within the decoder's limit ±(2^31−1) and not NaN; every slider velocity (scroll speed in taiko/mania) v and the default 1 "
            "with −100/v representable and within the beat-length limits; signature numerators in 1..2^31−1; custom banks ≤ 2^31−1. For a DECODED map the clauses about its own control "
            "points hold by construction: decoded_control_points_in_limits proves (no law, so also of the IEEE instance) that every decoded map's control points are strictly sorted, with "
            "times within the limit and not NaN, numerators in 1..2^31−1 and custom banks within ±(2^31−1); C12.clamps gives the clamp ranges of beat lengths and velocities under the clamp "
            "laws (for IEEE doubles with no hypothesis: C12.clamps_float, C12.clamps_ordinary_float); that the codec represents those finite values, and that −100/v stays within the beat-length limits for v in the clamp range, are not theorems here. The clause a decoded map can violate is the one about sample points AFTER collect_samples: they sit at computed times (start+duration of spinners/holds/sliders, node "
            "times from slider_events) which may be non-finite or beyond the limit; then the line is rejected. Not assumed away: the implementation-level `lines` oracle checks every "
            "line of every encoding. timing_block_lines (shape and provenance of every line) needs no law",
        "encoded_file_accepted / encoded_file_sections_accepted":
            "the file-level C04 statement with NO shape assumption left (Props/C04File.lean), law-dependent (MapLaws = CodecLaws for both float types + IntPrintLaw + SliderRt.CoordLaws; toy "
            "instance ZC.mapLaws) and stated for maps satisfying RepMap (Lemmas/RepMap.lean: RtFile.RepRecords + RtTiming.RepTimingMap + every hit object SliderRt.RepObject; non-vacuity: "
            "C04.toyMap of Props/C04Toy.lean — toy codec, mania, two timing points, three inherited lines, a circle, a slider with a two-segment path, a spinner, a hold note; toyMap_lines "
            "evaluates its encoding to the version line plus eight blocks of explicit lines). If encode m = ok t then: t is the version line plus the eight blocks in canonical order, the "
            "[TimingPoints] block being the lines of the collected control points and the [HitObjects] block one line per object; read back from its UTF-8 bytes by ANY decoder, reading succeeds "
            "and the framing driver makes exactly the parser calls recordCalls m T H — every non-blank non-header line of every block, end-trimmed, to the parser of its own section, in file "
            "order (decodeBytes recorder: the call log is exactly that list); EVERY one of those calls returns Ok when the Beatmap decoder runs them (FileRt.CallsAccepted: each call judged in "
            "the state the preceding calls left; stepAccepts is the Ok flag of the parser BeatmapState.step delegates to); counts: as many hit objects pushed as written, breaks and the two "
            "colour lists of the lengths written, the timing-point state is parse_timing_points folded over exactly the lines written. encoded_file_sections_accepted reads the acceptance per "
            "section on the model's parsers alone (each record line is neither header nor skipped and its parser accepts it in ANY state). The count of timing POINTS stored needs the "
            "decoder's grouping arithmetic to be exact: C02.roundtrip_rep_counts (EpsLaws / GroupLaws)",
        "decoded_circles_representable / decoded_spinners_representable / decoded_holds_representable / decoded_sliders_representable_partial / hitobjects_block_accepted_decoded / encoded_file_accepted_decoded_partial (hit objects of DECODED maps)":
            "sixth session (Lemmas/DecodedObjInv.lean, Props/C04DecodedObjects*.lean). The invariant ObjInv (every pushed object: samples with custom bank / volume in range and custom file names free of `:` `,` LF `//`; "
            "combo offsets 0..7; slider repeats 0..8999; requested length = max(l, 0) of a parsed l within the limit; no custom file on a slider's own samples) is proved for EVERY line (accepted or rejected), carried through the "
            "framing driver for every byte string (objInv_decoded) and through the finaliser (decoded_objOk, with finalizeObjects_samples: the sample point applied to each object). With C14.decoded_stored for the numeric clauses: "
            "every circle / spinner / hold of a decoded map is RepCircle / RepSpinner / RepHold, and every slider RepSlider, in any mode, under NAMED residuals only - codec laws ObjLaws (a THEOREM for the IEEE instances: objLaws_ieee, so "
            "decoded_circles_representable_ieee has no law left), DurLaws (start + duration representable and recovering the duration; toy instance; REFUTED for IEEE doubles, and not only by the sign of a zero: Props/C04DecodedObjectsIeee2.lean - "
            "duration_drifts_float (`256,192,0.09,12,0,0.34`: (0.09 + 0.25) - 0.09 is one ulp below 0.25: finding F25), end_time_over_limit_float (start -1.0000007152557373, end 2147483647: the written end time exceeds the "
            "limit: finding F26), durLawsZ_float_false; TRUE for whole-number times: durLawsOn_float, decoded_spinners_representable_ieee_int / decoded_holds_representable_ieee_int with no law left; and for ANY times "
            "acceptance alone holds under EndOk (start + duration <= limit): hitobjects_block_accepted_decoded_ieee), "
            "CtrlLaws (control-point offsets; toy instance; for IEEE a theorem in its global form: ctrlLaws_float, from exact f32 add / sub on integers below 2^23); the findings' predicates FileNameResidual.trimmed (F21), SliderResidual.computed (F20); FileNameResidual.noBar (`|` in a circle's file name: RepSampleFile is shared "
            "with sliders; the line is accepted anyway: objBar_accepted_anyway); and SliderResidual.shape = the type / shape half of RepPath (where F17 lives) - assumed in this file and DERIVED from convert_path_str in Props/C04DecodedPaths.lean "
            "(decoded_path_shape: for every decoded slider PathShapeOk holds EXACTLY when the decidable predicate F17Free does; pathLaws_ieee: the two laws it needs - == on integer-valued f32 is equality, no letter-leading text is a number - are theorems of the "
            "IEEE instances; f17_needed: three decoded lines outside F17Free, kernel-evaluated on the toy codec and on Float / Float32), so decoded_sliders_representable has the residuals F17Free and F20 only; the harness oracles use the transcription of F17Free. F18 does not enter. "
            "Corollaries: hitobjects_block_accepted_decoded (C04.hitobjects_block_accepted with RepObject discharged), decoded_repMap_partial, encoded_file_accepted_decoded_partial (the file-level statement for decoded maps; RepTimingMap stays a hypothesis). "
            "Non-vacuity: three decoded files (circle with hit.wav, spinner, hold) evaluated in the kernel. The unconditional statement is refuted on a decoded file: objF21_not_repObject (`256,192,1000,1,0,0:0:0:0:a ,x` gives the file name `a `)",
        "decoded_repTimingMap_partial / timing_lines_accepted_decoded / encoded_file_accepted_decoded (the [TimingPoints] block of DECODED maps; the file-level statement with no Rep* hypothesis)":
            "sixth session (Props/C04DecodedTiming*.lean, Lemmas/DecodedNodeInv.lean, Lemmas/FloatDivAnti.lean). decoded_stored_points_inv / decoded_stored_points_rep: every control point stored in a decoded map's four lists "
            "satisfies the per-point clauses of RepTimingMap (times within the limit, numerators, beat lengths in [6, 60000], slider velocities in [0.1, 10], scroll speeds 1 or in [0.01, 10], custom banks, volumes 0..100; "
            "the -100/v form the encoder writes is representable and within the beat limit: the ONE arithmetic law SvLaws, a theorem for IEEE doubles - svLaws_float, from the new div_le_div_left_neg_float) - mode-independent, so F15 does not break it; "
            "for the IEEE instances with NO hypothesis beyond 'the bytes decode to m' (decoded_stored_points_rep_ieee). Collected points: collected_point_origin (every sample point of collect_samples is a stored one or "
            "comes from a named object's collectObject call), decoded_collected_custom (via the new node-sample invariant decoded_nodesOk), decoded_collected_sorted. decoded_repTimingMap_partial: RepTimingMap of a decoded map under the "
            "single residual CollectedTimesInLimit (every time the encoder collects - object ends, slider nodes - is within the parse limit; reduced to SliderTimesInLimit / SliderEndInLimit in taiko / mania) - the residual is "
            "necessary: decoded_repTimingMap_statement_false (a slider at 2147483647 collects a point beyond the limit). RepTimingMap has no distinctness clause, so F22 does not enter ACCEPTANCE (it concerns re-decoded counts). "
            "Hence timing_lines_accepted_decoded(_ieee), decoded_repMap and encoded_file_accepted_decoded: the file-level C04 statement for decoded maps with no Rep* hypothesis left - only codec / arithmetic laws and the "
            "findings' predicates (NoDoubleSlash F16, ObjResidual F17 F20 F21, CollectedTimesInLimit). PARTIAL because the objects block still takes DurLaws (refuted for IEEE by the sign of a zero) and CtrlLaws "
            "(toy only), so at the IEEE instance the timing half and the circles are unconditional and the file-level statement is not yet",
        "list_block_lines_accepted_statement (unconditional)":
            "NOT a theorem: that every object (RepObject) and every collected control point (RepTimingMap) of a DECODED map is representable (i.e. that a decoded map satisfies RepMap), which would "
            "discharge the hypothesis of encoded_file_accepted for every decoded map. It is false as stated (findings F20; computed sample-point times can be non-finite) and is evaluated on "
            "the implementation by the `lines` oracle (a wrapping decoder logs every parser call of the re-decode: no line lost, none rejected, same number of objects / timing points / "
            "breaks / colours) and by the char-for-char encoder correspondence",
    }
    level_text = ("Lean 4 theorems over the encoder and decoder models: the encoded text is the version line followed by the eight blocks in canonical order, each introduced by a blank line and "
                  "starting with the header its decoder recognises (encode_shape, headers_recognised); the version line parses back to the map's version (version_line_parses); each of the six "
                  "record blocks is its header plus an explicit list of LF-terminated record lines (record_blocks_are_lines), every one of which is neither a header nor skipped and is accepted "
                  "by its section's parser in any state (record_lines_accepted_<section>; sections with floats: for every lawful number codec — the model's IEEE codec is proved lawful at the bit level and the driver's Float / Float32 instances satisfy the codec laws with no hypothesis, C02.codecLaws_float_ieee / codecLaws_float32_ieee / intPrintLaw_float_ieee); reading the text back yields exactly its own "
                  "end-trimmed lines (encoded_text_lines, via C10) and the framing driver hands each block's lines, in order, to exactly that section's parser (lines_dispatched, via C05); "
                  "file level for the record blocks: record_blocks_accepted_and_recovered; hit-object lines of all four kinds (circles, sliders incl. the whole path-string grammar over the decidable class RepPath, "
                  "spinners, hold notes): hitobject_lines_accepted, slider_line_accepted. "
                  "[TimingPoints]: the block is its header plus LF-terminated lines `time,beat,signature,bank,custom,volume,0|1,flags`, a 1-line per timing point and a 0-line (beat = -100/velocity) "
                  "per non-redundant group (timing_block_lines, no law); for a representable map and a lawful codec each line is neither a header nor skipped and is accepted by "
                  "parse_timing_points in any decoder state, applied as exactly the values written (timing_block_shape, timing_lines_accepted); file level: "
                  "record_and_timing_blocks_accepted — the re-decode hands exactly the block's lines, in order, to parse_timing_points and all are accepted. "
                  "All parts composed, no shape assumption left: encoded_file_accepted — for a map satisfying RepMap (record sections, collected control points and every hit object representable) "
                  "the encoded text is the version line plus the eight blocks, and decoding it (bytes, reader, framing) hands every non-blank non-header line of every block to its own section's "
                  "parser, in order, and every call returns Ok; as many hit objects / breaks / colours are pushed as written (non-vacuity: C04.toyMap, encoding evaluated). "
                  "That a decoded map satisfies RepMap is not a theorem (false in general: F17, F18, F20, non-finite computed sample-point times). "
                  "For DECODED maps the representability assumptions of the six record sections are discharged: decoded_inv (every byte string decodes to a state satisfying the `Decoded` invariant, no codec law; for the driver's Float / Float32 with no hypothesis at all: decoded_inv_float, from constFacts_float proved by `decide +kernel`), "
                  "record_lines_accepted_decoded / record_blocks_accepted_decoded (acceptance for every decoded map under the codec laws and representability of its float values only — not even the F16 exclusion). "
                  "The encoder model is compared character for character with Beatmap::encode_to_string on every generated and bundled map; the property itself is evaluated on the "
                  "real code for every line of every encoding (oracle `lines`).")
    technique = "Lean 4 proof (output shape, reader inversion, per-line acceptance and dispatch for all eight blocks, composed into one file-level statement for representable maps; law-dependent where floats are printed) + char-for-char encoder correspondence + per-line acceptance oracle on the implementation"
    trusted_base = [
        "Lean 4.33.0 kernel; axioms ⊆ {propext, Classical.choice, Quot.sound} per #print axioms",
        "hand-written Model/Encode.lean (+ decode model) tied to /repo by the `enc` differential: identical text on every case of this run",
        "Rust Display for f32/f64/i32/u8 (model codec validated against Rust by lib/codecgen.py on >10^6 values; the model codec itself is proved to satisfy CodecLaws in Props/C02Codec.lean, "
        "for the driver's Float / Float32 with no runtime hypothesis: Props/C02CodecIeee.lean — FloatBitsLaw / FloatOfIntLaw are theorems of Lean 4.33's logical float model)",
        "a theorem about Float / Float32 (constFacts_float, decoded_inv_float) is a theorem about Lean's logical model Float.Model; that the compiled @[extern] C operations agree with it is part of Lean's own "
        "trusted code base and is compared with Rust bit for bit by the codec differential (fop64 / fop32, casts) and by every whole-model request of this run",
    ]
    assumptions = ["maps are obtained by decoding (the property's domain); edited maps are C03's domain"]
    nontrivial_rule = "decoded maps from the C01/C02 generators incl. non-chronological and hostile inputs; non-trivial = encoding has more than 40 lines"

    def gen(self, rng, tier):
        cases = []
        n = 1500 if tier == "quick" else 60000
        for _ in range(n):
            if rng.random() < 0.7:
                ls = gen_map(rng, hostile=rng.choice([0, 0.1, 0.3]), chronological=rng.random() < 0.6)
                data = "\n".join(ls).encode()
                tag = "grammar"
            else:
                tag, data = file_case(rng, tier)
            h = hexs(data)
            cases.append(Case("lines " + h, corr=False, tags=(tag,)))
            cases.append(Case("enc " + h, prop=False, tags=("enc-" + tag,)))
        # short source lines that the encoder expands into very long ones: a slider with thousands of spans and no node lists
        # (the encoder writes every node's sounds and sample sets: ~6 bytes per node)
        for spans in ([9000, 5461] if tier == "quick" else [9000, 8999, 7000, 6000, 5462, 5461, 5460, 4000, 2731, 1366]):
            for mode in ((0,) if tier == "quick" else (0, 2, 3)):
                ls = ["osu file format v14", "", "[General]", f"Mode: {mode}", "", "[TimingPoints]", "0,500,4,2,0,60,1,0", "", "[HitObjects]",
                      "64,64,500,1,0,0:0:0:0:", f"100,100,1000,2,2,L|200:100,{spans},100,,,2:3:0:0:", "300,300,999999999,1,0,0:0:0:0:"]
                h = hexs("\n".join(ls).encode())
                cases.append(Case("lines " + h, corr=False, tags=("long-line",)))
                cases.append(Case("enc " + h, prop=False, tags=("enc-long-line",)))
        # text values that hold characters a reader may treat as line structure - a carriage return not followed by a line feed, NEL,
        # line / paragraph separators, form feed, vertical tab, a NUL - handed in as UTF-16 and UTF-8: the decoded value is written
        # verbatim, and the text the encoder writes is read back by the UTF-8 reader (seed C04-m: a lone CR ends a line in one reader only)
        for _ in range(60 if tier == "quick" else 2000):
            ch = rng.choice(["\r", "\r", "\r", "\u0085", "\u2028", "\u2029", "\x0c", "\x0b", "\x00", "\r\r"])
            inj = rng.choice(["[HitObjects]", "[General]", "Title:injected", "osu file format v3", "0,0,0,1,0", "// c", "x"])
            key = rng.choice(["Title", "TitleUnicode", "Artist", "Creator", "Version", "Source", "Tags"])
            ls = ["osu file format v14", "", "[General]", f"AudioFilename: a{ch}{inj}.mp3" if rng.random() < 0.3 else "AudioFilename: a.mp3", "Mode: 0", "",
                  "[Metadata]", f"{key}:Night of{ch}{inj}", "Creator:c" if key != "Creator" else "Artist:a", "BeatmapID:5", "",
                  "[Events]", f'0,0,"bg{ch}{inj}.png",0,0' if rng.random() < 0.3 else '0,0,"bg.png",0,0', "",
                  "[TimingPoints]", "0,500,4,2,0,60,1,0", "", "[Colours]", f" name{ch}{inj} : 1,2,3" if rng.random() < 0.3 else "Combo1 : 1,2,3", "",
                  "[HitObjects]", f"64,64,500,1,0,0:0:0:0:hit{ch}{inj}.wav" if rng.random() < 0.3 else "64,64,500,1,0,0:0:0:0:", ""]
            text = rng.choice(["\n", "\r\n"]).join(ls)
            enc = rng.choice(["utf-16-le", "utf-16-be", "utf-8"])
            data = {"utf-16-le": b"\xff\xfe", "utf-16-be": b"\xfe\xff", "utf-8": b""}[enc] + text.encode(enc)
            h = hexs(data)
            cases.append(Case("lines " + h, corr=False, tags=("line-structure-characters-in-values", enc)))
            cases.append(Case("enc " + h, prop=False, tags=("enc-line-structure-characters-in-values",)))
        for f, d in (small_bundled() if tier == "quick" else bundled()):
            cases.append(Case("lines " + hexs(d), corr=False, tags=("bundled",)))
            cases.append(Case("enc " + hexs(d), prop=False, tags=("bundled",)))
        return cases

    def known(self, case, out, findings):
        if "explained=computed-length-above-parse-limit" in out and any(f["id"] == "F20" for f in findings):
            return "F20"
        if "explained=timing-points-within-epsilon" in out and any(f["id"] == "F22" for f in findings):
            return "F22"
        if "explained=end-time-above-parse-limit" in out and any(f["id"] == "F26" for f in findings):
            return "F26"
        return None

    def is_nontrivial(self, case, impl_out):
        return impl_out.startswith("ok") and impl_out.count("0a") > 40


PROP = C04()
