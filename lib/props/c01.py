from ..filegen import file_case, bundled, small_bundled, READER_CORNERS
from ..gen import hexs
from ..runner import Case, Property
from .. import core


class C01(Property):
    id = "C01"
    lean_module = "RosuModel.Props.C01"
    namespace = "Rosu.C01"
    design_ref = "5.1"
    required_theorems = ["ofBytes_no_fault", "decode_bytes_never_errs", "decode_err_only_from_reader", "nodes_bounded",
                         "unsafe_guard_nonzero", "suffix_guarded", "finalize_total_without_sliders"]
    partial_theorems = {
        "decode_total": "proved: every model function is total (Lean termination), reading + framing + all line parsers never produce an error for an in-memory buffer "
                        "(decode_bytes_never_errs) and cannot panic (no partial operation in their models). NOT proved: that the curve computation inside the finaliser and the "
                        "slider-event loop inside the encoder never reach an index panic or exhaust their fuel for every float input — the model makes every index/slice/usize "
                        "subtraction an explicit `CErr.panic` outcome, C16's calculateLength_total and C18's BezierPure show the length adjustment and the Bezier buffer reads cannot "
                        "panic, but calculate_path as a whole and IEEE termination of the two arithmetic loops are exercised, not proved",
        "encode_total": "the encoder model can only fail through the same curve / slider-event outcomes (its type is Outcome Str and every other step is a total string function); "
                        "`String::from_utf8` cannot fail because the model's output is a `List Char` — that the Rust writes the same characters is the char-for-char correspondence",
        "memory safety of the three unsafe blocks / stack depth / allocation": "outside any model; the guards are theorems (unsafe_guard_nonzero, suffix_guarded, C06.clean_always for point_split's scratch)",
    }
    level_text = ("Lean 4 theorems over the whole decode model (reader, framing, nine decoders, finaliser) and the encoder model: decoding an in-memory buffer never yields an error "
                  "for any decoder and any bytes; an error is always the reader's own first fault; decoded sliders have ≤ 9001 node sample sets; the NonZeroU32::new_unchecked guards "
                  "hold; the finaliser is total on maps without sliders and otherwise fails only through an explicit curve outcome. Tied to the code by whole-file differentials "
                  "(`dec9`, `enc`: all nine decoders and the encoded text, character for character) over noise, grammar-with-hostile-numerics, mutations/splices/truncations of "
                  "the bundled maps and all encodings; the harness is built with debug assertions and overflow checks, runs every request under catch_unwind, and the `total` oracle "
                  "requires a value from every decoder, a successful encode, and a successful re-decode.")
    technique = "Lean 4 proof (totality by construction + error-origin theorem) + whole-file differential with panic/overflow detection"
    trusted_base = [
        "Lean 4.33.0 kernel; axioms ⊆ {propext, Classical.choice, Quot.sound} per #print axioms",
        "hand-written model of the whole crate tied to /repo by the `dec9` / `enc` differentials of this run",
        "harness profile: release with debug-assertions and overflow-checks on, panic=unwind, every request under catch_unwind (a crash of the process is bisected and reported as CRASH)",
    ]
    assumptions = ["curve / slider-event loops run with fuel 2·10^6 / 10^7 in the model; exhaustion is reported as `fuel-exhausted`, never defaulted",
                   "the `tracing` feature set is exercised by a second harness build (no subscriber installed) whose observations must equal the default build's on every correspondence case"]
    nontrivial_rule = "byte strings from the file families; non-trivial = the Beatmap decoder produced at least one hit object or control point"

    def gen(self, rng, tier):
        cases = []
        n = 2500 if tier == "quick" else 60000
        for i in range(n):
            tag, data = file_case(rng, tier)
            h = hexs(data)
            cases.append(Case("total " + h, corr=False, tags=(tag,)))
            if i % 3 == 0:
                cases.append(Case("enc " + h, prop=False, tags=("enc-" + tag,)))
            elif i % 3 == 1:
                cases.append(Case("dec9 " + h, prop=False, tags=("dec9-" + tag,)))
        for d in READER_CORNERS:
            cases.append(Case("total " + hexs(d), corr=False, tags=("reader-corner",)))
            cases.append(Case("dec9 " + hexs(d), prop=False, tags=("reader-corner",)))
        for f, d in (small_bundled() if tier == "quick" else bundled()):
            cases.append(Case("total " + hexs(d), corr=False, tags=("bundled",)))
            cases.append(Case("enc " + hexs(d), prop=False, tags=("bundled",)))
            # truncations at every length of the small files (thorough) / sampled (quick)
            # truncations: sampled in the quick tier; every length of the small files and 400 sampled lengths of the
            # large ones in the thorough tier
            if tier == "quick":
                step = max(1, len(d) // 40)
            else:
                step = 1 if len(d) <= 6000 else max(1, len(d) // 400)
            for k in range(0, len(d), step):
                cases.append(Case("total " + hexs(d[:k]), corr=False, tags=("truncate",)))
        return cases

    def post(self, tier, corr_cases, impl_out):
        """{default, tracing} feature sets: the build with rosu-map's `tracing` feature must give the same
        observation on every correspondence case (and must not panic while logging the errors)"""
        core.build_harness_tracing()
        outs = core.run_lines(core.HARNESS_TRACING_BIN, "impl", [c.line for c in corr_cases])
        bad = []
        for c, a, b in zip(corr_cases, impl_out, outs):
            if a != b:
                bad.append((c, f"FAIL tracing build differs: default [{a[:200]}] tracing [{b[:200]}]"))
        self._tracing_compared = len(corr_cases)
        return bad

    def is_nontrivial(self, case, impl_out):
        return impl_out.startswith("ok") and len(impl_out) > 600


PROP = C01()
