from ..filegen import file_case, bundled, small_bundled, READER_CORNERS
from ..gen import hexs
from ..runner import Case, Property
from .. import core


class C01(Property):
    id = "C01"
    lean_module = "RosuModel.Props.C01Full"
    theorem_modules = ['RosuModel.Props.C01', 'RosuModel.Props.C01Ieee', 'RosuModel.Props.C01IeeeWitness', 'RosuModel.Props.C01IeeeFuel', 'RosuModel.Props.C01IeeeSurplus', 'RosuModel.Props.C01IeeeSurplusLoop',
                       ('RosuModel.Lemmas.FloatDebt', 'Rosu.FDebt')]   # files whose top-level theorems are all audited
    namespace = "Rosu.C01"
    design_ref = "5.1"
    required_theorems = [
        "natTotal_notNeg_of_debt", "encode_decoded_no_panic_float_debt_partial", "decoded_dist_nonneg_float_debt_partial", "two_debts_counterexample", "simplifyLoop_optLen", "catmullSimplify_single_span","ofBytes_no_fault", "decode_bytes_never_errs", "decode_err_only_from_reader", "nodes_bounded",
                         "unsafe_guard_nonzero", "suffix_guarded", "finalize_total_without_sliders",
                         # index safety of the curve code (Lemmas/CurveTotal.lean), every arithmetic / mode / fuel / well-formed buffers
                         "calculatePath_no_panic", "calculatePath_ok_or_fuel", "compute_no_panic", "new_no_panic",
                         "newBorrowed_no_panic", "default_wf", "emptyBuffers_wf", "new_no_panic_of_reachable",
                         "calculateLength_path_le", "positionAt_total_on_curve", "curveWithBufs_no_panic",
                         # finaliser and decode
                         "finalizeObjects_no_panic", "HitObjectsState.finish_no_panic", "BeatmapState.finish_no_panic",
                         "decode_total_modulo_fuel", "decode_hitobjects_total_modulo_fuel",
                         # encoder
                         "encodeHitObjects_no_panic", "encode_no_panic_of_nonneg_dist", "encode_no_panic_without_sliders",
                         "collectObject_panics", "encode_decoded_no_panic_of_dist_nonneg",
                         "dist_cases", "curveDist_cases", "distOk_of_three",
                         # fuel, structural part
                         "bezier_fuel_suffices"]
    partial_theorems = {
        "decode_total": "PROVED for the model (decode_total_modulo_fuel, decode_hitobjects_total_modulo_fuel; the other seven decoders have no fallible finaliser: "
                        "decode_bytes_never_errs): for every byte string the in-memory decode yields a state without error and the finaliser returns a map or `CErr.fuel` — "
                        "never `CErr.panic`. Every index / slice / usize subtraction / copy_from_slice / unreachable of calculate_path, calculate_subpath (linear, Catmull, "
                        "perfect curve with arc or Bezier fallback, B-spline), the joint de-duplication and calculate_length is an explicit panic outcome of the model and is shown "
                        "unreachable (calculatePath_no_panic, compute_no_panic, new_no_panic, finalizeObjects_no_panic, *.finish_no_panic) for every Scalar/Cvt/Trig instance "
                        "(no arithmetic law, so also for IEEE), every mode, control-point list, expected length, fuel, and all buffers whose four Bezier scratch vectors have equal "
                        "lengths (true of CurveBuffers::default(), preserved by every computation: new_no_panic_of_reachable). NOT proved: that the model fuel (2*10^6 rounds of "
                        "the Bezier flattening loop / the theta_end loop) is never exhausted, i.e. termination of those two arithmetic loops in IEEE. Structural part only: "
                        "bezier_fuel_suffices (if every piece is flat enough after k halvings — an arithmetic hypothesis, `FlatAfter` — fuel 2^(k+1)-1 suffices on any "
                        "well-formed buffers), C17.thetaLoop_fuel; bezier_flat_after_statement is stated, not proved",
        "encode_total": "PROVED: the [HitObjects] part never panics for any map (encodeHitObjects_no_panic); the whole encoder never panics for any map — decoded or hand-built — "
                        "whose slider distances d satisfy `0 <= min(100000, d)` (encode_no_panic_of_nonneg_dist), and that hypothesis is exactly the f64::clamp assertion of "
                        "SliderEventsIter::new (Lemmas/EncodeTotal.lean runUse_panicked_iff; collectObject_panics: an osu!-mode map with one violating slider does panic). "
                        "A NaN distance is harmless (f64::min ignores NaN: min_maxLen_nan; observed on both sides for a decoded NaN-length slider). NOT proved: "
                        "decoded_dist_nonneg_statement — that a decoded map's slider distances are non-negative (the decoder stores only expected lengths >= EPSILON, so this is "
                        "non-negativity of the natural length optimized_len + sum of segment lengths: an order/rounding fact, law-dependent); "
                        "encode_decoded_no_panic_of_dist_nonneg reduces encode_decoded_no_panic_statement to it, and distOk_of_three (with dist_cases / curveDist_cases: a slider's distance is 0.0, its "
                        "natural length or its stored expected distance) reduces the hypothesis to three scalar facts: 0 <= min(100000, 0), 0 <= min(100000, L) for stored expected "
                        "distances, 0 <= min(100000, natural length). For maps edited through the public API the assertion CAN fail "
                        "in the real crate: expected_dist = Some(-1e-6) on an osu!-mode Catmull slider whose first cumulative length is negative by rounding gives dist = -1e-6 and "
                        "Beatmap::encode_to_string panics in collect_samples (witness in the level text); outside this property's quantifier (maps obtained by decoding). "
                        "Fuel of the tick loop: C20.ticks_fuel_suffices (law-dependent). `String::from_utf8` cannot fail because the model's output is a `List Char`",
        "encode_decoded_no_panic_float_debt_partial (osu!-mode Catmull sliders: the last hypothesis of encode totality, weakened)":
            "sixth session, Props/C01IeeeSurplus.lean, C01IeeeSurplusLoop.lean, Lemmas/FloatDebt.lean (monotonicity of rounded addition only, no error bounds): the hypothesis CatmullSurplusOk (the Catmull surplus "
            "optimized_len is not negative - false: C01IeeeWitness) is replaced by the strictly weaker CatmullDebtCovered: optimized_len >= -D for ONE segment length D of the computed path (then the running total "
            "is never negative: natTotal_notNeg_of_debt, for every f32 path incl. NaN / infinite coordinates; cancel_geNeg_float: fl(fl(p) + D) >= 0 whenever p >= -D). simplifyLoop_optLen / catmullSimplify_optLen: "
            "optimized_len is the left fold of the booked terms fl(L_k - D_k) with L_k >= 0 or NaN (simplifyTerms_len_notNeg) and D_k the chord of the kept point (simplifyTerms_geNeg), so a slider that books ONE "
            "negative term is covered (catmullSimplify_single_span); kernel check on the witness slider `0,0,0,2,0,C|1:2,1` (debtCovered_witness) and the decoded file through encode (…_nonvacuous). NOT closed: (1) the chord "
            "of a booking is not formally identified with a segment of the final path (joint de-duplication; distance(a,b) vs length(b-a)); (2) two or more negative terms - order and monotonicity alone provably cannot "
            "close this (two_debts_counterexample: L = 0, D1 = 1, D2 = 1.5 * 2^-53 gives the total -2^-54), it needs an f32 triangle inequality up to rounding. No decoded file with a negative natural length was found",
        "memory safety of the three unsafe blocks / stack depth / allocation": "outside any model; the guards are theorems (unsafe_guard_nonzero, suffix_guarded, C06.clean_always for point_split's scratch)",
    }
    level_text = ("Lean 4 theorems over the whole decode model (reader, framing, nine decoders, finaliser, curve code) and the encoder model: decoding an in-memory buffer never "
                  "yields an error for any decoder and any bytes; an error is always the reader's own first fault; decoded sliders have ≤ 9001 node sample sets; the "
                  "NonZeroU32::new_unchecked guards hold; the curve computation (calculate_path with all four segment kinds, the Bezier flattening on reused scratch buffers, "
                  "the joint de-duplication, calculate_length, position_at on the result) cannot reach any of its index / slice / subtraction panics, for every arithmetic "
                  "instance, mode, control-point list, expected length and fuel, on all well-formed buffers — hence the finaliser and `From<BeatmapState> for Beatmap` return a "
                  "value or exhaust the model's loop fuel, never panic (decode_total_modulo_fuel); the encoder can panic only through the f64::clamp assertion of "
                  "SliderEventsIter::new, exactly when a slider distance d has ¬(0 <= min(100000, d)), and never does when all distances satisfy it. Not proved: loop fuel "
                  "sufficiency in IEEE (only the structural bound bezier_fuel_suffices under an explicit flatness hypothesis) and non-negativity of decoded slider distances "
                  "(law-dependent; stated as decoded_dist_nonneg_statement). Observed with the real crate: NaN distance (decoded integer-coordinate witness "
                  "`0,0,1000,2,0,L|P|104350:-45691|104342:-46372|104334:-47052,1`) encodes without panic; `sev` with total_dist = -5 panics in model and crate alike; a map edited "
                  "through the public API (osu! Catmull control points 0:0:L 358637bd:0:C 46aa183e:c33e654e 46b44129:c349c4a4 4734e36a:c3ca7a43 47990b20:c42b4f34 "
                  "47b8bccf:c44ec944 as f32 bits, expected_dist = Some(-1e-6)) has dist = -1e-6 and makes Beatmap::encode_to_string panic (`min > max`) — not a decoded map. "
                  "Tied to the code by whole-file differentials "
                  "(`dec9`, `enc`: all nine decoders and the encoded text, character for character) over noise, grammar-with-hostile-numerics, mutations/splices/truncations of "
                  "the bundled maps and all encodings; the harness is built with debug assertions and overflow checks, runs every request under catch_unwind, and the `total` oracle "
                  "requires a value from every decoder, a successful encode, and a successful re-decode.")
    technique = "Lean 4 proof (totality by construction, error-origin theorem, index safety of the curve code as unreachability of the model's explicit panic outcomes) + whole-file differential with panic/overflow detection"
    trusted_base = [
        "Lean 4.33.0 kernel; axioms ⊆ {propext, Classical.choice, Quot.sound} per #print axioms",
        "hand-written model of the whole crate tied to /repo by the `dec9` / `enc` differentials of this run",
        "harness profile: release with debug-assertions and overflow-checks on, panic=unwind, every request under catch_unwind (a crash of the process is bisected and reported as CRASH)",
    ]
    assumptions = ["curve / slider-event loops run with fuel 2·10^6 / 10^7 in the model; exhaustion is reported as `fuel-exhausted`, never defaulted",
                   "the `tracing` feature set is exercised by a second harness build (no subscriber installed) whose observations must equal the default build's on every correspondence case"]
    nontrivial_rule = "byte strings from the file families; non-trivial = the Beatmap decoder produced at least one hit object or control point"

    def gen(self, rng, tier):
        cases = []
        n = 2500 if tier == "quick" else 60000
        for i in range(n):
            tag, data = file_case(rng, tier)
            h = hexs(data)
            cases.append(Case("total " + h, corr=False, tags=(tag,)))
            if i % 3 == 0:
                cases.append(Case("enc " + h, prop=False, tags=("enc-" + tag,)))
            elif i % 3 == 1:
                cases.append(Case("dec9 " + h, prop=False, tags=("dec9-" + tag,)))
        # inputs that are long along ONE axis (hundreds of thousands of lines before the first section, inside a section, of
        # section headers; one line of megabytes; hundreds of thousands of tokens in one record): recursion in place of a loop,
        # or anything worse than linear, only shows at this scale (seed C01-j: one stack frame per preamble line)
        big = 600000 if tier == "quick" else 2000000
        head = b"osu file format v14\n"
        for tag, data in (
            ("blank-preamble", head + b"\n" * big + b"[General]\nMode: 1\n"),
            ("comment-preamble", b"// c\n" * (big // 2) + b"[Metadata]\nTitle:x\n"),
            ("junk-preamble-no-version", b"junk\n" * (big // 2) + b"[Difficulty]\nCircleSize:4\n"),
            ("blank-lines-in-section", head + b"[General]\n" + b"\n" * big + b"Mode: 2\n"),
            ("rejected-lines-in-section", head + b"[HitObjects]\n" + b"x\n" * (big // 2) + b"1,2,3,1,0\n"),
            ("repeated-headers", head + b"[Events]\n[TimingPoints]\n" * (big // 8) + b"[General]\nMode: 3\n"),
            ("one-long-line", head + b"[Metadata]\nTitle:" + b"a" * (2 * big) + b"\n"),
            ("many-bookmarks", head + b"[Editor]\nBookmarks: " + b",".join(b"%d" % i for i in range(big // 6)) + b"\n"),
            ("many-curve-points", head + b"[HitObjects]\n0,0,0,2,0,B|" + b"|".join(b"%d:%d" % (i % 500, (i * 7) % 380) for i in range(big // 60)) + b",1,100\n"),
        ):
            cases.append(Case("total " + hexs(data), corr=False, tags=("scale-" + tag,)))
        # UTF-16 files cut at every length (quick: every length of a short file): the reader's look-ahead for the second byte of a
        # line feed meets the end of input at an odd offset (seed C01-n)
        short = "osu file format v9\n\n[General]\nMode: 1\n\n[Metadata]\nTitle:t\n[HitObjects]\n64,64,100,1,0,0:0:0:0:\n\n"
        for enc in ("utf-16-le", "utf-16-be"):
            data = (b"\xff\xfe" if enc == "utf-16-le" else b"\xfe\xff") + short.encode(enc)
            for k in range(0, len(data) + 1, 1 if tier != "quick" or len(data) < 400 else 3):
                cases.append(Case("total " + hexs(data[:k]), corr=False, tags=("truncate-" + enc,)))
        # hit-object lines whose position or control points lie beyond the coordinate limit, with Bezier / perfect-curve paths: the
        # decoder rejects them (their curves would be computed at magnitudes where finding F23 lives), seed C01-m
        for pos, path in (("20000000,192", "B|300:200|400:192"), ("256,2147483647", "B|300:200|400:192|500:0"), ("16777217,16777217", "P|16777300:200|400:16777400|5:5"),
                          ("-131073,0", "B|1:1|2:5|7:3"), ("131073,131073", "B|131080:131090|131100:131000|0:0"), ("100,100", "B|4194305:4194304|4194306:4194305|4194305:4194305"),
                          ("100,100", "B|131073:0|131074:5|131075:1"), ("1e30,0", "B|1:1|2:5|7:3"), ("8388609,0", "B|8388610:0|8388610:0")):
            for mode in (0, 2):
                ls = f"osu file format v14\n\n[General]\nMode: {mode}\n\n[HitObjects]\n{pos},1000,2,0,{path},1,100\n64,64,2000,1,0,0:0:0:0:\n"
                cases.append(Case("total " + hexs(ls.encode()), corr=False, tags=("beyond-coordinate-limit",)))
        for d in READER_CORNERS:
            cases.append(Case("total " + hexs(d), corr=False, tags=("reader-corner",)))
            cases.append(Case("dec9 " + hexs(d), prop=False, tags=("reader-corner",)))
        for f, d in (small_bundled() if tier == "quick" else bundled()):
            cases.append(Case("total " + hexs(d), corr=False, tags=("bundled",)))
            cases.append(Case("enc " + hexs(d), prop=False, tags=("bundled",)))
            # truncations at every length of the small files (thorough) / sampled (quick)
            # truncations: sampled in the quick tier; every length of the small files and 400 sampled lengths of the
            # large ones in the thorough tier
            if tier == "quick":
                step = max(1, len(d) // 40)
            else:
                step = 1 if len(d) <= 6000 else max(1, len(d) // 400)
            for k in range(0, len(d), step):
                cases.append(Case("total " + hexs(d[:k]), corr=False, tags=("truncate",)))
        return cases

    def post(self, tier, corr_cases, impl_out):
        """{default, tracing} feature sets: the build with rosu-map's `tracing` feature must give the same
        observation on every correspondence case (and must not panic while logging the errors)"""
        core.build_harness_tracing()
        outs = core.run_lines(core.HARNESS_TRACING_BIN, "impl", [c.line for c in corr_cases])
        bad = []
        for c, a, b in zip(corr_cases, impl_out, outs):
            if a != b:
                bad.append((c, f"FAIL tracing build differs: default [{a[:200]}] tracing [{b[:200]}]"))
        self._tracing_compared = len(corr_cases)
        return bad

    def is_nontrivial(self, case, impl_out):
        return impl_out.startswith("ok") and len(impl_out) > 600


PROP = C01()
