import itertools
import math
import struct

from ..runner import Case, Property

NAN = float("nan")
INF = float("inf")
MAX_LEN = 100000.0
# never make the real `while d <= len` loop run more than this many turns per span (no watchdog can stop it in-process)
MAX_TICKS_PER_SPAN = 100000
MAX_EVENTS = 300000


def bits(x: float) -> str:
    return format(struct.unpack(">Q", struct.pack(">d", x))[0], "x")


def effective(tick, total):
    """(len, tick_dist) as `SliderEventsIter::new` derives them; None if `new` panics."""
    ln = MAX_LEN if (math.isnan(total) or total > MAX_LEN) else total
    if not (0.0 <= ln):
        return None
    t = tick
    if t < 0.0:
        t = 0.0
    if t > ln:
        t = ln
    return ln, t


def safe(tick, total, n, max_events=MAX_EVENTS):
    """the request terminates quickly on the real code"""
    e = effective(tick, total)
    if e is None:
        return True
    ln, t = e
    if not (t > 0.0):
        return True
    per_span = ln / t
    return per_span <= MAX_TICKS_PER_SPAN and per_span * max(n, 1) <= max_events


def use(start, dur, vel, tick, total, n, k="all"):
    return f"{bits(start)} {bits(dur)} {bits(vel)} {bits(tick)} {bits(total)} {n} {k}"


def sev(start, dur, vel, tick, total, n, pre=None, k=None):
    s = f"sev {bits(start)} {bits(dur)} {bits(vel)} {bits(tick)} {bits(total)} {n}"
    if pre is not None:
        s += f" {pre}"
        if k is not None:
            s += f" {k}"
    return s


class C20(Property):
    id = "C20"
    lean_module = "RosuModel.Props.C20Full"   # imports Props/C20Exact.lean (→ Props/C20.lean) and Props/C20Ieee.lean; all in namespace Rosu.C20
    theorem_modules = ['RosuModel.Props.C20Exact', 'RosuModel.Props.C20Ieee', 'RosuModel.Props.C20IeeeTicks', 'RosuModel.Props.C20IeeeErr', 'RosuModel.Props.C20IeeeErr2', 'RosuModel.Props.C20IeeeForms', 'RosuModel.Props.C20IeeeFormsOrder', 'RosuModel.Props.C20IeeeOrder2', 'RosuModel.Props.C20IeeeOrder3', ('RosuModel.Lemmas.FloatAddSumMono', 'Rosu.FErr'), ('RosuModel.Lemmas.FloatAddAbsorb', 'Rosu.FErr')]   # files whose top-level theorems are all audited
    namespace = "Rosu.C20"
    design_ref = "5.20"
    level_text = (
        "Lean 4 theorems over the model of slider/event.rs (the lazy state machine Head/Ticks{span}/LastTick/Tail/Done with its reversed "
        "tick stack, generate_ticks with its arithmetic while loop under a fuel argument, the clamp/clear of new). For every scalar type "
        "(no arithmetic law, hence also for IEEE f64), every span count >= 1, every parameter tuple and every initial buffer: the collected "
        "iterator equals the eager list head :: spans(ticks in chronological order ++ repeat unless last) ++ [last tick, tail] (stream_shape), "
        "with the event-count formula, the closed forms of head/repeat/last tick/tail, identical tick distances on every span, mirrored tick "
        "times on odd spans, the min-distance and length guards on every tick, no ticks but all repeats when the tick distance is not positive, "
        "independence from the previous buffer contents incl. sequences of half-consumed iterators on one buffer. EXACT ARITHMETIC (Props/C20Exact.lean): under the "
        "one law structure ExactNum (Lemmas/ExactNum.lean = ExactScalar of Lemmas/ExactArith.lean - the Scalar operations are those of a linearly ordered field "
        "through an injective map - plus 'no NaN' and exact i32->f64; instances on core Rat and on the reals: laws_rat, laws_real), about the model functions the "
        "driver runs (Params.new/Iter.new, the tick loop, collect/collectAcc, runUse): new_exact (len = min(100000,total) >= 0, tick_dist = min(len,max(0,td)), "
        "min_dist = 10*velocity); spanTickDists_exact / ticks_at_multiples_exact / stream_ticks_exact (the k-th tick distance is (k+1)*tick_dist, the tick count is "
        "the first k whose multiple fails a guard - TickCount, unique -, every span's j-th tick in time has progress (k+1)*tick_dist/len with k=j on forward and "
        "k=c-1-j on reversed spans and time start+s*dur+progress*dur resp. +(1-progress)*dur); ticks_respect_min_distance_exact (d <= len and, strictly, "
        "10*velocity < len - d); closed forms headEvent_exact, repeatEvent_exact (start+(s+1)*dur), lastTickEvent_exact (max(start+n*dur/2, end-36), end = tail time), "
        "tailEvent_exact (start+n*dur); ticks_fuel_suffices_exact / ticks_fuel_floor / stream_exists_exact / runUse_exact (for EVERY input: any fuel >= m with "
        "len < m*tick_dist - e.g. floor(len/tick_dist)+1 - makes collect and the driver's runUse return the eager list, never fuel-exhausted); "
        "ticks_chronological_exact, stream_chronological_exact and stream_ordering_exact (for n >= 1, len > 0, span duration > 0, velocity >= 0: the collected list IS "
        "head :: (per span: c ticks of that span in strictly increasing time ++ repeat unless last) ++ [last tick, tail]; without the legacy last tick it is "
        "strictly increasing in time head < span 0 < ... < span n-1 < tail; head < last tick <= tail). The legacy last tick is NOT always after the final span's "
        "ticks (proved example). None of the exact-arithmetic part is proved for IEEE f64 (see partial_theorems); OrderedFieldLaws Float is refuted in the kernel (orderedFieldLaws_float_false: lt_of_not_le fails on NaN), "
        "while its pure order fields are theorems of the driver's Float and give the strict min-distance bound for IEEE doubles (ticks_respect_min_distance_strict_float, Props/C20Ieee.lean: every tick distance is a "
        "number, <= len and < len − 10·velocity when that bound is a number). The older OrderedFieldLaws versions (Props/C20.lean part 2) are kept. "
        "Model tied to the code on every run: real SliderEventsIter vs model, bit-for-bit on all event fields and on the buffer left behind; an "
        "eager Rust reference written from the property text judges the implementation.")
    technique = "Lean 4 proof (induction over spans / stack discipline) + bit-exact differential correspondence on the public iterator"
    required_theorems = [
        "repeat_le_tail_nonneg_small_outside_sliver", "repeat_le_tail_nonneg_small_outside_band", "repeat_le_tail_nonneg_tiny_float", "repeat_le_tail_nonneg_small_sharp",
        "repeat_le_tail_zero_start_float", "repeat_le_tail_of_absorbed_float", "repeat_le_tail_band_instances",
        "repeat_le_tail_statement_false", "repeat_le_tail_nonneg_statement_false", "repeat_gt_tail_neg_float", "repeat_gt_tail_pos_float", "repeat_zero_le_tail_float",
        "repeat_le_repeat_float", "repeat_le_tail_plus_span_float", "repeat_le_tail_of_span_ge", "repeat_le_tail_of_span_ge_limit",
        "head_exact_float", "repeat_time_err_float", "tail_time_err_float", "last_tick_time_err_float", "repeat_progress_exact_float", "span_start_mono_float",
        "last_tick_le_tail_float", "strict_order_fails_float", "last_tick_gt_tail_float",
        "tick_progress_err_float", "tick_progress_multiple_err_float", "tick_time_err_float", "tick_time_total_err_float", "span_start_err_float",
        "ticks_near_multiples_float", "tick_rel_err_float", "tick_rel_err_crude_float", "tick_abs_err_after_new_float", "first_tick_exact_float", "exG_third_tick_off",
        "stream_shape", "stream_shape_spec", "stream_fuel_exhausted", "event_count", "buffer_irrelevant", "runSeq_buffer_irrelevant",
        "takeAcc_prefix", "collectAcc_eq_collect", "eventsOf_eq_concat",
        "repeats_all_present", "head_form", "repeat_form", "last_tick_form", "tail_form",
        "same_ticks_every_span", "ticks_mirrored_on_odd_spans", "ticks_respect_min_distance",
        "ticks_at_multiples", "ticks_respect_min_distance_strict", "ticks_chronological", "ticks_fuel_suffices", "last_tick_formula",
        "rat_laws",
        # Props/C20Exact.lean: the law-dependent half under the single law structure ExactNum
        "new_exact", "new_tickDist_range", "tickDists_exact", "tickDists_terminates", "TickCount.unique", "spanTickDists_exact",
        "ticks_fuel_suffices_exact", "ticks_fuel_floor", "spanStart_exact", "tickEvent_exact", "repeatEvent_exact", "headEvent_exact",
        "tailEvent_exact", "lastTickEvent_exact", "ticks_at_multiples_exact", "ticks_respect_min_distance_exact", "tickDists_facts",
        "ticks_chronological_exact", "spanEvents_chrono", "spansFrom_chrono", "stream_chronological_exact", "stream_exists_exact",
        "runUse_exact", "stream_ordering_exact", "stream_ticks_exact", "laws_rat", "laws_real",
        # Props/C20Ieee.lean: the order pieces of OrderedFieldLaws that hold of IEEE doubles; the strict min-distance bound for Float; the structure itself refuted
        "ticks_respect_min_distance_strict_ieee", "ticks_respect_min_distance_strict_float", "orderedFieldLaws_order_float",
        "lt_of_not_le_float_false", "orderedFieldLaws_float_false",
    ]
    partial_theorems = {
        "repeat_le_tail_nonneg_small_outside_sliver": "Props/C20IeeeOrder3.lean, Lemmas/FloatAddSumMono.lean, Lemmas/FloatAddAbsorb.lean (sixth session, wave 11): repeat ≤ tail for a NON-NEGATIVE start and "
            "n ≤ 2^20 with NO lower bound on the span duration D — proved everywhere except a sliver of span durations of relative width 2^-31 at half an ulp of the span start "
            "(repeat_le_tail_nonneg_small_outside_sliver; relative to the start: …_outside_band; D ≤ 2^-54·A: …_tiny_float for n < 2^31; start 0: repeat_le_tail_zero_start_float). A search over 10^9 cases "
            "found no counterexample with A ≥ 0 for n ≤ 2^30 (a pencil argument says a failure needs s·n ≳ 2^52); three instances inside the sliver are kernel-checked (repeat_le_tail_band_instances). PARTIAL: "
            "the sliver itself and A = 0 with D < 2^-1071 (repeat_le_tail_nonneg_small_statement stays open). New float lemmas: add_le_add_of_toRat_le, add_half_ulp_float, add_absorb_le_float",
        "repeat_le_tail_of_span_ge / repeat_le_tail_statement_false": "Props/C20IeeeOrder2.lean (sixth session, wave 7): the order of the closed-form times on IEEE doubles is DECIDED. 'Every repeat (s + 2 ≤ n) is ≤ the "
            "tail' is FALSE: repeat_le_tail_statement_false (A = −2−2^-51, D = 2^-53(1+2^-10), n = 4, s = 2: A+2D rounds to −2, −2+D rounds up into the denser binade, A+4D rounds to −2) and, with 0 ≤ A, "
            "repeat_le_tail_nonneg_statement_false (A = 2147483582.9999995, D ≈ 2^-23, n = 2^29+1: the tail is 2147483647 exactly, the last repeat one ulp above), both `decide +kernel` on closed doubles. The "
            "property's own text asks for the closed-form times, not for this order, so this is not a finding. TRUE with no magnitude hypothesis: repeat_zero_le_tail_float, repeat_le_repeat_float (repeats are "
            "ordered among themselves), repeat_le_tail_plus_span_float (one span of slack always suffices); TRUE under one condition on D: repeat_le_tail_of_span_ge (8·2^-53(|A|+nD) + 2^-1072 ≤ D), "
            "repeat_le_tail_of_span_ge_limit (|A|+nD ≤ 2^33 and D ≥ 2^-16: every playable slider). Not attempted: A ≥ 0 ∧ n ≤ 2^26 ⟹ repeat ≤ tail",
        "head_exact_float / repeat_time_err_float / tail_time_err_float / last_tick_time_err_float / the order facts (closed forms on IEEE DOUBLES)":
            "sixth session, Props/C20IeeeForms.lean, Props/C20IeeeFormsOrder.lean over the error-bound layer. Head: time = start and progress 0 exactly (no arithmetic). Repeats: |time - (start + (s+1) D)| <= "
            "5 * 2^-53 (|start| + (s+1) D) + 2^-1073; tail: 3 * 2^-53 (|start| + n D) + 2^-1074; last tick: IEEE max is exact (toRat_max_float), the time is one of its two operands, each within an explicit bound of "
            "start + n D / 2 resp. start + n D - 36 (last_tick_time_err_simple_float: 7 * 2^-53 (|start| + n D + 36) + 2^-1072); progress of repeats and tail exactly 0 or 1, the last tick's progress within a bound. The only "
            "finiteness hypothesis is that the result is finite. Order facts that SURVIVE rounding (D >= 0): span starts are monotone, head <= span start <= repeat, head <= tail, head <= last tick, last-tick half <= tail; "
            "last tick <= tail under |start| + n D <= 2^54 (last_tick_le_tail_float); repeat <= tail under a gap hypothesis (repeat_le_tail_partial; the unconditional repeat_le_tail_statement is NOT proved). FALSE on doubles, "
            "kernel-evaluated: the strict order of stream_ordering_exact (strict_order_fails_float: start 2^53, D = 0.25, n = 2 - head, repeat, last tick and tail all at 2^53), last tick <= tail without the magnitude bound "
            "(last_tick_gt_tail_float: start about 4.4e18, the -36 is absorbed), and the identity behind last_tick_formula even as <= (final_span_end_gt_tail_float: one ulp)",
        "ticks_at_multiples / ticks_at_multiples_exact / stream_ticks_exact":
            "exact arithmetic only (ExactNum: instances Rat, reals), about spanTickDists / the events collect returns; in IEEE f64 the k-th distance is the "
            "k-fold ROUNDED sum ((t+t)+t)+... and is NOT the exact multiple (exG_third_tick_off: for t = 0.1 the third distance is 3t + 2^-55, kernel-evaluated). NOW WITH A PROVED IEEE ERROR BOUND "
            "(Props/C20IeeeErr.lean over Lemmas/FloatErr.lean, sixth session): toRat = the exact rational value of a finite double; add_err_float — the standard model of IEEE addition for Lean's logical doubles, "
            "toRat (a + b) = (toRat a + toRat b)(1 + d) with |d| <= 2^-53 for finite a, b, a + b (all signs, zeros, subnormals, cancellation; from rq_half_ulp: rounding is to NEAREST); "
            "ticks_near_multiples_float — for the distances ds spanTickDists returns on doubles (finite len; no hypothesis on the tick distance t) the (k+1)-th one satisfies "
            "(k+1) t (1 - 2^-53)^k <= ds[k] <= (k+1) t (1 + 2^-53)^k, the first one is t exactly (first_tick_exact_float); tick_rel_err_float, tick_rel_err_crude_float "
            "(|ds[k] - (k+1)t| <= (k+1)^2 2^-52 t for k <= 2^53), and after SliderEventsIter::new (len <= 100000) tick_abs_err_after_new_float: |ds[k] - (k+1)t| <= k 2^-36 whatever t. "
            "Path PROGRESS and tick TIME (Props/C20IeeeErr2.lean over Lemmas/FloatErrMul.lean): tick_progress_err_float (|d/len computed - d/len| <= 2^-53 d/len), tick_progress_multiple_err_float "
            "(|progress_k - (k+1)t/len| <= ((1+2^-53)^(k+1) - 1)(k+1)t/len), tick_time_err_float (the tick time against span start + theta * span duration with theta = d/len or 1 - d/len on reversed spans: "
            "<= 2^-53 |span start| + 5 * 2^-53 * duration + 2^-1074; the only no-overflow hypothesis is that the result is finite), span_start_err_float, tick_time_total_err_float (against start + s*D + theta*D). "
            "All theorems about Float.Model; kernel-evaluated instance on exG (third tick time 0x4072C00000000001, deviation 7 * 2^-49 inside the bound)",
        "ticks_respect_min_distance_strict / ticks_respect_min_distance_exact":
            "the generic forms need a total order (OrderedFieldLaws.lt_of_not_le, false with NaN); the structural ticks_respect_min_distance states both guards exactly as the code tests "
            "them and holds for IEEE. NOW ALSO FOR IEEE DOUBLES (Props/C20Ieee.lean; Lean 4.33's Float is a structure over the logical model Float.Model and the comparisons reduce in the kernel; order theory of "
            "Lemmas/FloatModelCompare.lean): ticks_respect_min_distance_strict_ieee / ticks_respect_min_distance_strict_float — every tick distance is a number, <= len, and STRICTLY below len − 10·velocity whenever "
            "that bound is not NaN (the one hypothesis left; if the bound is NaN the guard excludes nothing). orderedFieldLaws_order_float: the order fields not_le_of_lt, lt_trans hold of Float unconditionally, "
            "lt_of_not_le on numbers; lt_of_not_le_float_false / orderedFieldLaws_float_false: OrderedFieldLaws Float is unsatisfiable (NaN), so every theorem taking it is about exact arithmetic and says "
            "nothing about the running code (ExactNum likewise has a `no NaN` field that Float's NaN violates; that refutation is not stated as a theorem)",
        "ticks_chronological / ticks_chronological_exact / stream_chronological_exact / stream_ordering_exact":
            "exact arithmetic only, for n >= 1, len > 0, span duration > 0, velocity >= 0 (with a negative velocity a tick may sit exactly on the span end): strict "
            "order inside each span and across the stream without the last tick, head < last tick <= tail. IEEE rounding can make neighbouring tick times equal "
            "(the implementation-level oracle checks non-decreasing). The property's wording does not order the legacy last tick against the final span's ticks and "
            "no such order holds (proved example: last tick at 25 ms listed after ticks at 20 and 40 ms)",
        "last_tick_formula / lastTickEvent_exact / tailEvent_exact / repeatEvent_exact":
            "exact arithmetic only: (start + (n-1)*dur) + dur = start + n*dur needs associativity/distributivity; in IEEE the two differ by rounding (the oracle "
            "compares the implementation with the closed form at 4 ulp of the operand magnitude; the structural last_tick_form states the expression exactly as evaluated)",
        "ticks_fuel_suffices / ticks_fuel_suffices_exact / ticks_fuel_floor / stream_exists_exact / runUse_exact":
            "exact arithmetic only, there for every input: fuel m with len < m*tick_dist (floor(len/tick_dist)+1 in a field with a floor, e.g. Rat, reals) suffices for "
            "the tick loop, collect and runUse; the driver's constant 10^7 therefore suffices whenever len/tick_dist < 10^7 and n*(len/tick_dist+1)+2 < 10^8. In IEEE "
            "the loop can stall when d + tickDist rounds to d (needs >= 2^52 turns, see Model/SliderEvents.lean); the model then reports fuel-exhausted "
            "(stream_fuel_exhausted), never a made-up stream",
    }
    trusted_base = [
        "Lean 4.33.0 kernel",
        "axioms: at most propext, Classical.choice, Quot.sound (audited per theorem with #print axioms)",
        "hand-written model Model/SliderEvents.lean (generic over Model/Scalar.lean) tied to /repo by the differential run of this check",
        "IEEE-754 semantics of + - * / and comparisons, f64::min/max/clamp, i32→f64: a theorem about Float is a theorem about Lean 4.33's logical float model Float.Model (Float is a structure over it; these operations "
        "reduce in the kernel); that the compiled @[extern] C double operations agree with that model is part of Lean's own trusted code base and is compared with Rust f64 bit for bit (codec requests fop64 / fop32 "
        "<add|sub|mul|div|sqrt|abs|neg|cmp|minmax>; every request of this run)",
        "Vec::{push,pop,reverse,clear} modelled as a list kept back-first",
    ]
    assumptions = [
        "theorems are about the Lean model; the model is compared with the implementation only on the generated requests of this run",
        "domain: span count >= 1 (property) — span count 0 is modelled and compared but not judged; negative span counts make the real code loop ~2^32 times / overflow and are never sent",
        "domain: length >= 0 or NaN — a negative total distance makes SliderEventsIter::new panic in f64::clamp (min > max); the model reproduces the panic and it is compared, not judged",
        "generators keep len/tickDist <= 1e5 per span and <= 3e5 events per request: with a tiny positive tick distance the real while loop runs len/tickDist turns (unbounded in practice) and cannot be interrupted in-process",
        "law-dependent theorems hold in exact arithmetic only (DESIGN.md 3.3; hypothesis structure ExactNum, which IEEE f64 does not satisfy: rounding, NaN, overflow — for the older OrderedFieldLaws this is the kernel-checked orderedFieldLaws_float_false); the implementation-level oracle computes the reference with the legacy expressions (bit-for-bit) and reports the deviation from the exact multiples and from the alternative closed forms (4 ulp at operand magnitude)",
    ]
    nontrivial_rule = ("grid span counts 0..6 x tick/length ratios (0, negative, >len, NaN, inf, fractions) x lengths (incl. > MAX_LEN, 0, inf, NaN, negative) x "
                       "velocities (incl. 0, NaN) x durations x starts; random playable parameters; hostile bit patterns; sequences of 2..5 iterators on one "
                       "buffer with junk pre-fill and partial consumption; non-trivial = the stream contains at least one tick and one repeat")

    def gen(self, rng, tier):
        cases = []
        thorough = tier != "quick"

        def add(line, tick, total, n, tags, max_events=MAX_EVENTS):
            if n < 0 or not safe(tick, total, n, max_events):
                return
            cases.append(Case(line, tags=tags))

        # the five unit tests of event.rs
        for (v, t, n) in [(1.0, 500.0, 1), (1.0, 500.0, 2), (1.0, 300.0, 2), (5.0, 5.0, 2)]:
            add(sev(0.0, 1000.0, v, t, 1000.0, n), t, 1000.0, n, ("unit-tests",))

        # exhaustive grid
        spans = [1, 2, 3, 4, 5, 6]
        ratios = [("zero", 0.0), ("negzero", -0.0), ("neg", -0.25), ("r0.02", 0.02), ("r0.1", 0.1), ("r0.25", 0.25), ("r0.3", 0.3),
                  ("r1/3", 1.0 / 3.0), ("r0.5", 0.5), ("r0.7", 0.7), ("r1", 1.0), ("r>1", 1.5), ("nan", NAN), ("inf", INF)]
        lens = [("len1000", 1000.0), ("len100", 100.0), ("len0.7", 0.7), ("len0", 0.0), ("len>max", 250000.0), ("len=max", MAX_LEN),
                ("leninf", INF), ("lennan", NAN)]
        vels = [("v1", 1.0), ("v0", 0.0), ("v0.35", 0.35), ("v5", 5.0), ("vbig", 60.0), ("vnan", NAN)]
        durs = [("d1000", 1000.0), ("d0", 0.0), ("d33.3", 33.3), ("dneg", -250.0)]
        starts = [("s0", 0.0), ("s1234.5", 1234.5)]
        if thorough:
            spans = [0] + spans + [7, 8]
            lens += [("len-neg", -10.0), ("len-0", -0.0), ("len99999.5", 99999.5)]
            vels += [("vneg", -2.0), ("vinf", INF)]
            durs += [("dinf", INF), ("dnan", NAN), ("d1e-3", 1e-3)]
            starts += [("sneg", -5000.25), ("s1e9", 1e9)]
        for (n, (rt, r), (lt, ln), (vt, v), (dt, d), (st, s)) in itertools.product(spans, ratios, lens, vels, durs, starts):
            base = MAX_LEN if (math.isnan(ln) or ln > MAX_LEN) else ln
            t = r if (math.isnan(r) or math.isinf(r)) else r * base
            add(sev(s, d, v, t, ln, n), t, ln, n, ("grid", "grid-td-" + rt, "grid-" + lt, "grid-" + vt, "grid-" + dt, f"grid-n{n}"))
        # domain edges compared with the model but not judged: span count 0, negative length
        for (rt, r), (vt, v) in itertools.product(ratios, vels[:3]):
            t = r if (math.isnan(r) or math.isinf(r)) else r * 1000.0
            add(sev(0.0, 1000.0, v, t, 1000.0, 0), t, 1000.0, 0, ("edge-span0",))
            for ln in (-10.0, -INF, -0.0):
                add(sev(0.0, 1000.0, v, t, ln, 2, 2), t, ln, 2, ("edge-neg-len",))

        # many ticks per span (guard boundary), tick-count cut-off neighbourhoods
        for per_span, n in [(1000, 3), (10000, 2), (100000, 1), (99999, 2)]:
            ln = 50000.0
            t = ln / per_span
            add(sev(10.0, 2000.0, 0.5, t, ln, n), t, ln, n, ("many-ticks",))
        for k in range(1, 40):
            for t in (0.1, 0.3, 0.7, 1.1):
                ln = 10.0 + t * k
                for v in (1.0, 0.0):
                    add(sev(0.0, 500.0, v, t, ln, 3), t, ln, 3, ("cutoff-neighbourhood",))

        # random real-valued parameters in playable ranges
        n_rand = 40000 if not thorough else 200000
        for _ in range(n_rand):
            vel = rng.uniform(0.05, 5.0)
            ln = rng.choice([rng.uniform(10.0, 2000.0), float(rng.randint(10, 1500)), rng.uniform(10.0, 300.0)])
            n = rng.choice([1, 1, 2, 2, 3, 4, 5, 6, rng.randint(1, 40)])
            consistent = rng.random() < 0.6
            dur = ln / vel if consistent else rng.uniform(30.0, 5000.0)
            beat = rng.uniform(150.0, 1200.0)
            rate = rng.choice([0.5, 1.0, 2.0, 3.0, 4.0, 8.0, rng.uniform(0.5, 8.0)])
            tick = vel * beat / rate
            if rng.random() < 0.15:
                tick = ln / rng.randint(1, 40)          # exact divisors: ticks landing on the cut-off
            if rng.random() < 0.05:
                tick = INF                              # generate_ticks = false in slider_events
            start = rng.choice([rng.uniform(0.0, 600000.0), float(rng.randint(0, 600000))])
            pre = rng.choice([None, None, 0, 1, 3])
            k = None
            if pre is not None and rng.random() < 0.5:
                k = rng.choice(["all", rng.randint(0, 12)])
            add(sev(start, dur, vel, tick, ln, n, pre, k), tick, ln, n, ("random-playable", "consistent" if consistent else "free-duration"))

        # hostile values, any field
        specials = [0.0, -0.0, 1.0, -1.0, 0.5, 36.0, 72.0, 1e-3, 1e3, 1e5, 100000.00000000001, 99999.99999999999, 1e6, 1e15, 1e300, -1e300,
                    INF, -INF, NAN, 5e-324, 2.2250738585072014e-308, 0.1, 0.3, 1 / 3, 2 ** 31 * 1.0, 1e-7]
        n_host = 12000 if not thorough else 100000
        for _ in range(n_host):
            f = [rng.choice(specials) if rng.random() < 0.6 else rng.uniform(-2000.0, 2000.0) for _ in range(5)]
            n = rng.choice([0, 1, 2, 3, 4, 7])
            add(sev(f[0], f[1], f[2], f[3], f[4], n, rng.choice([None, 2])), f[3], f[4], n, ("hostile",), 5000)

        # sequences of iterators sharing one buffer, some abandoned half-way
        n_seq = 10000 if not thorough else 60000
        for _ in range(n_seq):
            m = rng.randint(2, 5)
            pre = rng.choice([0, 0, 1, 2, 5])
            parts = []
            ok = True
            for _ in range(m):
                vel = rng.uniform(0.1, 3.0)
                ln = rng.choice([rng.uniform(20.0, 1200.0), -5.0 if rng.random() < 0.05 else 400.0])
                n = rng.randint(1, 6)
                tick = rng.choice([ln / rng.randint(1, 12) if ln > 0 else 10.0, rng.uniform(15.0, 300.0), 0.0])
                dur = rng.uniform(50.0, 2000.0)
                start = rng.uniform(0.0, 100000.0)
                k = rng.choice(["all", "all", rng.randint(0, 3), rng.randint(0, 30)])
                ok = ok and safe(tick, ln, n)
                parts.append(use(start, dur, vel, tick, ln, n, k))
            if ok:
                cases.append(Case(f"sevseq {pre} " + " ".join(parts), tags=("sequence", f"seq-len{m}")))
        return cases

    def is_nontrivial(self, case, impl_out):
        return " T:" in impl_out and " R:" in impl_out


PROP = C20()
