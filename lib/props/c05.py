import itertools

from ..gen import encodings, hexs, join_lines, bundled_files
from ..runner import Case, Property

HEADERS = ["[General]", "[Editor]", "[Metadata]", "[Difficulty]", "[Events]", "[TimingPoints]",
           "[Colours]", "[HitObjects]", "[Variables]", "[CatchTheBeat]", "[Mania]"]

# the line alphabet of the property's quantifier (kind tag, text)
CORE = [
    ("blank", ""), ("ws", "   "), ("comment", "// c"), ("icomment", "  // indented"),
    ("ver-good", "osu file format v9"), ("ver-bad", "osu file format vx"), ("ver-suffixed", "osu file format v14 // c"),
    ("hdr-general", "[General]"), ("hdr-metadata", "[Metadata]"), ("hdr-hit", "[HitObjects]"),
    ("hdr-unknown", "[Unknown]"), ("hdr-indented", " [General]"), ("hdr-suffixed", "[General] x"),
    ("hdr-trailing-ws", "[Metadata]  "), ("rec-valid", "Mode: 1"), ("rec-invalid", "Mode: x"),
    ("rec-title", "Title: a//b"), ("rec-obj", "1,2,3,1,0"), ("commented-hdr", "//[General]"),
]
EXTRA = [
    ("tab", "\t"), ("ver-empty", "osu file format v"), ("ver-space", "osu file format v 7 "),
    ("ver-plus", "osu file format v+12"), ("ver-huge", "osu file format v99999999999"),
    ("ver-min", "osu file format v-2147483648"), ("ver-max", "osu file format v2147483647"),
    ("ver-indented", " osu file format v5"), ("ver-vv", "osu file format vv3"), ("ver-neg", "osu file format v-3"),
    ("hdr-lower", "[general]"), ("hdr-empty", "[]"), ("hdr-open", "["), ("hdr-close", "]"),
    ("hdr-comment", "[Metadata]//x"), ("hdr-nested", "[[General]]"), ("nbsp", " "),
    ("ff-line", "\x0c"), ("rec-key", "key"), ("slash", "/"), ("hdr-cr", "[Events]\r"),
    ("u3000-hdr", "[Editor]　"), ("rec-colon", "Title: Re:Zero"),
    # non-ASCII records whose UTF-16 forms contain 0x0A / 0x00 bytes in awkward places
    ("rec-cjk-gurmukhi", "TitleUnicode:一ਅક"), ("rec-0100-0a05", "Title:xĀਅy"), ("rec-010a", "Artist:aĊb"), ("rec-4e0a", "Tags:上海 上"),
    ("rec-0a0a", "Source:ਊਊ"), ("rec-astral", "Creator:𐐊😊"), ("rec-3000-0a41", "Version:　ੁ"), ("cjk-comment", "// 一ਅ"),
] + [("hdr-" + h, h) for h in HEADERS] + [
    # bracketed lines one edit away from a recognised header (seed C05-q: `[Colors]` accepted next to `[Colours]`): none opens a section
    ("near-" + h, h) for h in ["[Colors]", "[Colour]", "[Color]", "[colours]", "[Hitobjects]", "[HitObject]", "[TimingPoint]", "[Timingpoints]", "[Event]", "[MetaData]",
                               "[Generals]", "[Fonts]", "[Storyboard]", "[Taiko]", "[Osu]", "[Catch]", "[Variable]", "[Difficulties]", "[Editors]", "[ General]", "[General ]"]
] + [
    # U+FEFF where no BOM belongs: in front of a later line, alone on a line, doubled at the start (seed C05-r: stripped before the version check)
    ("feff-ver", "\ufeffosu file format v4"), ("feff-only", "\ufeff"), ("feff-hdr", "\ufeff[Metadata]"), ("feff-rec", "\ufeffTitle: t"), ("feff-feff-ver", "\ufeff\ufeffosu file format v5"),
]


class C05(Property):
    id = "C05"
    lean_module = "RosuModel.Props.C05"
    namespace = "Rosu.C05"
    design_ref = "5.5"
    level_text = ("Lean 4 theorems over the model of decode.rs/format_version.rs/Section::try_from_line for every list of lines and every "
                  "DecodeBeatmap implementation: the three Rust loops equal the declarative fold of the property (frame_eq_spec); blank lines, "
                  "comments after the version slot, unknown headers, repeated sections (feed_append) behave as stated; the comment-in-version-slot "
                  "corner is stated and proved both ways. Model tied to the code on every run by a recording DecodeBeatmap type vs the model on "
                  "exhaustive short files over the line alphabet + random long files in 4 encodings + bundled maps; an independent Rust transcription "
                  "of the statement is evaluated on the implementation for the failing-input search.")
    technique = "Lean 4 proof (induction over line lists) + differential correspondence with a recording decoder"
    required_theorems = ["frame_eq_spec", "feed_append", "feed_skip", "unknown_header_is_record",
                         "recorder_sees", "skip_irrelevant_after_first", "blank_irrelevant",
                         "comment_in_version_slot", "comment_before_version_matters"]
    partial_theorems = {}
    trusted_base = [
        "Lean 4.33.0 kernel",
        "axioms: at most propext, Classical.choice, Quot.sound (audited per theorem with #print axioms)",
        "hand-written model Model/{Text,Num,Utf,Reader,Framing}.lean tied to /repo by the differential run of this check",
        "std: BufRead::read_until / Read::read_exact / str::{trim_end,trim_start,starts_with,strip_prefix,strip_suffix,rsplit} / i32::from_str modelled per documentation",
        "the recording DecodeBeatmap type in harness/src/frame.rs (public trait, no hook)",
    ]
    assumptions = [
        "theorems are about the Lean model; the model is compared with the implementation only on the generated files of this run",
        "the property-level oracle (harness prop frame) transcodes UTF-16 inputs with std's String::from_utf16 and applies the same text-level reading",
    ]
    nontrivial_rule = ("files assembled from the line alphabet (exhaustive to a bounded length, random beyond), the bundled maps, "
                       "in four encodings with LF/CRLF; non-trivial = at least one line reached a section parser")

    def gen(self, rng, tier):
        cases = []
        kmax = 3 if tier == "quick" else 4
        alpha = [t for _, t in CORE]
        for k in range(0, kmax + 1):
            for combo in itertools.product(range(len(alpha)), repeat=k):
                text = join_lines([alpha[i] for i in combo], eol="\n", final=(sum(combo) % 2 == 0))
                cases.append(Case("frame " + hexs(text.encode()), tags=(f"exhaustive-len{k}",)))
        full = CORE + EXTRA
        n_rand = 6000 if tier == "quick" else 150000
        for _ in range(n_rand):
            k = rng.choice([1, 2, 3, 5, 8, 13, 21, 40])
            kinds = [rng.choice(full) for _ in range(k)]
            text = join_lines([t for _, t in kinds], rng=rng)
            enc = rng.choice(["utf8", "utf8", "utf8bom", "utf16le", "utf16be"])
            data = encodings(text)[enc]
            cases.append(Case("frame " + hexs(data), tags=("random", enc)))
            # "decoding a file" is the same whichever way the reader hands the bytes over: a tenth of the files is also
            # delivered with a short first chunk (1 or 2 bytes: inside the BOM / before the BOM can be recognised) or in small chunks
            if rng.random() < 0.1 and len(data) > 4:
                cut = rng.choice([1, 2, 3, rng.randint(1, 7)])
                rest = data[cut:]
                step = rng.choice([len(rest), len(rest), 3, 5, 64])
                parts = [data[:cut]] + [rest[i:i + step] for i in range(0, len(rest), max(1, step))]
                cases.append(Case("framesched " + " ".join("c" + hexs(p) for p in parts if p), tags=("chunked-" + enc,)))
                # ... and once more byte by byte with a transient `Interrupted` before every chunk: every place where the reader
                # refills (BOM probe, line scan, the look-ahead byte of an UTF-16LE line feed) must retry (seeds C05-i, C10-j)
                if len(data) <= 400:
                    cases.append(Case("framesched " + " ".join("i c%02x" % b for b in data), tags=("interrupted-bytewise-" + enc,)))
        # one physical line longer than any plausible internal buffer (64 KiB, 1 MiB of code units): a long `//` comment, a long
        # record, a long junk line in front of the first section - a reader that caps a line splits it, and the rest of a comment
        # becomes records (seed C05-k); in UTF-8 and UTF-16
        for n in ([65530, 65536, 70001, 300000] if tier == "quick" else [32768, 65530, 65535, 65536, 65537, 70001, 131072, 300000, 1100000]):
            for enc in ("utf8", "utf16le", "utf16be"):
                if enc != "utf8" and n > 70001 and tier == "quick":
                    continue
                for tag, text in (("comment", "osu file format v9\n[Metadata]\nTitle:real\n//" + "x" * n + " Title:injected\nArtist:after\n"),
                                  ("record", "[Metadata]\nTags:" + "tag " * (n // 4) + "\nTitle:after\n"),
                                  ("preamble", "y" * n + "[General]\n[Editor]\nGridSize: 4\n")):
                    cases.append(Case("frame " + hexs(encodings(text)[enc]), tags=("long-line-" + tag, enc)))
        # text handed over as a `&str` that begins with U+FEFF (what reading a BOM'd file into a String yields): the BOM is detected
        # and skipped on this entry point as on every other (seed C05-l)
        for _ in range(60 if tier == "quick" else 2000):
            k = rng.choice([1, 2, 3, 5, 8])
            text = join_lines([t for _, t in [rng.choice(full) for _ in range(k)]], rng=rng)
            try:
                data = ("\ufeff" + text).encode("utf-8")
            except UnicodeEncodeError:
                continue
            cases.append(Case("fromstr " + hexs(data), tags=("from_str-with-bom",)))
        # lines holding bytes that are not valid UTF-8 (a legacy ANSI file) AND trailing white space / CR: the trim applies to them as to every
        # other line (seed C05-s: the replacement path returned the line untrimmed)
        bad = [b"\xff", b"\xe9", b"Caf\xe9 del Mar", b"\xe2\x82", b"\xf0\x9f"]
        for _ in range(120 if tier == "quick" else 4000):
            ls = [b"osu file format v12" if rng.random() < 0.5 else b"", b"[Metadata]"]
            for _ in range(rng.randint(1, 5)):
                key = rng.choice([b"Title:", b"Tags:a b ", b"Source:", b"Artist:x", b"// c ", b""])
                ls.append(key + (rng.choice(bad) if rng.random() < 0.7 else b"plain") + rng.choice([b"", b" ", b"  ", b"\t", b" \r", b"\r", b"\xc2\xa0", b"\xe3\x80\x80 "]))
            if rng.random() < 0.3:
                ls.insert(rng.randrange(1, len(ls)), b"[General]" + rng.choice([b" ", b"\xff", b" \xff "]))
            cases.append(Case("frame " + hexs(b"\n".join(ls) + b"\n"), tags=("invalid-utf8-with-trailing-space",)))
        # a second U+FEFF after the real BOM, in every encoding and through from_str: only the leading one is a BOM; the version line that
        # follows a stray one does not carry the version prefix (latest version, and the line opens no section)
        for enc in ("utf8", "utf8bom", "utf16le", "utf16be"):
            for body in ("\ufeffosu file format v4\n[Metadata]\nTitle:t\n", "\n\ufeff\nosu file format v4\n[Metadata]\nTitle:t\n", "\ufeff\ufeffosu file format v6\n[General]\nMode: 1\n",
                         "\ufeff\n[Metadata]\nTitle:t\n", "osu file format v7\n\ufeff[Metadata]\nTitle:t\n[Metadata]\nArtist:a\n"):
                cases.append(Case("frame " + hexs(encodings(body)[enc]), tags=("stray-feff", enc)))
                if enc == "utf8":
                    cases.append(Case("fromstr " + hexs(body.encode()), tags=("stray-feff-from_str",)))
                    cases.append(Case("fromstr " + hexs(("\ufeff" + body).encode()), tags=("stray-feff-from_str",)))
        for f in bundled_files():
            data = open(f, "rb").read()
            cases.append(Case("frame " + hexs(data), tags=("bundled",)))
            if tier != "quick" or rng.random() < 0.3:
                text = data.decode("utf-8", "replace")
                for enc, d in encodings(text).items():
                    cases.append(Case("frame " + hexs(d), prop=False, tags=("bundled-" + enc,)))
        return cases

    def is_nontrivial(self, case, impl_out):
        return impl_out.startswith("ok") and " n=0" not in impl_out


PROP = C05()
