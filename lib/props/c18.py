import itertools

from .. import core, curvegen as g
from ..runner import Case, Property


class C18(Property):
    id = "C18"
    lean_module = "RosuModel.Props.C18"
    namespace = "Rosu.C18"
    design_ref = "5.18"
    level_text = (
        "Lean 4 theorems over the model with CurveBuffers threaded explicitly INCLUDING stale contents and SliderPath as a state machine, "
        "for every arithmetic instance, at the FULL strength of the property: compute_ignores_buffers (for every mode, control-point list - "
        "empty or not, every segment kind incl. Bezier / B-spline / perfect curves with arc or Bezier fallback -, requested length and fuel, "
        "the curve or panic / fuel outcome of Curve::new is independent of what well-formed buffers held before; rests on bezierPure in "
        "Lemmas/BezierPure.lean: bezier_subdivide / bezier_approximate / approximate_bspline, run in lock step on two arbitrary scratch "
        "contents, agree - every cell of left/right/midpoints/left_child and of the recycled free_bufs right-child that is read was written "
        "earlier in the same call - and no index read can panic); compute_eq_fresh; new_preserves_wf (well-formedness is an invariant of every "
        "history from CurveBuffers::default()); compute_empty (the repaired F7 branch); borrowed_eq_owned; owned_takes_borrowed_leaves; "
        "cache_invariant (every SliderPath operation preserves 'cache empty or holds a curve Curve::new produces for the current fields', "
        "every accessor returns such a curve) and access_reflects_current (induction over arbitrary operation histories). Model tied to the "
        "code bit-for-bit on operation sequences over shared buffers; an oracle compares every result with a computation on fresh buffers.")
    technique = "Lean 4 proof (lock-step relational induction over the segment loop; induction over operation histories) + differential correspondence on op sequences"
    required_theorems = ["borrowed_eq_owned", "owned_takes_borrowed_leaves", "compute_ignores_buffers", "compute_eq_fresh",
                         "compute_ignores_buffers_statement_holds", "compute_empty", "new_preserves_wf",
                         "compute_ignores_buffers_core", "compute_ignores_buffers_partial", "staleBufs_from_borrowed",
                         "cache_invariant", "access_reflects_current", "curveWithBufs_spec"]
    partial_theorems = {
        "cache_invariant": "says the cached curve is one Curve::new produces for the current fields on SOME buffers; that the buffers are irrelevant is compute_ignores_buffers (well-formed buffers)",
    }
    trusted_base = [
        "Lean 4.33.0 kernel",
        "axioms: at most propext, Classical.choice, Quot.sound (audited per theorem with #print axioms)",
        "hand-written model Model/Curve.lean (buffers with stale contents, mem::take vs borrow, SliderPath cache) tied to /repo by the differential run of this check",
        "harness/src/curve.rs curveseq interpreter and harness/src/curveprop.rs oracle (every result vs a computation on fresh buffers)",
    ]
    assumptions = [
        "theorems are about the Lean model; model = code is checked on the generated operation sequences of this run (bit-for-bit)",
        "well-formed buffers (the four Bezier scratch vectors have equal lengths) - true of CurveBuffers::default() and of every buffer the public API can produce",
    ]
    nontrivial_rule = ("operation sequences {owned, borrowed, path.curve(), curve_with_bufs, borrowed_curve, set points, set length, clear, clone_from a fresh / a cached path} over pools of "
                       "control-point lists incl. empty, single-point, multi-segment, Bezier of different degrees, sharing one buffer set (the former F7 shapes - empty list after a borrowed computation - are part of the exhaustive alphabet and must pass); exhaustive up to length 3 "
                       "over a 17-op alphabet, random up to length 30; non-trivial = at least two computations")

    def gen(self, rng, tier):
        cases = []
        A = [(0.0, 0.0, "B"), (30.0, 40.0, None), (80.0, -10.0, None), (100.0, 50.0, "L"), (120.0, 50.0, None)]
        B = [(5.0, 5.0, "C"), (5.0, 5.0, None), (60.0, 20.0, None), (20.0, 70.0, None)]
        pool = [A, B, []]

        def pool_str(pool):
            return " | ".join(" ".join(g.pt(x, y, t) for x, y, t in p) for p in pool)

        L = g.bits64(57.5)
        alpha = ["o0:-", "o1:" + L, "o2:-", "b0:" + L, "b1:-", "b2:-", "c", "w", "r", "m0", "m1", "m2", "l-", "l" + L, "x", "k1:" + L, "K0:-"]
        kmax = 3 if tier == "quick" else 4
        for k in range(1, kmax + 1):
            for combo in itertools.product(alpha, repeat=k):
                cases.append(Case(f"curveseq 0 {pool_str(pool)} # " + " ".join(combo), tags=(f"exhaustive-len{k}",)))
        n = 2500 if tier == "quick" else 40000
        for _ in range(n):
            m = rng.choice(g.MODES)
            pl = []
            for _ in range(rng.randint(2, 4)):
                r = rng.random()
                if r < 0.2:
                    pl.append([])
                elif r < 0.3:
                    pl.append([(g.coord(rng), g.coord(rng), rng.choice(g.TYPES + [None]))])
                elif r < 0.6:
                    deg = rng.randint(2, 9)
                    pl.append([(g.f32(rng.uniform(-200, 600)), g.f32(rng.uniform(-200, 600)), "B" if i == 0 else None) for i in range(deg)])
                else:
                    pl.append(g.rand_points(rng, 8))
            ops = []
            for _ in range(rng.choice([4, 8, 12, 20, 30])):
                r = rng.random()
                i = rng.randrange(len(pl))
                # requested lengths the decoder never produces but the API accepts: negative, -0.0, subnormal, infinite, NaN (seed C18-n:
                # an owned curve that caches its total distance reports the requested negative length, a borrowed one 0)
                Lt = rng.choice(["-", g.bits64(rng.uniform(1.0, 400.0)), g.bits64(1e-3), g.bits64(0.0), g.bits64(rng.uniform(1.0, 400.0)),
                                 g.bits64(-1.0), g.bits64(-120.0), g.bits64(-0.0), g.bits64(5e-324), g.bits64(float("inf")), g.bits64(float("nan")), g.bits64(-1e-300)])
                if r < 0.2:
                    ops.append(f"o{i}:{Lt}")
                elif r < 0.45:
                    ops.append(f"b{i}:{Lt}")
                elif r < 0.75:
                    ops.append(rng.choice("cwr"))
                elif r < 0.87:
                    ops.append(f"m{i}")
                elif r < 0.93:
                    ops.append("l" + Lt)
                elif r < 0.97:
                    ops.append(f"{rng.choice('kK')}{i}:{Lt}")
                else:
                    ops.append("x")
            cases.append(Case(f"curveseq {m} {pool_str(pl)} # " + " ".join(ops), tags=("random",)))
        # long Bezier segments (more than 100 control points: longer than what an osu!-mode Catmull segment leaves in the shared
        # scratch vectors) around short segments of every kind on ONE buffer set: a segment kind that leaves one scratch vector
        # shorter or longer than the others breaks the next long Bezier only (seed C18-j)
        def bez(n):
            return [(g.f32(rng.uniform(-200, 600)), g.f32(rng.uniform(-200, 600)), "B" if i == 0 else None) for i in range(n)]
        for _ in range(40 if tier == "quick" else 800):
            m = rng.choice([0, 0, 0, 1, 2, 3])
            n1 = rng.choice([101, 120, 150, 201, 260])
            n2 = rng.randint(max(3, n1 - 60), n1)
            k = rng.choice([2, 2, 3, 4])
            small = [(g.coord(rng), g.coord(rng), t if i == 0 else None) for i, t in enumerate([rng.choice(["C", "C", "C", "P", "L", "B"])] + [None] * (k - 1))]
            pl = [bez(n1), small, bez(n2)]
            order = rng.choice([["0", "1", "2"], ["0", "1", "2"], ["2", "1", "0"], ["1", "0", "1", "2"], ["0", "1", "1", "2", "0"]])
            api = rng.choice(["o", "b", "ob"])
            ops = [f"{rng.choice(api)}{i}:-" for i in order]
            cases.append(Case(f"curveseq {m} {pool_str(pl)} # " + " ".join(ops), tags=("long-bezier-around-short-segments",)))
        # decoded maps: the curve a decoded slider hands out (cached by the finaliser) against Curve::new on its own fields, for
        # the Beatmap and the HitObjects decoder, and again after the map's mode was changed and the map encoded. Consecutive
        # sliders of one shape with different (or no) lengths, Catmull sliders in every mode (seeds C18-k, C18-l)
        from ..gen import hexs
        for _ in range(150 if tier == "quick" else 5000):
            mode = rng.choice([0, 0, 1, 2, 3])
            ls = ["osu file format v14", "", "[General]", f"Mode: {mode}", "", "[Difficulty]", "SliderMultiplier:1.4", "", "[TimingPoints]", "0,400,4,1,0,100,1,0", "", "[HitObjects]"]
            t = 1000
            shapes = ["B|200:100|200:200", "C|150:120|200:100|250:150", "L|200:100", "P|150:150|200:100", "B|120:80|B|160:160|200:100", "C|96:160|160:32|224:160|288:64"]
            for _ in range(rng.randint(1, 6)):
                sh = rng.choice(shapes)
                x, y = rng.choice([(100, 100), (100, 100), (300, 150), (rng.randint(0, 400), rng.randint(0, 300))])
                for _ in range(rng.choice([1, 2, 2, 3])):     # the same shape again with another length
                    L = rng.choice(["180", "60", "0", "", "250.5", "1"])
                    ls.append(f"{x},{y},{t},2,0,{sh},{rng.choice([1, 1, 2])}" + (f",{L}" if L else ""))
                    t += rng.choice([0, 500, 2000])
                if rng.random() < 0.3:
                    ls.append(f"256,192,{t},1,0,0:0:0:0:")
            cases.append(Case("deccurves " + hexs(chr(10).join(ls).encode()), corr=False, tags=("decoded-maps",)))
        return cases

    def is_nontrivial(self, case, impl_out):
        return impl_out.count("p=") >= 2


PROP = C18()
