import itertools

from .. import core, curvegen as g
from ..runner import Case, Property


def simulate_f7(line, k):
    """is op k a computation on an EMPTY control-point list while the shared buffers hold a previous (non-empty) path?
    Tracks, independently of the implementation's output: the buffer's path (kept by borrowed computations, taken by owned
    ones, left alone by an empty list), the SliderPath's cache and current control points."""
    toks = line.split()
    rest = toks[2:]
    h = rest.index("#")
    pool, cur = [], []
    for t in rest[:h]:
        if t == "|":
            pool.append(cur)
            cur = []
        else:
            cur.append(t)
    pool.append(cur)
    ops = rest[h + 1:]
    stale = False          # buffers hold a non-empty path
    cached = False
    pts = pool[0] if pool else []
    for i, op in enumerate(ops):
        kind, arg = op[0], op[1:]
        empty = None
        if kind in "ob":
            idx = int(arg.split(":")[0])
            p = pool[idx] if idx < len(pool) else []
            empty = not p
            if i == k:
                return empty and stale
            if not empty:
                stale = kind == "b"
            elif kind == "o":
                stale = False      # the stale path is moved out into the returned curve
        elif kind == "c":
            if i == k:
                return False       # fresh buffers
            cached = True
        elif kind == "w":
            if i == k:
                return (not cached) and (not pts) and stale
            if not cached:
                stale = False
                cached = True
        elif kind == "r":
            if i == k:
                return (not cached) and (not pts) and stale
            if not cached and pts:
                stale = True
        elif kind == "m":
            pts = pool[int(arg)] if int(arg) < len(pool) else []
            cached = False
        elif kind in "lx":
            cached = False
    return False


class C18(Property):
    id = "C18"
    lean_module = "RosuModel.Props.C18"
    namespace = "Rosu.C18"
    design_ref = "5.18"
    level_text = (
        "Lean 4 theorems over the model with CurveBuffers threaded explicitly INCLUDING stale contents and SliderPath as a state machine, "
        "for every arithmetic instance: borrowed_eq_owned; owned_takes_borrowed_leaves; compute_ignores_buffers_partial (UNCONDITIONAL: for "
        "NON-EMPTY control points whose typed points are all linear or Catmull, and well-formed buffers, the observable curve / panic / fuel "
        "outcome is independent of the buffer contents); compute_ignores_buffers_modulo_bezier (the same for ALL segment kinds - Bezier, "
        "B-spline, perfect curves incl. their Bezier fallback - GIVEN BezierPure = the same statement for approximate_bezier alone, an "
        "explicit hypothesis that is not proved); the full statement "
        "compute_ignores_buffers_statement is proved FALSE of the code (compute_ignores_buffers_statement_false, witness F7: "
        "BorrowedCurve::new(pts) then Curve::new(&[]) on the same buffers returns the stale path); cache_invariant (every SliderPath "
        "operation preserves 'cache empty or holds a curve Curve::new produces for the current fields', and every accessor returns such a "
        "curve) and access_reflects_current (induction over arbitrary operation histories). Model tied to the code bit-for-bit on "
        "operation sequences over shared buffers, F7 reproduced identically by model and code.")
    technique = "Lean 4 proof (lock-step relational induction over the segment loop; induction over operation histories) + differential correspondence on op sequences"
    required_theorems = ["borrowed_eq_owned", "owned_takes_borrowed_leaves", "compute_ignores_buffers_partial",
                         "compute_ignores_buffers_core", "compute_ignores_buffers_modulo_bezier",
                         "compute_ignores_buffers_statement_false", "f7_witness", "staleBufs_from_borrowed", "cache_invariant",
                         "access_reflects_current", "curveWithBufs_spec"]
    partial_theorems = {
        "compute_ignores_buffers_partial": "restricted to non-empty control points (the full statement is false: F7) whose typed points are linear or Catmull; perfect-curve and Bezier/B-spline segments are covered only by compute_ignores_buffers_modulo_bezier",
        "compute_ignores_buffers_modulo_bezier": "restricted to non-empty control points (the full statement is false: F7) and conditional on BezierPure (approximate_bezier does not depend on the contents of its four scratch vectors) - a named hypothesis, not proved in Lean; it is exercised by the correspondence and by the oracle (sequences of Bezier computations of different degrees on one buffer set vs fresh buffers)",
        "cache_invariant": "says the cached curve is one Curve::new produces for the current fields on SOME buffers; that the buffers are irrelevant is the theorem above (non-empty points only)",
    }
    trusted_base = [
        "Lean 4.33.0 kernel",
        "axioms: at most propext, Classical.choice, Quot.sound (audited per theorem with #print axioms)",
        "hand-written model Model/Curve.lean (buffers with stale contents, mem::take vs borrow, SliderPath cache) tied to /repo by the differential run of this check",
        "harness/src/curve.rs curveseq interpreter and harness/src/curveprop.rs oracle (every result vs a computation on fresh buffers)",
    ]
    assumptions = [
        "theorems are about the Lean model; model = code is checked on the generated operation sequences of this run (bit-for-bit)",
        "BezierPure is a hypothesis of compute_ignores_buffers_modulo_bezier, not a theorem",
        "well-formed buffers (the four Bezier scratch vectors have equal lengths) - true of CurveBuffers::default() and of every buffer the public API can produce",
    ]
    nontrivial_rule = ("operation sequences {owned, borrowed, path.curve(), curve_with_bufs, borrowed_curve, set points, set length, clear} over pools of "
                       "control-point lists incl. empty, single-point, multi-segment, Bezier of different degrees, sharing one buffer set; exhaustive up to length 3 "
                       "over a 15-op alphabet, random up to length 30; non-trivial = at least two computations")

    def gen(self, rng, tier):
        cases = []
        A = [(0.0, 0.0, "B"), (30.0, 40.0, None), (80.0, -10.0, None), (100.0, 50.0, "L"), (120.0, 50.0, None)]
        B = [(5.0, 5.0, "C"), (5.0, 5.0, None), (60.0, 20.0, None), (20.0, 70.0, None)]
        pool = [A, B, []]

        def pool_str(pool):
            return " | ".join(" ".join(g.pt(x, y, t) for x, y, t in p) for p in pool)

        L = g.bits64(57.5)
        alpha = ["o0:-", "o1:" + L, "o2:-", "b0:" + L, "b1:-", "b2:-", "c", "w", "r", "m0", "m1", "m2", "l-", "l" + L, "x"]
        kmax = 3 if tier == "quick" else 4
        for k in range(1, kmax + 1):
            for combo in itertools.product(alpha, repeat=k):
                cases.append(Case(f"curveseq 0 {pool_str(pool)} # " + " ".join(combo), tags=(f"exhaustive-len{k}",)))
        n = 2500 if tier == "quick" else 40000
        for _ in range(n):
            m = rng.choice(g.MODES)
            pl = []
            for _ in range(rng.randint(2, 4)):
                r = rng.random()
                if r < 0.2:
                    pl.append([])
                elif r < 0.3:
                    pl.append([(g.coord(rng), g.coord(rng), rng.choice(g.TYPES + [None]))])
                elif r < 0.6:
                    deg = rng.randint(2, 9)
                    pl.append([(g.f32(rng.uniform(-200, 600)), g.f32(rng.uniform(-200, 600)), "B" if i == 0 else None) for i in range(deg)])
                else:
                    pl.append(g.rand_points(rng, 8))
            ops = []
            for _ in range(rng.choice([4, 8, 12, 20, 30])):
                r = rng.random()
                i = rng.randrange(len(pl))
                Lt = rng.choice(["-", g.bits64(rng.uniform(1.0, 400.0)), g.bits64(1e-3), g.bits64(0.0)])
                if r < 0.2:
                    ops.append(f"o{i}:{Lt}")
                elif r < 0.45:
                    ops.append(f"b{i}:{Lt}")
                elif r < 0.75:
                    ops.append(rng.choice("cwr"))
                elif r < 0.87:
                    ops.append(f"m{i}")
                elif r < 0.95:
                    ops.append("l" + Lt)
                else:
                    ops.append("x")
            cases.append(Case(f"curveseq {m} {pool_str(pl)} # " + " ".join(ops), tags=("random",)))
        return cases

    def is_nontrivial(self, case, impl_out):
        return impl_out.count("p=") >= 2

    def known(self, case, out, findings):
        if out.startswith("FAIL op=") and "empty-points=true" in out:
            k = int(out.split()[1][3:])
            if simulate_f7(case.line, k):
                for f in findings:
                    if f.get("predicate") == "empty_points_on_stale_buffers":
                        return f["id"]
        return None


PROP = C18()
