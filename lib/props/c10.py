from ..gen import bundled_files, encodings, hexs
from ..readergen import SAFE_LINES, STRAY_LINES, gen_text, has_stray_lf
from ..runner import Case, Property

SPECIAL_SCALARS = [0x0, 0x9, 0xB, 0xC, 0xD, 0x1F, 0x20, 0x2F, 0x3A, 0x5B, 0x5D, 0x7F, 0x80, 0x85, 0xA0, 0xFF, 0x100, 0x10A, 0x20A, 0x7FF,
                   0x800, 0xA00, 0xA0A, 0xAFF, 0xB0A, 0x1680, 0x2000, 0x200A, 0x2028, 0x2029, 0x202F, 0x205F, 0x3000, 0x4E0A, 0xD7FF,
                   0xE000, 0xFEFF, 0xFFFD, 0xFFFE, 0xFFFF, 0x10000, 0x1000A, 0x1040A, 0x1F600, 0x2000A, 0xFFFFF, 0x10FC0A, 0x10FFFF]

INVALID_SNIPPETS = [b"\x80", b"\xbf", b"\xc0\x80", b"\xc1\xbf", b"\xc2", b"\xe0\x80\x80", b"\xe0\xa0", b"\xe2\x82", b"\xed\xa0\x80",
                    b"\xed\xbf\xbf", b"\xf0\x80\x80\x80", b"\xf0\x9f\x98", b"\xf0\x9f", b"\xf4\x90\x80\x80", b"\xf5", b"\xf8\x88\x80\x80\x80",
                    b"\xfe", b"\xff", b"\xd1", b"\xe2\x28\xa1", b"\xf0\x28\x8c\xbc", b"\xc3\x28", b"\xa0\xa1", b"\xef\xbf", b"\xef\xbb"]


def scalar_text(cp, rng):
    ch = chr(cp)
    form = rng.choice([0, 1, 2])
    if form == 0:
        return "[Metadata]\nTitle:" + ch + "\nArtist: x\n"
    if form == 1:
        return "osu file format v14\n\n[Metadata]\nTitle: a" + ch + "b\nTags: t"
    return "[General]\n" + ch + "k: v\n[Metadata]\nTitle: " + ch + ch + "\n"


def is_scalar(cp):
    return not (0xD800 <= cp <= 0xDFFF)


class C10(Property):
    id = "C10"
    lean_module = "RosuModel.Props.C10Lossy"   # imports Props/C10.lean; both files are in namespace Rosu.C10
    namespace = "Rosu.C10"
    design_ref = "5.10"
    level_text = (
        "Lean 4 theorems over the model of src/reader/{decoder,encoding,u16_iter}.rs (as repaired: read_line ends a UTF-16 line only at a "
        "U+000A code unit), for every text (unbounded) and every DecodeBeatmap implementation: a UTF-8 BOM is transparent for every file that "
        "does not itself start with a BOM (utf8_bom_transparent); the reader yields exactly the text's lines from UTF-8 (utf8_lines) AND from "
        "UTF-16LE / UTF-16BE (utf16_lines) for EVERY text, whatever bytes its code units contain, hence the same text decodes identically in "
        "the four encodings at FULL strength (utf16_lines_transparent; from_bytes with BOMs: utf16_transparent, for every text not starting "
        "with U+FEFF, which in UTF-8 is the BOM itself: fromBom_utf8Encode); the inputs that were cut at a stray 0x0A byte or failed before the "
        "repair (U+010A, U+0A0A, U+4E0A, U+1040A, 41 0A 0A 00, FF FE 0A: former findings F5 3a3fd38, F6 a74dea1) are kept as examples that now "
        "agree; what follows a line feed is read independently of the bytes before it (lossy_line_local, lossy_first_line); valid UTF-8 and "
        "valid UTF-16 decode to themselves for every Unicode scalar value (utf8_valid_roundtrip, utf16_valid_roundtrip), invalid lead bytes "
        "and unpaired surrogates become exactly one U+FFFD (invalid_lead_replaced, surrogate_replaced), the odd tail byte is dropped "
        "(odd_tail_dropped). The lossy UTF-8 decoder is proved equal, for every byte string, to a separately stated specification "
        "(Props/C10Lossy.lean, Lemmas/LossySpec.lean, Lemmas/LossyRel.lean): utf8Lossy_eq_spec against a table-driven function (match the input against "
        "the nine rows of Unicode Table 3-7; a completely matched row yields its scalar value, otherwise the longest prefix fitting some row — at least "
        "one byte — yields one U+FFFD), and utf8Lossy_iff_decodes against an inductive relation worded after the standard's 'U+FFFD substitution of "
        "maximal subparts' (the relation is functional and the decoder computes it); Table 3-7 only admits scalar values (wellFormed_scalar_valid); "
        "decoding is compositional at every ASCII byte, in particular at line feeds (utf8Lossy_append_ascii, utf8Lossy_append_lf, utf8Lossy_unlines). "
        "That std's String::from_utf8_lossy implements this policy is its documented behaviour and is exercised by the correspondence, not proved. Model tied to the code on every run by decoding the same text in four encodings with a recording DecodeBeatmap "
        "type, invalid-UTF-8 and surrogate injections, odd tails; the property itself is evaluated on the implementation against "
        "String::from_utf8_lossy / char::decode_utf16 applied per line and an independent framing transcription.")
    technique = "Lean 4 proof (encoders vs decoders, structural line splitting) + differential correspondence over encodings and injections"
    required_theorems = [
        "utf8_bom_transparent", "utf8_lines", "utf16_lines", "utf16_lines_transparent", "utf16_transparent_of_noBom", "utf16_transparent",
        "fromBom_utf8Encode", "lossy_line_local", "lossy_first_line",
        "utf8_valid_roundtrip", "utf16_valid_roundtrip", "ascii_passthrough", "invalid_lead_replaced", "lossy_examples",
        "surrogate_replaced", "surrogate_replaced_low", "surrogate_replaced_high", "surrogate_pair_decoded", "odd_tail_dropped",
        # Props/C10Lossy.lean: the lossy UTF-8 decoder against a separately stated specification
        "utf8Lossy_eq_spec", "utf8Lossy_iff_decodes", "lossySpec_step", "wellFormed_iff_row", "maximal_subpart_spec",
        "wellFormed_scalar_valid", "utf8Lossy_valid", "lossySpec_valid", "utf8Lossy_append_ascii", "utf8Lossy_append_lf",
        "utf8Lossy_unlines", "lossy_examples_spec",
    ]
    partial_theorems = {}
    trusted_base = [
        "Lean 4.33.0 kernel",
        "axioms: at most propext, Classical.choice, Quot.sound (audited per theorem with #print axioms)",
        "hand-written model Model/{Text,Utf,Reader,Framing}.lean tied to /repo by the differential run of this check",
        "Lean core's String.utf8EncodeChar as the definition of UTF-8 encoding; Model/Utf.encodeUtf16 as the definition of UTF-16 encoding "
        "(compared with Rust's str::encode_utf16 through the enc4 request on every run)",
        "std: str::from_utf8 (valid_up_to/error_len), char::decode_utf16, str::trim_end modelled per documentation",
    ]
    assumptions = [
        "theorems are about the Lean model; the model is compared with the implementation only on the generated inputs of this run",
        "texts starting with U+FEFF are excluded (in UTF-8 that character is the BOM)",
        "an odd trailing byte of a UTF-16 file denotes nothing (the oracle drops it, as the code does)",
        "every Unicode scalar value as one-character content only in the thorough tier; the quick tier samples",
    ]
    nontrivial_rule = ("generated and bundled texts in four encodings, scalar values as metadata content, invalid UTF-8 injections, surrogate "
                       "injections, odd UTF-16 tails; non-trivial = at least one line reached a section parser")

    def gen(self, rng, tier):
        quick = tier == "quick"
        cases = []

        def enc4(text, *tags):
            if text.startswith("﻿"):
                return
            cases.append(Case("enc4 " + hexs(text.encode("utf-8")), tags=tags + (("strayLF",) if has_stray_lf(text) else ())))

        def reftext(data, *tags):
            cases.append(Case("reftext " + hexs(data), tags=tags))

        # hand-picked corners first
        for t in ["", "\n", "a", "ab", "abc", "[General]\naĊb", "[General]\nਊ", "[General]\nx　", "[General]\na b\n", "[General]\nA上",
                  "[General]\nA: 𐐊\n", "[General]\nA: 😀", "[General]\r\nA: é\r\n", "[Metadata]\nTitle:\n"]:
            enc4(t, "corner")
        for d in [b"\xff\xfe\n", b"\xff\xfe", b"\xfe\xff", b"\xff\xfe\n\x00", b"\xfe\xff\x00\n", b"\xff\xfe[\x00G\x00e\x00n\x00e\x00r\x00a\x00l\x00]\x00\n",
                  b"\xff\xfe[\x00G\x00e\x00n\x00e\x00r\x00a\x00l\x00]\x00\n\x00A\x00\n", b"\xfe\xff\x00[\x00]\x00\n\x00",
                  b"\xef\xbb\xbf\xef\xbb\xbf[General]\nA", b"\xef\xbb\xbf", b"\xef\xbb"]:
            reftext(d, "corner-bytes")

        # pins of the repaired read_line (former F5/F6): 0x0A bytes inside other code units, at even and odd indices
        for d in [b"\xff\xfe\x41\x0a\x0a\x00", b"\xff\xfe[\x00G\x00]\x00\n\x00\x41\x0a\x0a\x00B\x00", b"\xfe\xff\x0a\x41\x00\x0a",
                  b"\xfe\xff\x00[\x00G\x00]\x00\n\x0a\x41\x00\x0a\x00B", b"\xff\xfe\x0a\x0a\x0a\x00", b"\xfe\xff\x0a\x0a\x00\x0a",
                  b"\xff\xfe\x0a\x01\x0a\x00", b"\xfe\xff\x01\x0a\x00\x0a", b"\xff\xfe\x0a", b"\xff\xfe\x41\x00\x0a", b"\xff\xfe\x0a\x41",
                  b"\xff\xfe\x41\x0a", b"\xfe\xff\x00\x0a\x0a", b"\xfe\xff\x0a", b"\xfe\xff\x0a\x00\x0a", b"\xff\xfe\x00\x0a\x00\x0a\x00"]:
            reftext(d, "pin-read_line")
        for t in ["[General]\nਊ: ਊ\nB: c", "[General]\nA: ੁ\n", "[General]\n上上\n上", "[Metadata]\nTitle:𐐊𐐊\nArtist:Ċ", "ਊ\n[General]\nਊ"]:
            enc4(t, "pin-read_line")

        # a character outside the BMP at every column of a long line, around every multiple of 64 code units up to 600: a reader that
        # converts a UTF-16 line in fixed-size blocks splits a surrogate pair at a block boundary (seed C10-s: 128-unit blocks)
        cols = [c for m in range(64, 601, 64) for c in range(m - 3, m + 2)]
        for k in (cols if quick else range(1, 700)):
            for ch in ("\U0001F3B5", "\U00010400"):
                pad = k - len("TitleUnicode:")
                if pad < 0:
                    continue
                enc4("[Metadata]\nTitleUnicode:" + "a" * pad + ch + " end\nArtist:é" + "b" * (k % 7) + ch + ch + "\n", "astral-at-column")
        # text whose first character is U+0000 (then the UTF-16LE bytes begin FF FE 00 00, the UTF-32LE byte-order mark: seed C10-t), NUL elsewhere
        for t in ["\0\n[General]\nAudioFilename: a.mp3\n\n[Metadata]\nTitle:abc\n", "\0[Metadata]\nTitle:abc\n", "\0\0\n[Metadata]\nTitle:a\0b\n", "\n\0\n[Metadata]\nTitle:abc\n",
                  "[Metadata]\nTitle:\0\nArtist:x\0\n"]:
            enc4(t, "leading-nul")
        # the same text in four encodings
        for _ in range(1200 if quick else 30000):
            text, stray = gen_text(rng)
            enc4(text, "generated")
        for f in bundled_files():
            data = open(f, "rb").read()
            if len(data) > 50000 and quick:
                continue
            text = data.decode("utf-8", "replace").lstrip("﻿")
            enc4(text, "bundled")
            reftext(data, "bundled-raw")

        # the four encodings delivered in pieces (BOM in its own chunk, BOM split, tiny first chunks): the result must
        # still be the one of from_bytes (oracle of `framesched`)
        from ..gen import encodings
        for _ in range(300 if quick else 8000):
            text, _ = gen_text(rng)
            if text.startswith("\ufeff"):
                continue
            for enc, data in encodings(text).items():
                if len(data) < 2:
                    continue
                k = rng.choice([1, 2, 2, 3, rng.randint(1, min(8, len(data)))])
                parts = [data[:k]]
                rest = data[k:]
                while rest:
                    j = rng.choice([1, 2, 3, 5, 64, len(rest)])
                    parts.append(rest[:j])
                    rest = rest[j:]
                cases.append(Case("framesched " + " ".join("c" + hexs(p) for p in parts if p), tags=("chunked-" + enc,)))
                # the same pieces with transient `Interrupted` results in between (always in front of single bytes: the look-ahead
                # byte of an UTF-16LE line feed is fetched on its own): the text must still read the same in every encoding (seed C10-j)
                if rng.random() < 0.5:
                    toks = []
                    for q in parts:
                        if not q:
                            continue
                        if len(q) <= 2 or rng.random() < 0.3:
                            toks.append("i")
                        toks.append("c" + hexs(q))
                    cases.append(Case("framesched " + " ".join(toks), tags=("chunked-interrupted-" + enc,)))
                if len(data) <= 300 and rng.random() < 0.3:
                    cases.append(Case("framesched " + " ".join("i c%02x" % b for b in data), tags=("interrupted-bytewise-" + enc,)))

        # the same text in every encoding through the PATH entry point (a file on disk and a pipe path): from_path must detect
        # the byte-order mark exactly like from_bytes (seed C10-l: the file read as lossy UTF-8 first)
        for _ in range(40 if quick else 1500):
            text, _ = gen_text(rng)
            if text.startswith("\ufeff"):
                continue
            for enc, data in encodings(text).items():
                cases.append(Case("frompath " + hexs(data), tags=("from_path-" + enc,)))

        # scalar values as single-character content
        if quick:
            cps = list(SPECIAL_SCALARS) + list(range(0x0, 0x100)) + list(range(0x9F0, 0xA10))
            cps += [rng.randrange(0x110000) for _ in range(1500)]
            cps += [rng.randrange(0x10000) for _ in range(800)]
        else:
            cps = range(0x110000)
        for cp in cps:
            if is_scalar(cp):
                enc4(scalar_text(cp, rng), "scalar")

        # invalid UTF-8 injections
        for _ in range(2500 if quick else 60000):
            text, _ = gen_text(rng, stray=False)
            data = bytearray(text.encode("utf-8"))
            for _ in range(rng.choice([1, 1, 2, 4])):
                pos = rng.randrange(len(data) + 1)
                r = rng.random()
                if r < 0.6:
                    snip = rng.choice(INVALID_SNIPPETS)
                elif r < 0.8:
                    snip = bytes(rng.randrange(0x80, 0x100) for _ in range(rng.choice([1, 2, 3])))
                else:  # a valid multi-byte character cut short
                    full = rng.choice(["é", "日", "😀", "　"]).encode()
                    snip = full[:rng.randrange(1, len(full))]
                data[pos:pos] = snip
            if rng.random() < 0.2:
                data = bytearray(b"\xef\xbb\xbf") + data
            reftext(bytes(data), "invalid-utf8")

        # surrogate injections and odd tails in UTF-16
        for _ in range(2500 if quick else 60000):
            text, _ = gen_text(rng, stray=rng.random() < 0.05)
            le = rng.random() < 0.5
            units = []
            b = text.encode("utf-16-be")
            units = [b[i] << 8 | b[i + 1] for i in range(0, len(b), 2)]
            tag = "surrogates"
            for _ in range(rng.choice([0, 1, 1, 2, 3])):
                pos = rng.randrange(len(units) + 1)
                kind = rng.choice(["high", "low", "lowhigh", "highhigh", "pair"])
                hi = rng.choice([0xD800, 0xD83D, 0xDBFF, 0xD801])
                lo = rng.choice([0xDC00, 0xDE00, 0xDFFF, 0xDC01])
                ins = {"high": [hi], "low": [lo], "lowhigh": [lo, hi], "highhigh": [hi, hi], "pair": [hi, lo]}[kind]
                units[pos:pos] = ins
            body = b"".join(u.to_bytes(2, "little" if le else "big") for u in units)
            if rng.random() < 0.3:
                body += bytes([rng.choice([0x00, 0x0A, 0x41, 0xD8, 0xFF, rng.randrange(256)])])
                tag = "odd-tail"
            if rng.random() < 0.05 and le and body.endswith(b"\n\x00"):
                body = body[:-1]
                tag = "le-cut-after-lf"
            reftext((b"\xff\xfe" if le else b"\xfe\xff") + body, tag, "utf16le" if le else "utf16be")
        return cases

    def is_nontrivial(self, case, impl_out):
        return "ok v=" in impl_out and " n=0" not in impl_out.split(" | ")[0]

    def known(self, case, out, findings):
        # F5 (3a3fd38) and F6 (a74dea1) are fixed: a fixed entry suppresses nothing — if a failure returns it is a violation.
        return None


PROP = C10()
