from ..gen import encodings, hexs
from ..readergen import ENCODINGS, SMALL, chunk_fixed, chunk_random, gen_text, small_bundled, with_intr
from ..runner import Case, Property


class C08(Property):
    id = "C08"
    lean_module = "RosuModel.Props.C08"
    namespace = "Rosu.C08"
    design_ref = "5.8"
    level_text = (
        "Lean 4 theorems over the model of src/reader/decoder.rs + decode.rs (as repaired: read_bom collects the first three bytes over any "
        "chunking, read_line is a loop that ends a line only at a U+000A code unit), for every DecodeBeatmap implementation and every delivery "
        "schedule (unbounded): the result of decode is a function of the bytes delivered before the first fatal error and of that error "
        "(Lemmas/ReaderSpec.decodeSched_spec, no condition on chunk sizes), hence Interrupted results anywhere are transparent "
        "(interrupted_transparent, for read_bom, read_until, next_byte and the whole decode), splitting or merging chunks anywhere changes nothing "
        "(readAll_split, readAll_chunks, readAll_bytes, bom_any_chunking), and for fault-free schedules the outcome is a function of the bytes "
        "alone at FULL strength (decode_schedule_irrelevant; with faults: decode_prefix_determined; = from_bytes: decode_schedule_eq_from_bytes); "
        "from_bytes/from_str is the one-chunk schedule and a BufReader of ANY capacity >= 1 agrees with it (entry_points_agree). The schedules "
        "that separated deliveries before the repair (first chunk of 1-2 bytes, BufReader capacity 2: former finding F4, fixed in 5a3641c) are "
        "kept as examples that now agree. Model tied to the code on every run: a schedule-replaying BufRead, BufReader::with_capacity(1..16), "
        "from_str and from_path drive the real decoder with a recording DecodeBeatmap type and are compared with the model output; the "
        "property itself (equality with from_bytes) is evaluated on the implementation on the same cases.")
    technique = "Lean 4 proof (reader characterised by bytes-before-first-fault; induction over schedules) + differential correspondence over delivery schedules"
    required_theorems = [
        "interrupted_transparent", "readBom_interrupted", "readUntil_interrupted", "nextByte_interrupted", "readAll_interrupted",
        "insert_interrupted", "read_until_chunks", "readAll_split", "readAll_chunks", "readAll_bytes", "bom_any_chunking",
        "decode_prefix_determined", "decode_schedule_irrelevant", "decode_schedule_eq_from_bytes",
        "from_bytes_one_chunk", "entry_points_agree",
    ]
    partial_theorems = {}
    trusted_base = [
        "Lean 4.33.0 kernel",
        "axioms: at most propext, Classical.choice, Quot.sound (audited per theorem with #print axioms)",
        "hand-written model Model/{Utf,Reader,Framing}.lean tied to /repo by the differential run of this check",
        "std: BufRead::{fill_buf,consume,read_until}, Read::read_exact, BufReader (refill of min(capacity, remaining) bytes when drained), Cursor modelled per documentation",
        "the schedule-replaying BufRead and the recording DecodeBeatmap type in the harness",
    ]
    assumptions = [
        "theorems are about the Lean model; the model is compared with the implementation only on the generated schedules of this run",
        "from_path is modelled as BufReader (capacity 8192) over a file whose reads are not short; the file system itself is not modelled",
        "from_str is exercised on valid UTF-8 only (its argument type); it wraps the same Cursor as from_bytes",
    ]
    nontrivial_rule = ("bundled and generated files in four encodings under fixed chunk sizes 1..64, random variable schedules, random Interrupted "
                       "placement, BufReader capacities 1..16, from_str, from_path; non-trivial = at least one line reached a section parser")

    def gen(self, rng, tier):
        quick = tier == "quick"
        cases = []

        def sched(toks, tags):
            cases.append(Case("framesched " + " ".join(toks), tags=tags))

        def deliveries(data, tag, sizes, n_random, caps):
            for k in sizes:
                sched(chunk_fixed(data, k), (tag, "fixed-k<3" if k < 3 else "fixed-k>=3"))
                if k < 3 and len(data) > 3:
                    sched(chunk_fixed(data, k, first=3), (tag, "first3-then-k<3"))
            for _ in range(n_random):
                toks = chunk_random(data, rng, first_min=rng.choice([1, 3, 3]))
                t = "random-sched"
                if rng.random() < 0.5:
                    toks = with_intr(toks, rng)
                    t = "random-sched+intr"
                sched(toks, (tag, t))
            for c in caps:
                cases.append(Case(f"bufreader {c} {hexs(data)}", tags=(tag, "bufreader-cap<3" if c < 3 else "bufreader-cap>=3")))

        all_sizes = list(range(1, 65))
        all_caps = list(range(1, 17))
        n_path = 0
        for f, data in small_bundled():
            if len(data) <= SMALL:
                deliveries(data, "bundled-small", all_sizes, 2, all_caps)
                text = data.decode("utf-8", "replace")
                for enc, d in encodings(text).items():
                    if enc == "utf8":
                        continue
                    sizes = all_sizes if not quick else sorted(set([1, 2, 3] + rng.sample(all_sizes, 6)))
                    deliveries(d, "bundled-small-" + enc, sizes, 1, rng.sample(all_caps, 3 if quick else 16))
            else:
                sizes = sorted(set(rng.sample(all_sizes, 3 if quick else 24) + [3]))
                deliveries(data, "bundled-large", sizes, 1, rng.sample(all_caps, 2 if quick else 8))
                if not quick:
                    text = data.decode("utf-8", "replace")
                    enc = rng.choice(ENCODINGS[1:])
                    deliveries(encodings(text)[enc], "bundled-large-" + enc, rng.sample(all_sizes, 4), 1, [rng.choice(all_caps)])
            try:
                data.decode("utf-8")
                cases.append(Case("fromstr " + hexs(data), tags=("from_str",)))
            except UnicodeDecodeError:
                pass
            if len(data) <= SMALL or not quick:
                cases.append(Case("frompath " + hexs(data), tags=("from_path",)))
                n_path += 1

        n_text = 150 if quick else 2000
        for _ in range(n_text):
            text, stray = gen_text(rng)
            encs = encodings(text)
            for enc in ENCODINGS:
                d = encs[enc]
                sizes = all_sizes if not quick else sorted(set([1, 2, 3] + rng.sample(all_sizes, 9)))
                deliveries(d, "generated-" + enc + ("-strayLF" if stray and enc.startswith("utf16") else ""),
                           sizes, 2, all_caps if not quick else rng.sample(all_caps, 4))
            cases.append(Case("fromstr " + hexs(encs["utf8"]), tags=("from_str",)))
            if rng.random() < (0.3 if quick else 0.2):
                cases.append(Case("frompath " + hexs(encs[rng.choice(ENCODINGS)]), tags=("from_path",)))
        # sizes around the default BufReader capacity for from_path
        for n in (8190, 8191, 8192, 8193, 16384, 16385):
            body = ("[General]\n" + "A: b\n" * (n // 5 + 1)).encode()[:n]
            cases.append(Case("frompath " + hexs(body), tags=("from_path", "around-8192")))
        # pins of the repaired read_bom (former F4): short first chunks with and without BOM, BOM split across chunks,
        # a collected prefix that already contains a line feed
        body = b"[General]\nA: b\n[Metadata]\nTitle: t"
        le = b"\xff\xfe" + "[General]\nA: b\n".encode("utf-16-le")
        be = b"\xfe\xff" + "[General]\nA: b\n".encode("utf-16-be")
        for line in ["c5b c47656e6572616c5d0a41", "c5b47 c656e6572616c5d0a41", "cef cbbbf " + "c" + body.hex(), "cefbb cbf c5b c" + body[1:].hex(),
                     "cef cbb cbf c" + body.hex(), "cff cfe c" + le[2:].hex(), "cff cfe5b c00 c" + le[4:].hex(), "cfe cff c" + be[2:].hex(),
                     "c0a c5b c" + body[1:].hex(), "c41 c0a c" + body.hex(), "c0a0a c0a c" + body.hex(), "cef cbb c41 c0a c" + body.hex(),
                     "cff c41 c0a c" + body.hex(), "i cef i cbb i cbf i c" + body.hex(), "cef c- cbbbf c" + body.hex(), "cef cbb", "cff", "cff cfe",
                     "cfe cff c00", "c5b c47"]:
            cases.append(Case("framesched " + line, tags=("pin-read_bom",)))
        for cap in (1, 2):
            for d in (body, b"\xef\xbb\xbf" + body, le, be):
                cases.append(Case(f"bufreader {cap} {hexs(d)}", tags=("pin-read_bom", "bufreader-cap<3")))
        # content that begins like some other byte-order mark or with a second BOM: UTF-16 text whose first character is
        # U+0000 (FF FE 00 00 = the UTF-32LE mark), FE FF 00 00, the UTF-32BE mark, doubled / mixed marks, a NUL after the UTF-8 mark
        tail8 = b"osu file format v9\n\n[General]\nMode: 3\n[Metadata]\nTitle: t\n"
        tail_le = "osu file format v9\n\n[General]\nMode: 3\n[Metadata]\nTitle: t\n".encode("utf-16-le")
        tail_be = "osu file format v9\n\n[General]\nMode: 3\n[Metadata]\nTitle: t\n".encode("utf-16-be")
        for data in (b"\xff\xfe\x00\x00" + tail_le, b"\xff\xfe\x00\x00\x0a\x00" + tail_le, b"\xfe\xff\x00\x00" + tail_be, b"\x00\x00\xfe\xff" + tail_be,
                     b"\xff\xfe\xff\xfe" + tail_le, b"\xfe\xff\xfe\xff" + tail_be, b"\xff\xfe\xfe\xff" + tail_le,
                     b"\xef\xbb\xbf\xef\xbb\xbf" + tail8, b"\xef\xbb\xbf\xef\xbb\xbf\xef\xbb\xbf[HitObjects]\n256,192,2000,1,0\n", b"\xef\xbb\xbf\x00" + tail8,
                     b"\xef\xbb\xbf\xff\xfe" + tail8, b"\xef\xbb\xbf\n" + tail8, b"\xef\xbb\xbf\xef\xbb\xbf[HitObjects]\n256,192,2000,1,0\n100,100,3000,1,0\n"):
            deliveries(data, "bom-like-prefix", [1, 2, 3, 4, 5, 8, 64], 2, [1, 2, 3, 4, 16])
            cases.append(Case("frompath " + hexs(data), tags=("from_path", "bom-like-prefix")))
            try:
                data.decode("utf-8")
                cases.append(Case("fromstr " + hexs(data), tags=("from_str", "bom-like-prefix")))
            except UnicodeDecodeError:
                pass
        # unusual line ends and white space at line starts: LF CR (every line after the first begins with a CR), lone CR inside
        # lines, runs of blank lines in front of a header, NEL / form feed / vertical tab - a reader that looks at "the rest of the
        # current chunk" (skips leading line breaks, peeks for CR) gives another answer when the chunk ends there (seed C08-k).
        # Every cut position is tried (fixed sizes 1..64 and a first chunk of every length) in all encodings.
        weird = ["osu file format v9\n\r\n\r[General]\n\rMode: 1\n\r\n\r[Metadata]\n\rTitle: t\n\r",
                 "osu file format v9\r\n\r\n\r\r\n[General]\r\rMode: 2\n\n\n\r[Metadata]\nTitle:\ra\rb\n",
                 "\n\n\n\r\n\r\n\r[General]\n\rMode: 3\n\x0b[Metadata]\n\x0cTitle: t\n\u0085[Editor]\nGridSize: 4\n",
                 "osu file format v7\n \r\n\t\n\r \n[General]\nMode: 1\n"]
        for text in weird:
            for enc, d in encodings(text).items():
                deliveries(d, "weird-line-ends-" + enc, all_sizes if enc == "utf8" or not quick else [1, 2, 3, 4, 7, 16], 2, all_caps if enc == "utf8" else [1, 2, 3, 5])
                for cut in range(1, min(len(d), 80)):
                    sched(["c" + hexs(d[:cut]), "c" + hexs(d[cut:])], ("weird-line-ends-" + enc, "two-chunks-every-cut"))
                cases.append(Case("frompath " + hexs(d), tags=("from_path", "weird-line-ends")))
            # and pushed against the default BufReader boundary of from_path
            for pad in (8180, 8185, 8190, 8191, 8192):
                d = ("//" + "p" * (pad - 3) + "\n").encode() + text.encode()
                cases.append(Case("frompath " + hexs(d), tags=("from_path", "weird-line-ends", "around-8192")))
        # tiny streams: everything up to the BOM lengths
        for data in (b"", b"\n", b"a", b"ab", b"abc", b"\xef\xbb\xbf", b"\xff\xfe", b"\xfe\xff", b"\xef\xbb", b"\xff", b"\xff\xfe\n",
                     b"\xff\xfe\n\x00", b"\xfe\xff\x00\n", b"\xef\xbb\xbf[General]\nA"):
            deliveries(data, "tiny", [1, 2, 3, 4], 1, [1, 2, 3, 4])
            cases.append(Case("framesched c- i c- " + " ".join(chunk_fixed(data, 3)), tags=("tiny", "empty-chunks")))
        return cases

    def is_nontrivial(self, case, impl_out):
        return impl_out.startswith("ok") and " n=0" not in impl_out

    def known(self, case, out, findings):
        # F4 is fixed (5a3641c): a fixed entry suppresses nothing — if the failure returns it is a violation.
        return None


PROP = C08()
