import itertools

from .. import core, curvegen as g
from ..runner import Case, Property

F7_WHAT = "empty control-point list computed on buffers that hold a previous path"


class C16(Property):
    id = "C16"
    lean_module = "RosuModel.Props.C16Full"   # imports Props/C16Surplus.lean (→ Props/C16Exact.lean → Props/C16.lean) and Props/C16Ieee.lean; all in namespace Rosu.C16
    theorem_modules = ['RosuModel.Props.C16Surplus', 'RosuModel.Props.C16Ieee', 'RosuModel.Props.C16IeeeLen', 'RosuModel.Props.C16IeeeAdj', 'RosuModel.Props.C16IeeeAdjWitness', 'RosuModel.Props.C16IeeeBezierDiverge', 'RosuModel.Props.C16IeeeCut', 'RosuModel.Props.C16IeeeCut2', 'RosuModel.Props.C16LinearRef']   # files whose top-level theorems are all audited
    namespace = "Rosu.C16"
    design_ref = "5.16"
    level_text = (
        "Lean 4 theorems over the model of calculate_length / calculate_path (Model/Curve.lean), for EVERY arithmetic instance "
        "(no law used, so they hold of the IEEE f32/f64 code itself): calculateLength_some characterises all five outcomes of "
        "calculate_length and shows no index read can panic; dist_exact (the last cumulative length IS the requested L - syntactic "
        "equality - for >=2 path points, 0 < L, L not within f64::EPSILON of the calculated length, no equal-tail exception), "
        "cut_shape (adjusted path = first k+1 natural points ++ [p_k + dir*(L - len_k)], k = last index with length < L, lastValid_spec), "
        "dist_zero_when_nothing_below, dist_natural_when_near/none, natural_dist + natTotal_eq_fold (natural distance = fold of segment "
        "lengths), single_point_keeps, equal_tail_keeps_natural/equal_tail_dist, lengths_path_aligned, lengths_head_zero. "
        "IEEE part (Props/C16Ieee.lean, theorems about the driver's Float / Float32 through Lean 4.33's logical float model): le_add_float / le_add_float32 (round-to-nearest-even addition of a non-negative number never "
        "decreases, unless an operand or the sum is NaN), MonoLawsIeee, lengths_monotone_float / lengths_monotone_float_nonneg (cumulative lengths computed in IEEE f64 never decrease — exactly — when the segment lengths are >= 0). "
        "Exact-arithmetic part (laws are explicit hypothesis structures, each shown satisfiable by an instance, each refuted on the IEEE instances in Props/IeeeFalse.lean): lengths_monotone (MonoLaws, Int); "
        "catmull_simplify_preserves_length (SumLaws = + associative/commutative, a+0=a, (a-b)+b=a, distance symmetric; Int): the points the osu!-mode "
        "simplification keeps, measured with the updated optimized_len as seed, are exactly as long as the full Catmull sub-path measured with the old one, "
        "whatever the keep rule selects (telescoping, simplifyLoop_inv/simplifyLoop_fin); end_point_on_ray (RayLaws = * associative, recip(a)*s = s/a; Rat): "
        "the re-projected end point is p_k + (p_{k+1}-p_k)*t with t = (L-len_k)/|p_{k+1}-p_k| - this is cut_on_segment and extension_collinear in one formula; "
        "cut_param_range + natLens_step (OrdLaws; Int): 0 < L-len_k <= len_{k+1}-len_k, and len_{k+1}-len_k is the segment's own length for every segment "
        "but the first, whose booked length also carries optimized_len (that is finding F12). "
        "Props/C16Exact.lean states the exact-arithmetic part ONCE for every scalar satisfying the ordered-field law structure ExactArith (Lemmas/ExactArith.lean: the Scalar "
        "operations are those of a linearly ordered field through an embedding; satisfiable on Rat - exactArith_rat - and on the reals - exactArith_real) and about calculateLength itself: "
        "monoLaws_of_exact / sumLaws_of_exact / rayLaws_of_exact / ordLaws_of_exact (the four per-theorem law lists all follow from ExactArith, so lengths_monotone, "
        "catmull_simplify_preserves_length, end_point_on_ray, cut_param_range hold on one and the same instance); calculateLength_lengths_monotone (the lengths calculate_length RETURNS never "
        "decrease, all five outcomes, for optimized_len >= 0); calculateLength_end_on_ray (in the cut/extension outcome the returned path is the first k natural points followed by "
        "p_k + (p_{k+1}-p_k)*t, t = (L-len_k)/|p_{k+1}-p_k|, lengths = first k natural ones ++ [L], len_k < L); end_point_distance (+ SqrtLaws: that point is exactly L-len_k from p_k, squared "
        "form, unless the segment has zero length - F11). "
        "Props/C16Surplus.lean (+ SqrtLaws, satisfiable on the reals): distance_triangle (the model's own Pos::distance satisfies the triangle inequality: Cauchy-Schwarz in an ordered field), "
        "catmullSimplify_surplus_nonneg = surplus_nonneg (the osu!-mode simplification never decreases optimized_len: what it removes between two kept points is at least their straight "
        "distance; loop invariant SurpInv), calculatePath_optLen_nonneg (calculate_path hands calculate_length an optimized_len >= 0, every mode / control points / fuel / buffers) and "
        "new_lengths_monotone: the cumulative lengths of EVERY curve Curve::new builds never decrease. "
        "Model tied to the code bit-for-bit on every run; IEEE finiteness, monotonicity of what calculate_length returns after a cut / extension, and the float-level geometry are evaluated on the real code by an "
        "oracle written from the property text.")
    technique = "Lean 4 proof (case analysis of the mirrored control flow, generic arithmetic) + bit-exact differential correspondence"
    required_theorems = ["calculatePath_linear_eq_ref", "refLinearNaturalIdx_eq", "ref_eq_positions", "ref_single_segment", "ref_single_segment_nan", "ref_typed_last_no_extra",
                         "ref_length_le", "ref_length_le_false", "calculatePath_linear_positions", "calculatePath_typed_last_no_extra", "calculatePath_nan_joint_float32",
                         "cut_param_range_float", "cut_param_nonneg_float", "cut_end_point_near_segment_float", "sqrt_len_err",
                         "cut_end_point_err_float32", "cut_end_point_near_segment", "ext_end_point_err_float32", "ext_end_point_near_ray", "cutPoint_eq_reproject",
                         "bsplineLoop_diverges_float32", "curve_new_diverges_float32", "curve_new_never_ok_float32", "stuck_not_flat", "stuck_left_half", "stuck_beyond_decode_range",
                         "calculateLength_some", "calculateLength_total", "lengths_head_zero", "dist_exact", "cut_shape",
                         "lastValid_spec", "dist_zero_when_nothing_below", "dist_natural_when_near", "dist_natural_when_none",
                         "natural_dist", "natTotal_eq_fold", "single_point_keeps", "equal_tail_keeps_natural", "equal_tail_dist",
                         "lengths_path_aligned", "new_is_calculateLength", "new_lengths_head_zero", "lengths_monotone", "monoLaws_int",
                         "cutIdx_pos_of_pos", "lastValid_le", "lastValid_eq_zero_iff",
                         "catmull_simplify_preserves_length", "simplifyLoop_inv", "simplifyLoop_fin", "natTotal_snoc", "natTotal_shift",
                         "sumLaws_int", "end_point_on_ray", "rayLaws_rat", "cut_param_range", "natLens_step", "cumLens_step", "ordLaws_int",
                         # Props/C16Exact.lean
                         "monoLaws_of_exact", "sumLaws_of_exact", "rayLaws_of_exact", "ordLaws_of_exact", "mono_iff", "natLens_mono",
                         "calculateLength_lengths_monotone", "calculateLength_end_on_ray", "end_point_distance", "toy_cut_hyps",
                         # Props/C16Surplus.lean
                         "root_triangle", "distance_triangle", "simplifyStep_surplus", "simplifyLoop_surplus",
                         "catmullSimplify_surplus_nonneg", "calculateSubpath_optLen", "segBody_optLen", "segFold_optLen",
                         "calculatePath_optLen_nonneg", "new_lengths_monotone",
                         # Props/C16Ieee.lean: IEEE monotonicity of a + x (x >= 0) and lengths_monotone for the driver's Float / Float32
                         "le_add_float", "le_add_float32", "add_isNaN_float", "add_isNaN_float32", "add_nonneg_float", "add_nonneg_float32",
                         "le_add_float_nonneg", "le_add_float32_nonneg", "monoLawsIeee_float", "monoLawsIeee_float32", "monoLawsIeee_of_exact",
                         "cumLens_eq_runSums", "runSums_mono", "runSums_mono_nonneg", "lengths_monotone_ieee", "lengths_monotone_float",
                         "lengths_monotone_float_nonneg", "natLens_monotone_ieee", "natLens_monotone_float"]
    partial_theorems = {
        "calculatePath_linear_eq_ref": "Props/C16LinearRef.lean (sixth session, wave 10): THE HARNESS ORACLE'S REFERENCE IS THE MODEL. `refLinearNatural` is a transcription into Lean of the function "
            "`ref_linear_natural` that the Rust harness uses as its independent reference for the unadjusted path of all-linear control-point lists (segments joined, the joint once, a type on the last point "
            "opens no segment; refLinearNaturalIdx_eq: the index-based loop equals the structural recursion). calculatePath_linear_eq_ref: for AllLinear control points, any mode, fuel and scratch buffers, every "
            "Scalar, `calculatePath` returns exactly refLinearNatural points and optimized_len = 0 — full strength. Corollaries: ref_eq_positions / calculatePath_linear_positions (with no NaN joint the path is "
            "the list of all control-point positions), ref_typed_last_no_extra / calculatePath_typed_last_no_extra (a path type on the LAST control point adds no vertex: the seeded defect C16-o, unconditional). "
            "FOUND FALSE as first asked: |path| ≤ |points| fails for a typed joint with a NaN coordinate (NaN ≠ NaN, so the joint stays twice): ref_length_le_false, calculatePath_nan_joint_float32 (kernel, "
            "Float32: 3 vertices for 2 control points) — outside the property's quantifier (finite coordinates); ref_length_le carries the reflexivity hypothesis",
        "cut_end_point_err_float32 / ext_end_point_err_float32 / cut_end_point_near_segment / ext_end_point_near_ray (WHERE the new end point lies, in IEEE single precision)":
            "sixth session, Props/C16IeeeCut.lean over Lemmas/FloatErr32.lean (the error-bound layer instantiated at Float32: toRat32, add / sub / mul / div with |delta| <= 2^-24, Rnd32): the end point calculate_length "
            "computes is cutPoint = p_k + ((p_{k+1} - p_k) * (1/ell)) * t per coordinate - five f32 roundings - with ell the f32 segment length the code used (a parameter: sqrt is not covered by the error layer) and "
            "t = (L - len_k) as f32. For coordinates bounded by 2^19 (decoded paths are) and 0 <= t <= ell(1 + kappa): each coordinate is within 11 * 2^-24 * 2^19 + 2^-20 < 0.344 px of the point of the LINE at parameter t/ell "
            "(cut_end_point_err_float32) and within 1/2 px of a point of the SEGMENT (cut_end_point_near_segment); for an extension within 2^-5 + (5 * 2^-24 + 2^-44) * distance travelled of the ray point "
            "(ext_end_point_err_float32, ext_end_point_near_ray). Kernel-evaluated demo (100,200) -> (107,224), L = 10: the errors are exactly 1/327680 and 1/163840 and the computed point is NOT on the line. "
            "The parameter range is CLOSED in Props/C16IeeeCut2.lean over Lemmas/FloatErrCvt.lean (toRat_up: f32 -> f64 is exact; down_rnd: f64 -> f32 is one correct rounding; both on the model's own upBits / downBits via roundRat_rnd) "
            "and Lemmas/FloatErrSqrt.lean (sqrt_half_ulp_float, sqrt_sq_err_float: core's sqrt is within half an ulp, stated in squares over Q): cut_param_range_float (t <= ell(1 + 2^-23)), cut_param_nonneg_float, "
            "cut_end_point_near_segment_float (kappa and t >= 0 derived: no hypothesis about conversions left), sqrt_len_err (the f32 length Pos::length computes is within 2^-22 relative, in squares, of the exact one)",
        "totality of Curve::new on finite control points (the property's quantifier 'for every control-point list with finite coordinates')":
            "FALSE for IEEE single precision, kernel-checked (Props/C16IeeeBezierDiverge.lean, sixth session; finding F23): curve_new_never_ok_float32 - the three finite control points "
            "(8388609,0) (8388610,0) (8388610,0) typed Bezier (or perfect curve: collinear, falls back) admit NO fuel on which the model's Curve.new returns a curve, in any mode, for any requested length "
            "and any well-formed scratch buffers: the piece is not flat (stuck_not_flat: second difference 1 > 0.5) and is its own left half under de Casteljau subdivision in f32 (stuck_left_half, stuck_mid: "
            "the tie 16777219 rounds to even), so the loop turns forever (bsplineLoop_turns, bsplineLoop_diverges_float32; generic form StuckPiece.*); a second witness in two dimensions one binade "
            "lower (stuck2_isStuck, 4194304.5) and stuck_shape_flat_below (the same shape at 2^21 is flat). The real crate does not return on this input (replay `curve 0 - 4b000001:0:B 4b000002:0:- 4b000002:0:-`, "
            "corpus/C16/f23.case). stuck_beyond_decode_range: the witness lies beyond what a decoded file can produce (262144). All other theorems of this property are about the value Curve::new "
            "returns WHEN it returns (model outcome .ok); the fuel outcome is this finding",
        "lengths_monotone": "exact arithmetic: for every scalar satisfying ExactArith (instances Rat, reals; also the older MonoLaws on Int), both for the natural running sums (lengths_monotone) and for what calculate_length returns in all five outcomes (calculateLength_lengths_monotone, hypothesis optimized_len >= 0) and, with sqrt a square root (SqrtLaws; reals), for every curve Curve::new builds (new_lengths_monotone via surplus_nonneg = catmullSimplify_surplus_nonneg / calculatePath_optLen_nonneg). "
            "MonoLaws itself is FALSE of the driver's instances (le_add fails for a = NaN: Rosu.IeeeFalse.monoLaws_float_false, Props/IeeeFalse.lean, audited under C02), so those theorems are vacuous on IEEE. "
            "IEEE arithmetic (Props/C16Ieee.lean — in Lean 4.33 Float / Float32 are structures over the logical model Float.Model, so `+`, `<=`, isNaN reduce in the kernel; Lemmas/FloatModelValue.lean, FloatModelRound.lean "
            "(round_spec, round_ge / round_le: round-to-nearest-even specified), FloatModelAdd.lean (le_add_unpacked), generic in the format): le_add_float / le_add_float32 — a not NaN, 0 <= x, a + x not NaN ⇒ a <= a + x "
            "(overflow to +inf, subnormals, signed zeros, negative a included); add_isNaN_float(32) — the sum is NaN only for -inf + +inf; le_add_float_nonneg / add_nonneg_float — for 0 <= a, 0 <= x no side condition; "
            "the corrected law structure MonoLawsIeee with monoLawsIeee_float / monoLawsIeee_float32; and lengths_monotone_ieee / lengths_monotone_float: the natural cumulative lengths cumLens c path computed in IEEE f64 from f32 "
            "points never decrease — EXACTLY, not up to 1e-5 — if no entry is NaN and every segment length satisfies 0 <= ·; lengths_monotone_float_nonneg / natLens_monotone_float: for a start value 0 <= c (optimized_len >= 0) "
            "the NaN hypothesis is not needed (the sums are then >= 0, possibly +inf). STILL A HYPOTHESIS for IEEE: that every segment length f64::from(sqrt(dx*dx + dy*dy)) computed in f32 is >= 0 (the analogue of "
            "MonoLaws.len_nonneg for the real Cvt / sqrt chain — the conversions of Model/FloatBits.lean reduce, but no theorem about them is proved), and that calculate_path hands over optimized_len >= 0 in IEEE (the Catmull "
            "surplus is accumulated with rounding and can be negative by ~5e-7); the cut / extension outcomes of calculate_length are not covered by the IEEE theorems. Finiteness is tested by the harness oracle, not proved (it fails: F11, F13)",
        "catmull_simplify_preserves_length": "proved in exact arithmetic only (SumLaws, instantiated on Int; SumLaws Float32 Float is refuted in the kernel — -0.0 + 0.0 ≠ -0.0: Rosu.IeeeFalse.sumLaws_float_false — so the theorem is vacuous on the IEEE instance); in IEEE the surplus is accumulated with rounding (it can even be negative by ~5e-7) - tested: natural dist in osu! mode vs the unsimplified curve's dist, 1e-5 relative",
        "end_point_on_ray / cut_param_range (cut_on_segment, extension_collinear)": "proved in exact arithmetic only (RayLaws on Rat, OrdLaws on Int; both are refuted on the IEEE instances in the kernel — Rosu.IeeeFalse.rayLaws_float32_false: (1e30·1e30)·1e-30 = inf, ordLaws_float_false: a rounding witness for sub_le — so these theorems are vacuous there); t <= 1 for a cut holds for every segment but the first when optimized_len > 0 (F12); the float-level statement (end point on the segment's line at distance L - len_k, within slack) is tested by the oracle; F11 (zero-length segment, division by zero) is outside the laws' domain (|v| = 0)",
        "dist_exact": "the property says 'exactly L' for every L > 0; the code keeps the natural length when |natural - L| < f64::EPSILON (hypothesis `near = false`); the oracle accepts that case explicitly (reported as OK near-natural)",
    }
    trusted_base = [
        "Lean 4.33.0 kernel",
        "axioms: at most propext, Classical.choice, Quot.sound (audited per theorem with #print axioms)",
        "hand-written model Model/Curve.lean (+Basic, Scalar) tied to /repo by the differential run of this check (bit-exact path and lengths)",
        "the *_float / *_float32 theorems are about Lean 4.33's logical float model Float.Model (Float / Float32 are structures over it; + - * / sqrt abs, comparisons, isNaN reduce in the kernel); that the compiled "
        "@[extern] C double / float operations agree with that model is part of Lean's own trusted code base (compiler / runtime) and is compared with Rust f64/f32 bit for bit (codec requests fop64 / fop32 "
        "<add|sub|mul|div|sqrt|abs|neg|cmp|minmax>; the casts f32↔f64, `as i32`, ceil are the bit-level definitions of Model/FloatBits.lean, compared by castf32f64, castf64f32, castf64i32, castf32i32, ceilf64, ceilf32; "
        "and every `curve` request of this run); libm sin/cos/acos/acosf/atan2 stay opaque and are shared by both processes",
        "harness/src/curve.rs (observation through the public API) and harness/src/curveprop.rs (oracle written from the property text)",
    ]
    assumptions = [
        "theorems are about the Lean model; model = code is checked only on the generated inputs of this run (bit-for-bit, including arc segments: no ulp tolerance was needed)",
        "structural theorems hold for IEEE arithmetic because they use no arithmetic law; theorems under MonoLaws / SumLaws / RayLaws / OrdLaws / ExactArith hold in exact arithmetic only (each of the four law structures "
        "is refuted on Float / Float32 in Props/IeeeFalse.lean); the IEEE theorems of Props/C16Ieee.lean take `segment lengths >= 0` (and, without a non-negative start, `no entry is NaN`) as hypotheses",
        "oracle reading of 'exactly L': bit-identical to L, or natural length kept when |natural - L| < f64::EPSILON",
        "domain: finite coordinates within +-131072, at most 12 control points per list",
    ]
    nontrivial_rule = ("control-point lists (exhaustive integer grids [-3,3]^2 for 2/3 points x 4 types, random 1..12 points with every type layout, "
                       "duplicates, collinear, degenerate) x requested-length classes around the curve's own natural length x 4 modes; "
                       "non-trivial = the path has at least two points")

    def build(self, rng, tier, cmd="curve"):
        items = []  # (mode, points, tag)
        types = g.TYPES
        grid = list(itertools.product(range(-3, 4), repeat=2))
        for p1 in grid:
            for t in types:
                for m in g.MODES:
                    items.append((m, [(0.0, 0.0, t), (float(p1[0]), float(p1[1]), None)], "grid2"))
        tri = [(a, b) for a in grid for b in grid]
        if tier == "quick":
            tri = rng.sample(tri, 700)
        for a, b in tri:
            for t in types:
                items.append((rng.choice(g.MODES), [(0.0, 0.0, t), (float(a[0]), float(a[1]), None), (float(b[0]), float(b[1]), None)], "grid3"))
        n_rand = 3500 if tier == "quick" else 60000
        for _ in range(n_rand):
            items.append((rng.choice(g.MODES), g.rand_points(rng), "random"))
        # the shapes the design singles out: doubled first point of a short Catmull curve, tiny last segments
        for _ in range(150 if tier == "quick" else 3000):
            x, y = g.coord(rng), g.coord(rng)
            d = rng.uniform(5.0, 90.0)
            items.append((0, [(x, y, "C"), (x, y, None), (g.f32(x + d), g.f32(y + rng.uniform(-d, d)), None)] +
                          [(g.coord(rng), g.coord(rng), None) for _ in range(rng.randint(0, 2))], "catmull-doubled-first"))
        lens = g.natural_lengths(core.run_impl, [(m, p) for m, p, _ in items])
        cases = []
        for (m, pts, tag), cl in zip(items, lens):
            nat = cl[-1] if cl else None
            classes = g.len_classes_nat(rng, nat, cl)
            cum = [c for c in classes if c[0].startswith("cum-")]
            if tag == "grid2":
                pick = classes
            elif tag == "catmull-doubled-first":
                pick = [("tiny", rng.uniform(0.01, 3.0)), ("tiny", rng.uniform(0.01, 12.0))] + rng.sample(classes, 2)
            else:
                pick = rng.sample(classes, 3) + ([c for c in cum if c[0] == "cum-exact-duplicate"] or (rng.sample(cum, 1) if cum and rng.random() < 0.4 else []))
            for name, L in pick:
                cases.append(Case(g.curve_line(cmd, m, L, pts), tags=(tag, "L-" + name, f"mode{m}")))
        # a last segment that is far too short to change the f64 running total of a long path, but is a segment: the end points differ, so a
        # longer requested length extends it (seed C16-s: "the last two points are equal" read off the cumulative lengths)
        for A in (100000.0, 65536.0, 30000.0, 4096.0):
            for eps in (1e-12, 3e-13, 1e-11, 1e-14):
                for (ex, ey) in ((eps, 0.0), (0.0, eps), (-eps, eps)):
                    pts = [(0.0, 0.0, "L"), (A, 0.0, None), (0.0, 0.0, None), (g.f32(ex), g.f32(ey), None)]
                    for L in (2 * A + 50.0, 2 * A + 0.5, 2 * A - 10.0, None):
                        cases.append(Case(g.curve_line(cmd, rng.choice(g.MODES), L, pts), tags=("negligible-last-segment",)))
        for m in g.MODES:   # F13 witness: nearly collinear perfect curve whose f32 denominator is exactly 0
            for L in (None, 50.0):
                cases.append(Case(g.curve_line(cmd, m, L, [(404.0, -3.0, "P"), (279.0, 148.9139862060547, None), (358.74554443359375, 51.998291015625, None)]), tags=("witness-F13",)))
        # finding F23: finite control points beyond the f32 resolution the flatness test needs (|x| >= 2^22). Most of these never
        # return in the real crate (the request carries its own 2 s limit; the model side is the kernel-checked divergence
        # theorem C16.bsplineLoop_diverges_float32, not a driver run: 2 * 10^6 rounds of fuel take the driver 20 s), the others
        # are judged by the oracle like any curve.
        for _ in range(1 if tier == "quick" else 12):
            cases.append(Case("limit=2 " + g.curve_line(cmd, rng.choice(g.MODES), None, g.huge_bezier_points(rng)), corr=False, tags=("huge-bezier-F23",)))
        # hostile coordinates: correspondence only
        for _ in range(100):
            pts = g.rand_points(rng)
            i = rng.randrange(len(pts))
            bad = rng.choice([float("nan"), float("inf"), float("-inf"), 3e38, 1e-40])
            pts[i] = (bad, pts[i][1], pts[i][2]) if rng.random() < 0.5 else (pts[i][0], bad, pts[i][2])
            if any(abs(c) > 1e30 for p in pts for c in p[:2] if c == c) and any(p[2] in ("B", "B3", "P") for p in pts):
                continue  # huge finite coordinates under Bezier subdivision: unbounded work in the real code
            cases.append(Case(g.curve_line(cmd, rng.choice(g.MODES), rng.choice([None, 10.0]), pts), prop=False, tags=("hostile-coords",)))
        return cases

    def gen(self, rng, tier):
        return self.build(rng, tier)

    def is_nontrivial(self, case, impl_out):
        return impl_out.startswith("ok p=") and not impl_out.startswith("ok p=0") and not impl_out.startswith("ok p=1 ")

    def known(self, case, out, findings):
        if "nonfinite-endpoint" in out and g.nan_cut_predicate(case.line, core.run_impl):
            for f in findings:
                if f.get("predicate") == "nan_cut":
                    return f["id"]
        if "nonfinite-natural-path" in out and g.ill_conditioned_arc_predicate(case.line):
            for f in findings:
                if f.get("predicate") == "ill_conditioned_arc":
                    return f["id"]
        if out.startswith("TIMEOUT") and g.bezier_beyond_f32_resolution_predicate(case.line):
            for f in findings:
                if f.get("predicate") == "bezier_beyond_f32_resolution":
                    return f["id"]
        if "cut-overshoots-simplified-segment" in out and g.cut_overshoot_predicate(case.line, core.run_impl):
            for f in findings:
                if f.get("predicate") == "cut_overshoot":
                    return f["id"]
        return None


PROP = C16()
