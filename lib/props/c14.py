import itertools

from ..codecgen import codec_cases
from ..gen import hexs
from ..runner import Case, Property
from .. import refho

XS = ["0", "256", "192.7", "-5.9", "131072", "131072.5", "-131072", "131073", "1e3", "abc", "", "nan", "inf", " 12 ", "511.99999", "2147483648", "-0.5", "+7",
      # decimals a hair below the midpoint of two f32 values next to an integer (rounding the decimal to f64 first and then to
      # f32 gives the integer; the correctly rounded f32 is below it), and values that exceed the limit only before f32 rounding
      "0.9999999701976776122046875", "-0.9999999701976776122046875", "191.9999923706054687499", "255.9999923706054687499",
      "511.9999847412109374999", "99.9999961853027343749", "0.99999997019767761", "191.99999237060546",
      "131072.001", "-131072.001", "131072.0078", "131072.0079", "-131072.0078125"]
TIMES = ["0", "1000", "-500", "1234.5", "2147483647", "2147483648", "nan", "abc", "", "1e3", "-0", "0.1"]
TYPES_ODD = ["-1", "256", "2147483647", "-2147483648", "+1", " 1", "x", "", "1.0", "0x1", "2147483648", "-127", "-128", "384", "65537"]
SOUNDS_ODD = ["-1", "256", "257", "x", "", " 2", "+4", "2147483647", "-2147483648", "2147483648", "-255"]
EXTRAS = ["", "0:0:0:0:", "1:2:3:50:file.wav", "2:0", "3", "4:5:6", "0:0:0:-5:", "1:1:1:1:a:b", "x:0", "0:x", "1:2:x", "1:2:3:x", ":", "0",
          "1:2:3:4:", "3:3:2:0:", "0:1", "1:0:0:100:", "2:3:1:2147483648:", " 1: 2 :3: 4 :f", "1:2:3:4:日本.wav", "0:0:0:0", "-1:-1:0:0:",
          # custom sample index at its sign / threshold boundaries (the suffix exists from index 2 on; an index is an i32)
          "2:0:-1:60:", "1:2:-2147483647:0:", "0:0:-3:0:f.wav", "0:0:1:0:", "0:0:2:0:", "1:1:2147483647:10:", "0:0:-0:0:", "0:0:-2:-2:"]
PATHS = ["B|1:1", "B|100:100|200:50", "L|10:10", "P|50:50|100:0", "P|50:0|100:0", "P|1:1", "P|1:1|2:2|3:3|4:4", "C|5:5|9:9|9:9|20:20",
         "B|1:1|1:1|2:2", "B|1:1|2:2|2:2", "B|0:0|5:5", "L|5:5|5:5|5:5|9:9", "C|0:0|0:0|3:3", "B|1:1|2:2|L|3:3", "B|1:1|B|2:2", "B|1:1|L|2:2|2:2|3:3|P|4:4|9:0",
         "B|1:1|L", "B", "|", "", "B||1:1", "B|1:1|", "B|x:1", "B|1", "B|1:2:3", "1:1|2:2", "B3|1:1|2:2|3:3", "B0|1:1", "B-1|1:1", "Bx|1:1", "B+2|1:1",
         "b|1:1", "c|1:1|2:2", "Z|1:1", "L|131072:0", "L|131073:0", "L|1.9:2.9", "L|-1.9:-2.9", "L|nan:0", "L|1e3:1e3", "P|0:10|10:0", "P|10:10|20:20",
         "B|3:3|L|3:3", "L|1:1|P|2:2|3:3|4:4", "B|1:1|2:2|x:y", "B|10:10|L|20:20|x:y", "L| 5 : 6 ", "L|7:8:9", "é|1:1", "L|1:1|é"]
REPEATS = ["1", "0", "-1", "2", "3", "9000", "9001", "9002", "x", "", "2147483647", " 2 ", "1.5"]
LENGTHS = ["100", "0", "-5", "1e-17", "2.220446049250313e-16", "2.2204460492503126e-16", "131072", "131073", "nan", "x", "", "50.5", None]
EDGE_SOUNDS = ["2|0", "", "x|2|300", "1|2|3|4|5", "8", "0|0", None]
EDGE_SETS = ["0:0|1:2", "", "1:2|x:0", "0:0|0", "1:1|2:2|3:3|0:0", "3:0:5:50:f.wav|1:1", None]
SPIN_ENDS = ["2000", "500", "x", "", "nan", "1000", "2147483648", None]
HOLD_EXTRAS = ["2000:0:0:0:0:", "500:1:2", ":0:0", "", "x:0:0", "2000", "2000:1", "2000:1:2:3:4:f.wav", "nan:0:0", None]


def rand_path(rng):
    """random path string from the grammar: 1-4 typed segments over a small coordinate grid, so that duplicates,
    collinear triples (relative to the segment's own first point, to the origin, or neither) and shared end points occur"""
    grid_x = [0, 50, 100, 150, 200, 300]
    grid_y = [0, 50, 100, 200]
    toks = []
    last = None
    for _ in range(rng.randint(1, 4)):
        toks.append(rng.choice(["B", "L", "P", "P", "C", "B3"]))
        for _ in range(rng.choice([0, 1, 2, 2, 3, 3, 4])):
            if last is not None and rng.random() < 0.2:
                pt = last
            else:
                pt = f"{rng.choice(grid_x)}:{rng.choice(grid_y)}"
            toks.append(pt)
            last = pt
    return "|".join(toks)


def line(fields):
    return ",".join(f for f in fields if f is not None)


class C14(Property):
    id = "C14"
    lean_module = "RosuModel.Props.C14Full"   # imports Props/C14Grammar.lean (→ Props/C14Split.lean → Props/C14.lean and Lemmas/HoGrammar*.lean) and Props/C14Ieee.lean; all in namespace Rosu.C14 (the grammar in Rosu.C14.HoSpec)
    theorem_modules = ['RosuModel.Props.C14Grammar', 'RosuModel.Props.C14Ieee', 'RosuModel.Props.C14IeeePos']   # files whose top-level theorems are all audited
    namespace = "Rosu.C14"
    design_ref = "5.14"
    required_theorems = ["kind_precedence", "maskedType_bits", "unknown_type_rejected", "bad_header_rejected", "accepted_pushes_one",
                         "rejected_keeps_objects", "buildSlider_frame", "combo_offset_range", "combo_offset_needs_new_combo",
                         "newCombo_is_bit2", "forced_new_combo", "circle_fields", "repeat_cap", "storedRepeatCount_eq", "node_count",
                         "slider_fields", "length_absent", "length_present", "length_bad_rejects", "spinner_fields", "max_zero_nonneg",
                         "position_truncated", "perfect_three_collinear_linear", "perfect_three_noncollinear_kept", "perfect_other_bezier",
                         "non_perfect_unchanged", "soundType_range", "sound_byte_to_samples", "addition_names", "filename_sample",
                         "base_sample_layered", "bank_info_fields",
                         # Props/C14Split.lean: the duplicate-splitting loop of convert_points
                         "splitLoop_step", "splitLoop_exit", "splitLoop_flush", "splitLoop_spec", "convertPoints_unfold", "convertPoints_spec",
                         "isSplit_iff", "duplicate_dropped", "duplicate_types_previous", "no_split_unchanged",
                         "catmull_no_split_after_first", "no_split_at_segment_end", "no_split_beyond_limit", "emitRange_congr",
                         "first_point_origin_typed", "segment_end_point_shared",
                         "pathLoop_eq", "convertSegments_eq", "convertFrom_eq_run", "convertFrom_empty_fails", "convertPathStr_spec",
                         # Props/C14Grammar.lean + Lemmas/HoGrammar*.lean: the declarative reference grammar HoSpec and parser = grammar
                         "parse_eq_reference", "parseLines_eq_reference", "accepts_iff_reference", "rejects_iff_reference",
                         "accepted_by_reference", "rejected_by_reference", "leftover_stays_empty", "accepted_line",
                         "line_combo_offset_needs_new_combo", "line_forced_new_combo", "line_repeat_cap", "line_node_count", "view_push",
                         "HoSpec.head_eq", "HoSpec.circle_eq_reference", "HoSpec.spinner_eq_reference", "HoSpec.hold_eq_reference",
                         "HoSpec.sliderPrelude_eq", "HoSpec.slider_eq_reference",
                         "HoSpec.comboOffsetOf_eq", "HoSpec.maskedType_eq", "HoSpec.classify_masked", "HoSpec.forcedNewCombo_eq",
                         "HoSpec.sampleField_eq", "HoSpec.samplesOf_eq", "HoSpec.readNodeBanks_eq", "HoSpec.readNodeSounds_eq", "HoSpec.nodeSamples_eq",
                         "HoSpec.number_eq", "HoSpec.point_eq", "HoSpec.segment_eq", "HoSpec.runSegments_eq", "HoSpec.path_eq",
                         "HoSpec.head_ok_iff", "HoSpec.circle_ok_iff", "HoSpec.slider_ok_iff", "HoSpec.spinner_ok_iff", "HoSpec.hold_ok_iff",
                         "HoSpec.body_ok_cases", "HoSpec.specLine_ok_iff", "HoSpec.body_common", "HoSpec.body_combo_offset", "HoSpec.body_new_combo",
                         "HoSpec.body_forced_new_combo", "HoSpec.samplesOf_layered", "HoSpec.samplesOf_not_layered", "HoSpec.nodeSamples_defaults",
                         "HoSpec.nodeSamples_length", "HoSpec.slider_repeat_cap", "HoSpec.lengthField_absent", "HoSpec.lengthField_present",
                         "HoSpec.coordinate_truncated", "HoSpec.head_error_cases", "HoSpec.head_tooFewFields", "HoSpec.body_noKind",
                         "HoSpec.circle_error_cases", "HoSpec.slider_error_cases", "HoSpec.spinner_error_cases", "HoSpec.hold_error_cases",
                         "HoSpec.specLine_error_cases", "rejected_line_reasons",
                         # Props/C14Ieee.lean: the order hypotheses of max_zero_nonneg discharged for the driver's Float / Float32
                         "max_zero_nonneg_ieee", "max_zero_nonneg_float", "max_zero_nonneg_float32", "max_zero_ge_float", "max_zero_ge_float32"]
    partial_theorems = {
        "reference grammar": "proved, not partial: parse_eq_reference — for every game mode, decoder state, line and Scalar instance (no arithmetic law, number "
            "parser abstract) the model of parse_hit_objects returns the verdict, the object and the state change of the declarative grammar HoSpec.specLine / HoSpec.step "
            "(Lemmas/HoGrammarSpec.lean: indexed comma fields, per-field meaning functions, 16 named rejection reasons). The state is compared without the scratch buffer "
            "`vertices` (no line reads it). The grammar re-uses the declarative path pieces of Props/C14Split.lean (cutSegments, isSplit/emitRange/typeFirst), the type-letter "
            "table PathType.newFromStr, effectivePathType and the constructor HitSampleInfo.new; everything else (fields, numbers, type bits, sample field, sample list, node "
            "lists, points, segments) is restated and proved equal. What is NOT shown: that HoSpec is the grammar of osu! itself — it was written from the property text, the "
            "format rules and lib/refho.py and then had to agree with the code; the points where the rule text and the code part ways are listed in DESIGN.md 5.14",
        "path splitting": "closed: HoSpec.segment_eq covers every convert_points call (including a later segment that is a type piece only, which contributes its handed-over "
            "point) and HoSpec.path_eq composes convertPathStr_spec with it into one formula for the whole path string (HoSpec.path)",
        "max_zero_nonneg / durations": "the generic form takes three order facts about `<` (irreflexive, asymmetric, false on NaN) as hypotheses. For the driver's Float / Float32 they are now theorems "
            "(Props/C14Ieee.lean; Lean 4.33's Float is a structure over the logical model Float.Model and `<` reduces in the kernel; order theory of Lemmas/FloatModelCompare.lean, class FMO.IeeeOrd): "
            "max_zero_nonneg_ieee, max_zero_nonneg_float, max_zero_nonneg_float32 (a spinner's max(end − start, 0) / a slider's max(length, 0) is never below 0) and, in the ordinary sense, "
            "max_zero_ge_float / max_zero_ge_float32 (0 <= max x 0 and max x 0 is not NaN, even for a NaN x) — no hypothesis. The hold duration "
            "`max(start,end) - start ≥ 0` additionally needs field laws (exact arithmetic; not proved for IEEE) and is only exercised",
    }
    level_text = ("Lean 4 theorems over the model of parse_hit_objects / convert_path_str / read_custom_sample_banks / convert_sound_type: flag precedence "
                  "circle > slider > spinner > hold on the masked type (combo bits cleared, kind bits untouched), unknown type or bad header ⇒ rejected without effect, "
                  "an accepted line pushes exactly one object of the selected class with the line's start time and remembers the masked type, combo offset only with the "
                  "new-combo bit, forced new combo for first object / after spinner, repeat cap 9000, repeats+2 node sample sets, length none/some rule, spinner duration "
                  "max(end-start,0) (never below 0 and never NaN for IEEE doubles, with no order hypothesis: max_zero_nonneg_float, max_zero_ge_float), position = truncated f32 parse, perfect-curve downgrade rules, hit-sound byte → sample list, bank field semantics; the duplicate-splitting loop of "
                  "convert_points in closed form (Props/C14Split.lean: split indices = repeated vertex, not Catmull beyond index 1, not the segment's last vertex; the repeated "
                  "vertex is dropped and its predecessor typed — so a run of k equal points keeps one; first point of a path = origin with the effective type; the handed-over "
                  "end point enters the perfect-curve test only); and the grammar-level theorem parse_eq_reference (Props/C14Grammar.lean): the parser computes the "
                  "declarative reference grammar HoSpec on every line in every state, with the property's clauses (combo offset only with new combo, forced new combo, layered normal "
                  "sample, node defaults, repeat cap, the 16 rejection reasons) as corollaries of the grammar. Tied to the code by a "
                  "field-wise differential through the public parse_hit_objects (all 256 type bytes, all 256 sound bytes, extras/path/edge shapes, sequences), and judged "
                  "by an independent reference parser written from the legacy grammar (lib/refho.py), which remains the oracle for the IMPLEMENTATION (the Lean grammar speaks about the model).")
    technique = "Lean 4 proof (decision-logic theorems over the hit-object line parser model) + field-wise differential correspondence"
    trusted_base = [
        "Lean 4.33.0 kernel; axioms ⊆ {propext, Classical.choice, Quot.sound} per #print axioms",
        "hand-written model Model/{HitSamples,HitObjectLine,NumParse}.lean tied to /repo by this check's differential run through the public HitObjects::parse_hit_objects",
        "Rust std: str::split, i32/f32/f64 FromStr, float→int `as` casts (model codec validated by the codec differential of this run; the casts `as i32`, `as f32`, f64::from, ceil are the kernel-transparent "
        "bit-level definitions of Model/FloatBits.lean, compared with Rust bit for bit by the codec requests castf64i32, castf32i32, castf64f32, castf32f64, ceilf64, ceilf32, usizef64)",
        "the *_float / *_float32 theorems are about Lean 4.33's logical float model Float.Model (Float is a structure over it, not opaque); that the compiled @[extern] C operations agree with that model is part of "
        "Lean's own trusted code base and is compared with Rust bit for bit by the codec differential of this run (fop64 / fop32 <add|sub|mul|div|sqrt|abs|neg|cmp|minmax>)",
    ]
    assumptions = ["the scratch buffer `vertices` is not observed (it is cleared at the start of every convert_points call)"]
    nontrivial_rule = ("hit-object lines from a field-wise generator (type bytes, sound bytes, extras shapes, path strings over all type letters, duplicates, "
                       "collinear triples, multi-segment paths, boundary numerics) in sequences of 1–4 lines; non-trivial = at least one object pushed")

    def gen(self, rng, tier):
        cases = []

        def add(mode, lines, tag):
            cases.append(Case(f"ho {mode}" + "".join(" " + hexs(l.encode()) for l in lines), tags=(tag,)))

        # exhaustive type byte × a few sound bytes / sound byte × circle
        for t in range(256):
            for s in (0, 2, 15):
                add(0, [f"10,20,100,{t},{s},0:0:0:0:"], "type-byte")
                add(0, [f"10,20,100,{t},{s},B|30:30,1,50", f"1,1,200,{t},{s},300"], "type-byte")
        for s in range(256):
            add(0, [f"1,2,3,1,{s}"], "sound-byte")
            add(3, [f"1,2,3,128,{s},500:1:2:3:40:"], "sound-byte")
        if tier != "quick":
            for t in range(256):
                for s in range(256):
                    add(0, [f"7,8,9,{t},{s},1:2:3:4:"], "type-x-sound")
        for t in TYPES_ODD:
            add(0, [f"1,2,3,{t},0"], "type-odd")
        for s in SOUNDS_ODD:
            add(0, [f"1,2,3,1,{s}"], "sound-odd")
        for x in XS:
            for y in XS[:6]:
                add(0, [f"{x},{y},0,1,0"], "pos")
                add(0, [f"{y},{x},0,1,0"], "pos")
        for t in TIMES:
            add(0, [f"1,2,{t},1,0"], "time")
            add(0, [f"1,2,{t},12,0,5000"], "time")
            add(3, [f"1,2,{t},128,0,5000:0:0:0:0:"], "time")
        for e in EXTRAS:
            add(0, [f"1,2,3,1,4,{e}"], "extras")
            add(0, [f"1,2,3,8,2,500,{e}"], "extras")
            add(0, [f"1,2,3,2,2,B|9:9,1,50,,,{e}"], "extras")
            add(3, [f"1,2,3,128,2,900:{e}"], "extras")
        for p in PATHS:
            for mode in (0, 1):
                add(mode, [f"100,100,0,2,0,{p},1,100"], "path")
            add(0, [f"0,0,0,6,0,{p},2", f"5,5,10,2,0,L|6:6,1,10"], "path-then-next")
        # later perfect-curve segments: collinear w.r.t. their own first point vs w.r.t. the origin
        for ox, oy in ((0, 0), (100, 100), (37, 211)):
            for seg in ("P|100:100|100:200|100:300", "P|50:0|100:100|200:200", "P|100:100|200:200|300:300", "P|0:100|100:0|50:50",
                        "P|10:20|30:40|50:61", "P|100:0|200:0|300:0", "P|0:50|0:150|0:300"):
                add(0, [f"{ox},{oy},0,2,0,L|100:0|{seg},1,100"], "later-perfect")
                add(0, [f"{ox},{oy},0,2,0,{seg},1,100"], "first-perfect")
                add(0, [f"{ox},{oy},0,2,0,B|7:9|L|0:50|{seg}|L|1:1,1,100"], "later-perfect")
        for _ in range(1500 if tier == "quick" else 60000):
            add(rng.randint(0, 3), [f"{rng.choice([0, 50, 100, 256])},{rng.choice([0, 50, 192])},{rng.randint(0, 9999)},2,0,{rand_path(rng)},1,100"], "rand-path")
        for r in REPEATS:
            add(0, [f"1,2,3,2,0,B|9:9,{r},50,1|2|3|4,0:0|1:1|2:2|3:3"], "repeat")
        for l in LENGTHS:
            add(0, [line(["1", "2", "3", "2", "0", "B|9:9", "1", l])], "length")
        for es in EDGE_SOUNDS:
            for et in EDGE_SETS:
                add(0, [line(["1", "2", "3", "2", "6", "L|9:9", "2", "50", es, et, "1:2:3:4:" if et is not None and es is not None else None])], "edges")
        for e in SPIN_ENDS:
            add(0, [line(["1", "2", "1000", "12", "0", e])], "spinner")
        for e in HOLD_EXTRAS:
            add(3, [line(["1", "2", "1000", "128", "0", e])], "hold")
        for l in ["", ",", ",,,,", "1,2,3,1", "1,2,3", "1,2,3,1,0 // comment", "1,2,3,1,0//c", "  1,2,3,1,0  ", "1,2,3,1,0,,,,,"]:
            add(0, [l], "shape")
        # sequences: first object / after spinner / new combo
        singles = ["1,1,0,1,0", "1,1,10,5,0", "1,1,20,8,0,30", "1,1,20,12,0,30", "1,1,40,2,0,L|2:2,1,5", "1,1,40,6,0,L|2:2,1,5", "1,1,50,128,0,60:0:0:0:0:",
                   "1,1,60,21,0", "1,1,70,113,0", "bad", "1,1,80,16,0", "1,1,90,2,0,B|1:1|L|2:2|x:y,1,5"]
        for k in (2, 3):
            for combo in itertools.product(singles, repeat=k):
                if k == 3 and tier == "quick" and rng.random() > 0.25:
                    continue
                add(0, list(combo), f"seq{k}")
        n = 6000 if tier == "quick" else 200000
        for _ in range(n):
            lines = []
            for _ in range(rng.randint(1, 4)):
                kind = rng.choice(["c", "s", "n", "h"])
                x, y, t = rng.choice(XS), rng.choice(XS), rng.choice(TIMES)
                nc = rng.choice([0, 4, 4 + 16 * rng.randint(0, 7), 16 * rng.randint(1, 7)])
                snd = rng.choice([0, 2, 4, 6, 8, 14, 15, rng.randint(0, 255)])
                if kind == "c":
                    lines.append(line([x, y, t, str(1 | nc), str(snd), rng.choice(EXTRAS + [None])]))
                elif kind == "s":
                    lines.append(line([x, y, t, str(2 | nc), str(snd), rng.choice(PATHS), rng.choice(REPEATS), rng.choice(LENGTHS),
                                       rng.choice(EDGE_SOUNDS), rng.choice(EDGE_SETS), rng.choice(EXTRAS)]))
                elif kind == "n":
                    lines.append(line([x, y, t, str(8 | nc), str(snd), rng.choice(SPIN_ENDS), rng.choice(EXTRAS + [None])]))
                else:
                    lines.append(line([x, y, t, str(128 | nc), str(snd), rng.choice(HOLD_EXTRAS)]))
            add(rng.randint(0, 3), lines, "random")
        cases += codec_cases(rng, 1000 if tier == "quick" else 30000)
        # the samples of an object as the DECODED MAP holds them: what a line leaves unspecified (custom index 0, volume 0, no bank) is
        # taken from the sample point in force, what it specifies is kept — the index 1 included, which has no file-name suffix
        # (seed C14-r: "has no suffix" used for "unspecified"). Whole small files through the full decoder, model vs implementation,
        # and the closed form of C15 evaluated on the implementation
        for sp_idx in (0, 1, 2, 5):
            for sp_vol in (60, 100):
                for ex in ("0:0:0:0:", "0:0:1:0:", "0:0:2:0:", "0:0:-1:0:", "1:2:1:30:", "2:0:1:0:f.wav", "0:0:1:0", "3:3:0:70:"):
                    for obj in (f"64,64,1000,5,2,{ex}", f"100,100,1000,2,8,L|200:100,1,100,2|8,0:0|1:2,{ex}", f"256,192,1000,12,4,2000,{ex}",
                                f"100,100,1000,2,0,L|200:100,2,100,2|0|8,0:0:1:0|1:0:2:40|0:0,{ex}"):
                        text = ("osu file format v14\n\n[General]\nSampleSet: Soft\n\n[Difficulty]\nSliderMultiplier:1.4\n\n[TimingPoints]\n"
                                f"0,500,4,1,{sp_idx},{sp_vol},1,0\n1400,-100,4,3,{(sp_idx + 1) % 4},35,0,0\n\n[HitObjects]\n{obj}\n")
                        cases.append(Case("dec " + hexs(text.encode()), prop=False, tags=("finalised-samples",)))
                        cases.append(Case("c15 " + hexs(text.encode()), corr=False, tags=("finalised-samples-closed-form",)))
        return cases

    def py_oracle(self, case, impl_out):
        t = case.line.split()
        if t[0] != "ho":
            return None
        ls = [bytes.fromhex(h).decode("utf-8", "replace") if h != "-" else "" for h in t[2:]]
        want = refho.run(int(t[1]), ls)
        if want == impl_out:
            return "OK"
        return f"FAIL reference grammar gives [{want[:1500]}] implementation gives [{impl_out[:1500]}]"

    def is_nontrivial(self, case, impl_out):
        return " n=0" not in impl_out and impl_out.startswith("ok=")


PROP = C14()
