import itertools

from .. import core, curvegen as g
from ..runner import Case, Property


class C19(Property):
    id = "C19"
    lean_module = "RosuModel.Props.C19Full"   # imports Props/C19Curve.lean (→ Props/C19Lipschitz.lean, Props/C19.lean, Props/C16Surplus.lean) and Props/C19Ieee.lean; namespace Rosu.C19
    theorem_modules = ['RosuModel.Props.C19Curve', 'RosuModel.Props.C19Ieee', 'RosuModel.Props.C19IeeePos', 'RosuModel.Props.C19IeeeBound', 'RosuModel.Props.C19IeeeErr', 'RosuModel.Props.C19IeeeSearch', 'RosuModel.Props.C19IeeeFinite', ('RosuModel.Lemmas.FloatErrRange32', 'Rosu.FErr'), 'RosuModel.Props.C19IeeeLipschitz', 'RosuModel.Props.C19DecodedLinear', 'RosuModel.Props.C19IeeeFinal', ('RosuModel.Lemmas.FloatErrRangeSqrt', 'Rosu.FErr'), 'RosuModel.Props.C19DecodedLinearLen', 'RosuModel.Props.C19DecodedLinearLen2']   # files whose top-level theorems are all audited
    namespace = "Rosu.C19"
    design_ref = "5.19"
    level_text = (
        "Lean 4 theorems over the model of position_at / progress_to_dist / idx_of_dist (std's binary_search_by probing sequence, "
        "mirrored) / interpolate_vertices, for every arithmetic instance: progress_clamped, progress_below_clamped, progress_above_clamped, "
        "position_clamped (an out-of-range progress is indistinguishable from its clamp), progress_to_dist_linear (inside the range the "
        "distance is the very product progress * dist), empty_path_default, interpolate_idx_zero, interpolate_beyond_last, "
        "interpolate_total / positionAt_total (no index read can panic on a curve), bsLoop_inv / bs_probe_in_range / idxOfDist_le "
        "(every get_unchecked probe of the search is in range; the result is in 0..=len), bsLoop_fuel, interpolate_degenerate, "
        "interpolate_formula, position_first_of_idx_zero. Exact-arithmetic part (explicit hypotheses PosLaws, shown satisfiable on Rat by posLaws_rat): "
        "idxOfDist_hit / bsLoop_hit (on strictly increasing lengths std's probing sequence returns the index of an exact hit; for IEEE doubles without PosLaws: idxOfDist_hit_float, Props/C19Ieee.lean, from the "
        "order facts of IEEE `<` proved on Lean 4.33's logical float model), interpolate_at_vertex, "
        "position_at_vertex, position_at_zero_first, position_at_one_last, progressToDist_zero_one - for curves whose lengths strictly increase by more "
        "than EPSILON (otherwise the code deliberately returns the segment start). "
        "position_lipschitz (Props/C19Lipschitz.lean) is PROVED in exact arithmetic about positionAt/progressToDist/idxOfDist/interpolateVertices themselves: for EVERY two progress "
        "values q, r (inside or outside [0,1], clamping included) nrm(position_at(r) - position_at(q)) <= |r - q| * dist, under explicit hypotheses: ExactArith (Lemmas/ExactArith.lean: "
        "the Scalar operations are those of a linearly ordered field through an embedding; satisfiable on Rat and on the reals), NormLaws nrm (the plane norm is ANY function with the "
        "triangle inequality and absolute homogeneity: L1 and sup norms, exact on Rat x Rat - normLaws_l1, normLaws_sup - and the Euclidean norm on the reals - normLaws_euclid), and the curve "
        "invariants path.length = lengths.length, lengths[0] = 0, StrictSorted lengths, NonDegenerate lengths (consecutive lengths more than EPSILON apart) and ChordBound (each segment's booked "
        "length is AT LEAST its chord: nrm(path[i+1]-path[i]) <= len[i+1]-len[i]). It rests on idxOfDist_spec (on strictly increasing lengths std's probing sequence returns the number of "
        "lengths below d, hit or miss), interpolate_eq_polyAt, and the pure ordered-field lemma poly_lipschitz (Lemmas/PolyLipschitz.lean). position_lipschitz_real: the full statement with the "
        "model's own Pos::distance (sqrt = Real.sqrt) holds over the reals (position_lipschitz_full_statement = the old position_lipschitz_statement plus the three invariants it omitted). "
        "Props/C19Curve.lean supplies the chord hypothesis from C16: natLens_chord (booked length >= chord in the natural lengths, equal for every segment but the first, given optimized_len >= 0 = "
        "C16.calculatePath_optLen_nonneg) and natural_curve_lipschitz_real: over the reals position_at is 1-Lipschitz on EVERY curve Curve::new builds without a requested length (any mode, control "
        "points, fuel, buffers) whose lengths strictly increase by more than EPSILON. "
        "Model tied to the code bit-for-bit "
        "(positions, distances, indices, also for NaN / unsorted lengths).")
    technique = "Lean 4 proof (generic arithmetic, structural) + bit-exact differential correspondence + independent oracle"
    required_theorems = ["cutPoint_ok_of_c16", "cutPoint_lenAdjOk_of_c16", "linear_curve_len_position_err_float32_of_c16",
                         "calculateLength_some_shape", "linear_curve_len_shape", "linear_len_length_mismatch", "linear_curve_len_position_err_float32_partial", "linear_curve_len_lenAdjOk",
                         "linear_curve_len_position_err_float32_of_cutPoint", "lenAdjOk_of_near_segment", "linCps_curve40", "linCps_curve60",
                         "seglen_bounded", "cumLens_finite", "natural_total_finite_float", "linear_curve_position_err_float32", "position_lipschitz_float32_uncond",
                         "positionAt_lipschitz_float32_uncond", "degSlack_lt",
                         "vertex_chord_sum_float32", "chordBooked_natural", "chordBooked_natural_zero", "idxOfDist_mono_float", "position_anchor_float32", "position_same_bracket_float32",
                         "position_lipschitz_gen_float32", "position_lipschitz_float32", "position_lipschitz_degenerate_float32", "positionAt_lipschitz_float32", "demo_chordBooked",
                         "linear_path_vertices", "natural_lengths_sorted_float", "linear_curve_shape", "linear_curve_position_err_float32_partial", "hbf_iff_all_finite", "linCps_curve",
                         "segFinite_statement_false", "segFinite_of_bounded", "weight_finite", "coordInterp_finite", "segFinite_of_curve", "positionAt_dist_err_float32_nofin",
                         "positionAt_dist_on_polyline_float32_nofin", "positionAt_progress_err_float32_nofin",
                         "bsLoop_spec_ieee", "idxOfDist_spec_ieee", "idxOfDist_bracket_float", "idxOfDist_below_ieee", "idxOfDist_beyond_ieee", "positionAt_dist_err_float32",
                         "positionAt_dist_on_polyline_float32", "positionAt_progress_err_float32", "demo_idx",
                         "interpolate_err_float32", "interpolate_on_segment_float32", "segment_length_err_float32", "segment_length_underflow_example", "natural_length_err_float",
                         "natural_length_err_float_linear", "position_lipschitz_segment_float32", "position_arc_segment_float32", "chord_le_booked_float",
                         "progress_clamped", "progress_below_clamped", "progress_above_clamped", "position_clamped",
                         "progress_to_dist_linear", "empty_path_default", "interpolate_idx_zero", "interpolate_beyond_last",
                         "interpolate_total", "positionAt_total", "bsLoop_inv", "bs_probe_in_range", "idxOfDist_le", "bsLoop_fuel",
                         "interpolate_degenerate", "interpolate_formula", "position_first_of_idx_zero",
                         "bsLoop_hit", "idxOfDist_hit", "interpolate_at_vertex", "position_at_vertex", "progressToDist_zero_one",
                         "position_at_zero_first", "position_at_one_last", "posLaws_rat",
                         # Props/C19Lipschitz.lean
                         "cmpLen_gt_iff", "bsLoop_spec", "idxOfDist_spec", "interpolate_eq_polyAt", "clamp01_lipschitz",
                         "position_lipschitz", "position_lipschitz_ordered", "normLaws_euclid", "position_lipschitz_real",
                         # Props/C19Curve.lean
                         "natLens_chord", "natural_curve_lipschitz_real",
                         # Props/C19Ieee.lean: the order part of PosLaws for the driver's Float; the search finds an exact hit for IEEE doubles
                         "posLaws_order_float", "bsLoop_hit_ieee", "idxOfDist_hit_ieee", "idxOfDist_hit_float"]
    partial_theorems = {
        "linear_curve_len_position_err_float32_of_c16": "Props/C19DecodedLinearLen2.lean (sixth session, wave 12): the hypothesis `LenAdjOk` of the requested-length position theorem replaced by the side "
            "conditions of C16's end-point theorems on the cut / extended segment (C16Side: CutSide = those of cut_end_point_near_segment_float, ExtSide = those of ext_end_point_err_float32 with the travel "
            "bound 2^18 — the 2^21 of ext_end_point_near_ray is too weak for Bounded19) for control points bounded by 2^17. PARTIAL: finiteness of the re-projected point stays a hypothesis (the C16 theorems "
            "conclude nearness in exact values only, which is 0 for ∞), and C16Side is not derived from the control points and 0 < L ≤ 131072. Kernel-evaluated at L = 40 (cut) and L = 60 (extension)",
        "linear_curve_len_position_err_float32_partial": "Props/C19DecodedLinearLen.lean (sixth session, wave 11): linear curves WITH a requested length (what decoded sliders have). calculateLength_some_shape "
            "(every arithmetic): the adjusted path keeps natural vertices except possibly the last, which is a natural vertex or the cut point; linear_curve_len_shape: for all-linear finite control points and a "
            "finite L the curve's lengths are Sorted, start at 0 and are finite, every vertex but possibly the last is a control-point position. FOUND FALSE as first stated: path.length = lengths.length — "
            "linear_len_length_mismatch: (100,200) L, (107,224), (107,224) with L = 60 gives three vertices and FOUR lengths [0,25,25,25] (the equal-tail branch pushes a length without a point), kernel-evaluated; "
            "the clause is a disjunction in the shape theorem. linear_curve_len_position_err_float32_partial: position_at(q) within 1/4 px per coordinate of the polyline through the adjusted path. PARTIAL: two "
            "hypotheses stay — LenAdjOk (the last vertex is finite and Bounded19; lenAdjOk_of_near_segment derives it from the C16 end-point theorems' conclusion, whose own side conditions are not derived from "
            "the control points) and hlen (fails exactly in the equal-tail case). Kernel-evaluated on L = 40 (cut) and L = 60 (extension)",
        "positionAt_lipschitz_float32_uncond / linear_curve_position_err_float32": "Props/C19IeeeFinal.lean, Lemmas/FloatErrRangeSqrt.lean (sixth session, wave 10): the last two side hypotheses are REMOVED. "
            "sqrt_finite_float (the square root of a finite non-negative double is finite, −0 included), sqrt_le_float, toRat_abs_float, toRat_eps_float, abs_sub_le_eps_toRat (|d0 ⊖ d1| ≤ EPSILON implies "
            "|d0 − d1| ≤ 2^-52(1+2^-52); the factor cannot be dropped: kernel witness EPSILON and −2^-110). (i) seglen_bounded, cumLens_finite, natural_total_finite_float: for finite Bounded19 vertices and at "
            "most 2^40 of them no natural cumulative length overflows; hence linear_curve_position_err_float32 = the recorded full statement, no `hbf`. (ii) position_lipschitz_float32_uncond / "
            "positionAt_lipschitz_float32_uncond: the arc-length clause across segments with NO non-degeneracy hypothesis, the slack increased by degSlack·(1+κ) with degSlack = 2^-52(1+2^-52) < 10^-15. What "
            "stays a hypothesis of the Lipschitz theorems: ChordBooked (discharged for natural lengths with optimized_len = 0)",
        "positionAt_lipschitz_float32 / position_lipschitz_float32": "Props/C19IeeeLipschitz.lean (sixth session, wave 9): the ARC-LENGTH CLAUSE ON IEEE FLOATS, across segments. vertex_chord_sum_float32 (telescoping: "
            "|x_j − x_i| ≤ (L_j − L_i)(1+κ) under ChordBooked κ), chordBooked_natural / chordBooked_natural_zero (natural lengths satisfy ChordBooked 2^-20 under the side conditions of chord_le_booked_float), "
            "idxOfDist_mono_float (the search is monotone, order facts only), position_anchor_float32, position_same_bracket_float32, and position_lipschitz_float32: for d ≤ d' in range the two positions "
            "differ per coordinate by at most (d' − d)(1+κ) + 2·interpBound — the SAME slack as inside one segment, because the vertices in between are stored exactly; positionAt_lipschitz_float32: the same "
            "through progress_to_dist for any two progress values q ≤ q', clamping included. PARTIAL in two named respects: `hnd` — the bracket of d is non-degenerate when the two brackets differ (a degenerate "
            "bracket returns the earlier vertex; position_lipschitz_gen_float32 / …_degenerate_float32 are the unconditional forms, with the anchor s ≤ d in place of d) — and `ChordBooked` stays a hypothesis on "
            "the curve (discharged for natural lengths with opt = +0 by chordBooked_natural_zero; for osu!-mode Catmull curves the first segment's bound is the hypothesis h0); d' − d is not rewritten as (q' − q)·total",
        "linear_curve_position_err_float32_partial": "Props/C19DecodedLinear.lean (sixth session, wave 9): the hypotheses of the float position theorem hold for the curve the model computes for all-linear "
            "control points without a requested length: linear_path_vertices (every path vertex is a control-point position, any mode / fuel / buffers; optimized_len = 0), natural_lengths_sorted_float (the natural "
            "lengths of a finite path are Sorted, start at 0, are ≥ 0 and aligned with the path), linear_curve_shape, and linear_curve_position_err_float32_partial — position_at(q) of Curve::new(points, None) is "
            "within 1/4 px per coordinate of a point between two consecutive path vertices that are control-point positions. PARTIAL: `hbf` (the f64 total did not overflow) stays a hypothesis — missing is a "
            "range lemma 'sqrt of a finite non-negative double is finite'; the full statement is recorded with path.length ≤ 2^40; the exact-list correspondence with the control polyline and a requested length "
            "(the decoded case) were not attempted",
        "positionAt_progress_err_float32_nofin / segFinite_statement_false": "Props/C19IeeeFinite.lean, Lemmas/FloatErrRange32.lean (sixth session, wave 8): the no-overflow hypothesis `SegFinite` of the position theorems is "
            "DISCHARGED. The statement as first recorded (segFinite_statement) is FALSE: Bounded19 bounds `toRat32`, which is 0 by convention for ±∞ / NaN, so it does not exclude an infinite coordinate "
            "(segFinite_statement_false, kernel witness p0 = (+∞, 0)). With `FinitePos` for the vertices added (segFinite_corrected_statement) it is a theorem, for any finite d1 including f64::MAX: "
            "segFinite_of_bounded (weight_finite: d1 ⊖ d0 and the weight are finite and |w| ≤ 3; coordInterp_finite), from new range lemmas 'no overflow from a bound on the exact value' for f64 ⊕ ⊖, "
            "f32 ⊕ ⊖ ⊗ and the narrowing cast (Lemmas/FloatErrRange32.lean: add/sub_finite_float(_max), add/sub/mul_finite_float32(_max), down_finite_of_lt, down_finite_of_abs_le_one). Hence "
            "positionAt_dist_err_float32_nofin / positionAt_dist_on_polyline_float32_nofin / positionAt_progress_err_float32_nofin: for a curve with sorted lengths starting at 0 with a finite total and finite "
            "Bounded19 vertices, position_at(q) is a vertex or within 1/4 px per coordinate of the exact point of the bracketing segment, with NO finiteness hypothesis about intermediates left. What stays "
            "outside: that a computed curve's lengths are sorted and its vertices Bounded19 (C16's side), and the Lipschitz bound across segments",
        "positionAt_progress_err_float32 / idxOfDist_spec_ieee": "Props/C19IeeeSearch.lean (sixth session, wave 7): the binary search specified from IEEE order facts alone (no arithmetic; generic over IeeeOrd): "
            "idxOfDist_spec_ieee — on a weakly sorted NaN-free list and a non-NaN d the search returns the LAST index holding d on a hit (±0 identified), otherwise the first index whose length exceeds d; "
            "idxOfDist_bracket_float — in range the index brackets d (strictly on both sides, or a hit of the right end; i = 0 only on a hit of lengths[0]; i = n impossible); idxOfDist_below_ieee / _beyond_ieee. "
            "Composed with interpolate_err_float32: positionAt_dist_err_float32 / positionAt_dist_on_polyline_float32 / positionAt_progress_err_float32 — for a curve with sorted lengths and Bounded19 vertices, "
            "position_at(q) itself (through progress_to_dist, idx_of_dist, interpolate_vertices) is a vertex of the path or within interpBound < 1/4 px per coordinate of the exact convex combination on the "
            "bracketing segment: every hypothesis of the interpolation lemma about the bracket is now DERIVED from the search. PARTIAL: the four no-overflow conditions `SegFinite` on the one bracketing "
            "non-degenerate segment stay a hypothesis (segFinite_statement records it; needs 'no overflow from a bound on the exact value' for f32 ⊕ ⊖ ⊗, f64 ⊖ and `as f32`, present in Lemmas/FloatErrRange.lean "
            "only for f64 ⊗ ⊘). Kernel-evaluated on a three-vertex curve (demo_idx: in range, hits, ends, out of range, −0 hitting +0, last duplicate)",
        "interpolate_err_float32 / position_lipschitz_segment_float32": "Props/C19IeeeErr.lean (sixth session, wave 6): the ERROR side of C19 on IEEE floats. interpolate_err_float32 — the position "
            "interpolate_vertices returns inside a non-degenerate segment is within interpBound = 7/32 + 2^-20 px per coordinate of the exact convex combination of the two vertices (seven roundings counted; "
            "coordinates Bounded19; weight in [0,1] derived); segment_length_err_float32 — the booked f32 length of a segment squared is within a factor 1 ± 3·2^-22 of the exact squared chord (floor E ≥ 2^-100: "
            "segment_length_underflow_example shows the relative bound fails when x·x underflows); natural_length_err_float(_linear) — the f64 running sum is within ((1+2^-53)^(n-1) − 1) relative of the exact sum "
            "of booked lengths; position_lipschitz_segment_float32 / position_arc_segment_float32 / chord_le_booked_float — two positions in one segment differ by at most |d−d'|·(1+2^-20) + 2·interpBound per "
            "coordinate. PARTIAL: overflow is excluded by explicit finiteness hypotheses (result coordinates, the f64 weight, d1⊖d0), `d0 ≤ d ≤ d1` is a hypothesis (not derived from idxOfDist), and the additive "
            "slack 2·interpBound does not shrink with |d−d'| (the true behaviour: two roundings of nearby weights can land on different f32 values)",
        "position_at_zero_first / position_at_one_last / position_at_vertex": "proved in exact arithmetic only (PosLaws: lt irreflexive/asymmetric, 0*x=0, 1*x=x, (b-a)/(b-a)=1 for a<b, x*1=x, a+(b-a)=b; instantiated on Rat) and for strictly increasing lengths with consecutive differences above EPSILON; with zero-length segments the position is the start of a coincident run (tested), in IEEE the equalities hold within 1e-6*scale (tested). PosLaws as a whole is FALSE of the driver's instances — kernel-checked: Rosu.IeeeFalse.posLaws_float_false (0 · NaN is NaN; Props/IeeeFalse.lean, audited under C02) — so these vertex-position theorems are vacuous on IEEE",
        "idxOfDist_hit / bsLoop_hit": "the generic forms take PosLaws but use only its order fields lt_irrefl / lt_asymm, which ARE theorems of IEEE `<` (Props/C19Ieee.lean; Lean 4.33's Float is a structure over the logical model Float.Model and `<` reduces in the kernel; Lemmas/FloatModelCompare.lean: FMO.lt_irrefl, FMO.lt_asymm): posLaws_order_float, and bsLoop_hit_ieee / idxOfDist_hit_ieee re-proved for every scalar with IEEE comparisons, idxOfDist_hit_float — on strictly increasing cumulative lengths idx_of_dist finds the index of an exact hit, for IEEE doubles, no hypothesis about the arithmetic (StrictSorted lengths stays a hypothesis on the curve)",
        "position_lipschitz": "proved in exact arithmetic only (ExactArith + NormLaws + the curve invariants listed in level_text; instantiated on Rat with the L1 norm on a concrete 3-vertex curve and on the reals with the Euclidean norm = the model's Pos::distance). NOT proved for IEEE floats (tested by the oracle with float slack 4e-6*scale + 1e-5); ExactArith (the operations are those of an ordered field) is not instantiated for Float and the theorem is about exact arithmetic. The hypotheses are necessary: (a) without NonDegenerate the bound is false in exact arithmetic whenever EPSILON > 0, because interpolate_vertices snaps a segment of booked length <= EPSILON to its start (a jump of up to EPSILON; argued, the counterexample is not machine-checked: path (0,0),(e,0),(1+e,0), lengths 0,e,1+e with e = EPSILON - distance e is answered with (0,0), distance e+1/2 with (e+1/2,0)) - so the old position_lipschitz_statement, kept in Props/C19.lean, is not provable as written; (b) ChordBound is an inequality: the first segment of an osu!-mode Catmull path books optimized_len on top of its chord (F12) and satisfies it; it fails only when the surplus is negative by IEEE rounding (~ -5e-7 observed) and for the NaN end point of F11; that Curve::new establishes ChordBound is proved for curves without a requested length (natLens_chord + C16 surplus_nonneg; natural_curve_lipschitz_real) and NOT for the re-projected last segment of a length-adjusted curve; StrictSorted/NonDegenerate (no zero-length or sub-EPSILON segment) stay hypotheses - they genuinely fail for duplicate vertices, where the code snaps to the start of the coincident run",
    }
    trusted_base = [
        "Lean 4.33.0 kernel",
        "axioms: at most propext, Classical.choice, Quot.sound (audited per theorem with #print axioms)",
        "hand-written model Model/Curve.lean; slice::binary_search_by modelled after the std source of the pinned toolchain and validated by the differential run (indices compared for sorted, unsorted and NaN inputs)",
        "harness/src/curve.rs and the oracle in harness/src/curveprop.rs",
        "idxOfDist_hit_float / posLaws_order_float are about Lean 4.33's logical float model Float.Model (Float is a structure over it, not opaque); that the compiled @[extern] C operations agree with that model is part of "
        "Lean's own trusted code base and is compared with Rust bit for bit (codec requests fop64 / fop32 cmp; every request of this run)",
    ]
    assumptions = [
        "theorems are about the Lean model; model = code is checked on the generated inputs of this run (bit-for-bit)",
        "oracle domain: finite coordinates, finite requested length; position_at(0), position_at(1) and vertex positions compared with float slack 1e-6*scale (position_at(0) is one ulp off the first point when the Catmull surplus booked into lengths[1] is negative by rounding, e.g. -4.8e-7) (p0 + (p1-p0)*1 is not p1 in floats), Lipschitz with slack 4e-6*scale + 1e-5",
        "F11 (NaN end point) makes position_at non-finite: reported as the known finding",
    ]
    nontrivial_rule = ("curves from the C16 generators (zero-length, duplicate-vertex, length-adjusted) x progress values: 0, 1, negatives, > 1, NaN, +-inf, "
                       "subnormals, random, exact vertex fractions; non-trivial = path with >= 2 points")

    def gen(self, rng, tier):
        items = []
        grid = list(itertools.product(range(-3, 4), repeat=2))
        for a in (grid if tier != "quick" else rng.sample(grid, 25)):
            for b in rng.sample(grid, 6):
                for t in g.TYPES:
                    items.append((rng.choice(g.MODES), [(0.0, 0.0, t), (float(a[0]), float(a[1]), None), (float(b[0]), float(b[1]), None)], "grid3"))
        for _ in range(2500 if tier == "quick" else 40000):
            items.append((rng.choice(g.MODES), g.rand_points(rng), "random"))
        for _ in range(60):
            x, y = g.coord(rng), g.coord(rng)
            d = rng.uniform(5.0, 90.0)
            items.append((0, [(x, y, "C"), (x, y, None), (g.f32(x + d), g.f32(y + 1.0), None)], "catmull-doubled-first"))
        items.append((1, [(404.0, -3.0, "P"), (279.0, 148.9139862060547, None), (358.74554443359375, 51.998291015625, None)], "witness-F13"))
        # the last two control points equal as numbers but not bit for bit (+0.0 against -0.0 in a coordinate): the "path ends in
        # two identical points" rule compares numbers (seed C19-k: a bitwise PartialEq for Pos)
        for _ in range(40 if tier == "quick" else 800):
            t = rng.choice(["L", "L", "B", "C"])
            x, y = rng.choice([(100.0, 0.0), (0.0, 50.0), (0.0, 0.0), (float(rng.randint(-50, 300)), 0.0)])
            flip = lambda v: -v if v == 0.0 else v
            items.append((rng.choice(g.MODES), [(float(rng.randint(-5, 5)), float(rng.randint(1, 9)) * 7.0, t), (x, y, None), (flip(x), flip(y), None)], "last-two-equal-signed-zero"))
        # a linear path inside the decoder's coordinate range whose total length exceeds 2^24 (a zig-zag across the whole range) and
        # then continues in half-pixel steps: a running sum kept in single precision absorbs the small segments (seed C19-m)
        for _ in range(3 if tier == "quick" else 40):
            zig = rng.choice([60, 101, 140])
            w = rng.choice([100000.0, 131072.0, 90000.5])
            pts = [((-w if i % 2 == 0 else w), 0.0, "L" if i == 0 else None) for i in range(zig)]
            x = pts[-1][0]
            pts += [(x, 0.5 * (j + 1), None) for j in range(rng.choice([50, 200]))]
            items.append((rng.choice(g.MODES), pts, "zigzag-beyond-2^24"))
        lens = g.natural_lengths(core.run_impl, [(m, p) for m, p, _ in items])
        pre = []
        for (m, pts, tag), cl in zip(items, lens):
            nat = cl[-1] if cl else None
            classes = g.len_classes_nat(rng, nat, cl)
            if tag == "catmull-doubled-first":
                classes = [("tiny", rng.uniform(0.01, 5.0))] + classes
                name, L = classes[0] if rng.random() < 0.7 else rng.choice(classes)
            elif tag == "last-two-equal-signed-zero" and nat and rng.random() < 0.6:
                name, L = "beyond-natural", nat * rng.choice([1.5, 2.0, 1.01])
            else:
                name, L = rng.choice(classes)
            pre.append((m, pts, tag, name, L))
        # exact vertex fractions need the adjusted curve's lengths
        outs = core.run_impl([g.curve_line("curve", m, L, pts) for m, pts, _, _, L in pre])
        cases = []
        for (m, pts, tag, name, L), o in zip(pre, outs):
            obs = g.parse_curve_obs(o)
            qs = g.progress_values(rng, obs[1] if obs else None)
            if len(obs[0]) > 400 if obs else False:
                qs = qs[:20]
            cases.append(Case(g.curve_line("pos", m, L, pts, qs), tags=(tag, "L-" + name)))
        return cases

    def is_nontrivial(self, case, impl_out):
        return impl_out.startswith("ok P=")

    def known(self, case, out, findings):
        if ("nonfinite-path-point" in out) and g.nan_cut_predicate(case.line, core.run_impl):
            for f in findings:
                if f.get("predicate") == "nan_cut":
                    return f["id"]
        if "nonfinite-natural-path" in out and g.ill_conditioned_arc_predicate(case.line):
            for f in findings:
                if f.get("predicate") == "ill_conditioned_arc":
                    return f["id"]
        return None


PROP = C19()
