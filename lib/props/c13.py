import itertools
import struct

from ..runner import Case, Property


def bits(x: float) -> str:
    return "%x" % struct.unpack("<Q", struct.pack("<d", x))[0]


NAN = "7ff8000000000000"     # the only NaN used: Lean's Float.toBits canonicalises NaN sign/payload
PZERO, NZERO = "0", "8000000000000000"

# the alphabet of the property's quantifier: 4 kinds x times {-1,0,1,2} x two values
TIMES = [-1.0, 0.0, 1.0, 2.0]
PROBES = [-2.0, -1.0, -0.5, 0.0, 0.5, 1.0, 1.5, 2.0, 3.0]
VALUES = {
    "T": [bits(500.0), bits(250.0)],
    "D": [bits(1.0) + ":1", bits(2.0) + ":1"],          # the first repeats the default
    "E": ["0:" + bits(1.0), "1:" + bits(1.0)],          # the first repeats the default
    "S": ["1:100:0", "2:50:0"],
}
ALPHA = [f"{k}:{bits(t)}:{v}" for k in "TDES" for t in TIMES for v in VALUES[k]]
PROBE_TOKS = " ".join("?" + bits(t) for t in PROBES)


def op_times(line):
    """bit patterns of every time occurring in a cpops request (operations and lookups)"""
    out = []
    for tok in line.split()[1:]:
        if tok.startswith("?"):
            out.append(tok[1:].lower())
        else:
            f = tok.split(":")
            if len(f) > 1:
                out.append(f[1].lower())
    return out


def both_zeros(line):
    ts = set(op_times(line))
    return PZERO in ts and NZERO in ts


class C13(Property):
    id = "C13"
    lean_module = "RosuModel.Props.C13Full"   # imports Props/C13Exact.lean (→ Props/C13.lean) and Props/C13Ieee.lean; namespace Rosu.C13
    theorem_modules = ['RosuModel.Props.C13Exact', 'RosuModel.Props.C13Ieee']   # files whose top-level theorems are all audited
    namespace = "Rosu.C13"
    design_ref = "5.13"
    level_text = (
        "Lean 4 theorems over the model of ControlPoints::{add, *_point_at} (Model/ControlPoints.lean), for every [Scalar F] "
        "(no arithmetic law is used, so they hold for the IEEE instance) and every history of add calls, unbounded: every list stays "
        "strictly increasing in the total_cmp key (add_sorted, adds_sorted) hence one point per key (one_per_time); each add of a "
        "difficulty/effect/sample point stores it iff it does not repeat the point active at its key (default when none; sample points "
        "always stored when none) (add_not_redundant_*, add_*_eq); each lookup returns the last stored point with key <= the probe key, "
        "with the differing fallbacks before the first point (lookup_spec, before_first_*); an add at a stored key overwrites exactly "
        "that point (replace_at_equal_time*). THE PROPERTY AS WORDED, IN TIMES (Props/C13Exact.lean): under the one hypothesis TimeKeyOn S - on the set S of times "
        "occurring in operations and probes the key order is the time order: key a < key b iff a < b, key a = key b iff a == b, key a <= key b iff a <= b, with the "
        "scalar's own comparisons - for every history of adds with times in S: times_strictly_sorted / adds_time_sorted (each list strictly increasing in TIME), "
        "one_point_per_time (no two stored points with == times), lookup_time_spec / before_first_time (a lookup returns the latest point with time <= probe, "
        "else first point / nothing), add_difficulty_time / add_effect_time / add_sample_time / add_redundant_noop (an add repeating the point active at its TIME, "
        "or the default, is a no-op), replace_at_equal_time_T, all together worded_property. For IEEE f64, TimeKeyOn S holds exactly for the S with no NaN and not both "
        "+0.0 and -0.0. This is now a kernel-checked theorem about the driver's Float (Props/C13Ieee.lean; in Lean 4.33 Float is a structure over the logical model Float.Model, so `<`, `<=`, `==`, isNaN, toBits "
        "reduce; Lemmas/FloatModelOrder.lean shows the model's comparison is the comparison of signed magnitudes of the bit patterns): float_key_lt_iff / float_key_eq_iff / float_key_le_iff, "
        "timeKeyOn_float_iff (TimeKeyOn S iff S contains no NaN and not both zeros), timeKeyOn_float (non-NaN, not -0.0), timeKeyOn_float_no_poszero, timeKeyOn_float_both_zeros_false; the headline theorems "
        "restated at Float with no hypothesis about the arithmetic (times_strictly_sorted_float, one_point_per_time_float, lookup_time_spec_float, before_first_time_float, add_redundant_noop_float, "
        "replace_at_equal_time_T_float, worded_property_float, worded_property_float_no_poszero, worded_property_float_of, lists_strictly_sorted_time_float for decoded [TimingPoints] lines); and finding F8 "
        "replayed on Float in the kernel (f8_float: add(+0.0); add(-0.0) stores two timing points with == times; f8_float_one_zero: with one zero the second replaces the first) - so on NaN-free histories "
        "F8 is the ONLY way the worded property fails. (Also on a toy scalar with two zeros: timeKeyOn_zz_no_negzero, timeKeyOn_zz_both_zeros_false.) Not proved: TimeKeyOn for Float32. timeKeyOn_of_exact derives it from ExactScalar "
        "(Lemmas/ExactArith.lean) + 'the key is strictly monotone on S' (instances: the integers inside Rat, all of the toy Z); no_global_time_key proves that "
        "ExactScalar excludes a key monotone on ALL values (Q does not embed in Z), which is why the hypothesis is relative to S. The global reading 'no stored point repeats its predecessor' is proved false for "
        "out-of-order histories and for repeated times, and true for strictly increasing histories. The theorems speak of keys; the "
        "property speaks of times: the two differ exactly at +0.0/-0.0 (finding F8, f8_two_points). Model tied to the code on every run "
        "by driving the public add/lookup API and the model on the same operation sequences (exhaustive short histories over the "
        "property's alphabet + random long ones incl. +-0, inf, NaN times); an independent linear-scan reference that orders by time "
        "(<, ==) is evaluated on the implementation for the failing-input search.")
    technique = "Lean 4 proof (induction over operation histories and sorted lists) + differential correspondence on the public collection API"
    required_theorems = [
        "add_sorted", "add_sorted_timing", "add_sorted_difficulty", "add_sorted_effect", "add_sorted_sample",
        "adds_sorted", "one_per_time",
        "add_not_redundant_difficulty", "add_not_redundant_effect", "add_not_redundant_sample",
        "add_difficulty_eq", "add_effect_eq", "add_sample_eq", "add_timing_stored",
        "lookup_spec", "before_first_timing_sample", "before_first_difficulty_effect",
        "replace_at_equal_time", "replace_at_equal_time_difficulty", "replace_at_equal_time_effect",
        "replace_at_equal_time_sample", "f8_two_points", "searchKey_bound",
        "global_no_adjacent_redundancy_false", "repeated_time_adjacent_redundancy",
        "chronological_no_adjacent_redundancy", "chrono_step", "adjFree_append",
        # Props/C13Exact.lean: the property in times
        "sortedByTime_of_key", "unique_time", "lastLE_eq_time", "replace_pred_eq", "timesIn_apply", "timesIn_applyOps", "reach_adds",
        "times_strictly_sorted", "adds_time_sorted", "one_point_per_time", "lookup_time_spec", "before_first_time",
        "add_difficulty_time", "add_effect_time", "add_sample_time", "add_redundant_noop", "replace_at_equal_time_T", "worded_property",
        "timeKeyOn_of_exact", "no_global_time_key", "timeKeyOn_z", "timeKeyOn_zz_no_negzero", "timeKeyOn_zz_both_zeros_false",
        "timeKeyOn_rat_integers",
        # Props/C13Ieee.lean: TimeKeyOn characterised for the driver's Float; the worded property and F8 at Float
        "float_key_lt_iff", "float_key_eq_iff", "float_key_le_iff", "timeKeyOn_float_of", "timeKeyOn_float_both_zeros_false",
        "timeKeyOn_float_nan_false", "timeKeyOn_float_iff", "timeKeyOn_float", "timeKeyOn_float_no_poszero",
        "times_strictly_sorted_float", "adds_time_sorted_float", "one_point_per_time_float", "lookup_time_spec_float", "before_first_time_float",
        "add_redundant_noop_float", "replace_at_equal_time_T_float", "worded_property_float", "worded_property_float_no_poszero",
        "worded_property_float_of", "lists_strictly_sorted_time_float", "f8_float", "f8_float_one_zero",
    ]
    partial_theorems = {
        "adds_sorted / times_strictly_sorted / worded_property":
            "adds_sorted is by the total_cmp key and holds for IEEE. The property as worded (time order, one point per time, lookups and redundancy by time) is "
            "proved under TimeKeyOn S (key order = time order on the times that occur); IEEE f64 violates that hypothesis exactly when S contains a NaN or both "
            "+0.0 and -0.0 — now a kernel-checked theorem about the driver's Float: timeKeyOn_float_iff (Props/C13Ieee.lean, from Lemmas/FloatModelOrder.lean) — so 'at most one point per time' fails on "
            "histories containing both zeros (finding F8, reported by the implementation-level oracle and replayed in the kernel on Float: f8_float) and nowhere else among NaN-free histories: "
            "worded_property_float (times not NaN and not -0.0), worded_property_float_no_poszero, worded_property_float_of (any NaN-free set without both zeros) hold with no hypothesis about the arithmetic. "
            "These are theorems about Lean's logical float model Float.Model with the key f64TotalKey of Model/FloatInst.lean; that this key is the order of Rust's f64::total_cmp stays in the trusted base "
            "(compared on every `cpops` request). TimeKeyOn for Float32 is not proved",
    }
    trusted_base = [
        "Lean 4.33.0 kernel",
        "axioms: at most propext, Classical.choice, Quot.sound (audited per theorem with #print axioms)",
        "hand-written model Model/{Scalar,Basic,ControlPoints}.lean tied to /repo by the differential run of this check",
        "std: slice::binary_search_by returns the unique hit / the insertion point on a slice strictly sorted w.r.t. the comparator "
        "(documented contract; modelled by the linear scan `searchKey`; adds_sorted shows the precondition holds on every reachable collection)",
        "std: f64::total_cmp is the order of the integer key `totalKey` (sign-magnitude bits); Vec::insert / index assignment",
        "the *_float theorems are about Lean 4.33's logical float model Float.Model (Float is a structure over it, not opaque; comparisons, isNaN, toBits reduce in the kernel); that the compiled @[extern] C double "
        "operations the driver runs agree with that model is part of Lean's own trusted code base and is compared with Rust bit for bit (codec requests fop64 / fop32 cmp etc., and every `cpops` request of this run); "
        "a model value only ever holds the canonical NaN, so NaN sign/payload are not observable through Float.toBits",
    ]
    assumptions = [
        "theorems are about the Lean model; the model is compared with the implementation only on the generated histories of this run",
        "collections are only built through ControlPoints::add from the empty collection (the fields are public: a caller who writes an "
        "unsorted Vec into them is outside the property and outside binary_search's contract)",
        "NaN times: only the canonical quiet NaN 0x7ff8000000000000 is generated (negative / payload NaNs are ordered differently by total_cmp and "
        "cannot be represented by the Lean driver); the implementation-level oracle skips histories with NaN times (time order undefined)",
    ]
    nontrivial_rule = ("operation histories over the property's alphabet (exhaustive to a bounded length, random beyond) with lookups at "
                       "probe times before, between, at and beyond the stored times; non-trivial = at least one point stored")

    def gen(self, rng, tier):
        cases = []
        kmax = 4        # 32 + 32^2 + 32^3 + 32^4 = 1.08 M histories, each followed by the 9 probe lookups
        for k in range(0, kmax + 1):
            for combo in itertools.product(ALPHA, repeat=k):
                cases.append(Case("cpops " + " ".join(combo + (PROBE_TOKS,)), tags=(f"exhaustive-len{k}",)))
        # one kind at a time, longer (the four lists evolve independently)
        for k in ([5] if tier == "quick" else [5, 6]):
            for kind in "TDES":
                sub = [a for a in ALPHA if a.startswith(kind)]
                for combo in itertools.product(sub, repeat=k):
                    cases.append(Case("cpops " + " ".join(combo + (PROBE_TOKS,)), tags=(f"exhaustive-onekind-len{k}",)))
        if tier != "quick":
            # all kinds, length 5, over the times {0, 1} (16^5 = 1.05 M)
            sub = [a for a in ALPHA if a.split(":")[1] in (bits(0.0), bits(1.0))]
            for combo in itertools.product(sub, repeat=5):
                cases.append(Case("cpops " + " ".join(combo + (PROBE_TOKS,)), tags=("exhaustive-2times-len5",)))
        # timing points whose every payload field varies (beat length, omit-first-bar-line, signature), over three times
        tvar = [f"T:{bits(t)}:{bits(b)}:{o}:{n}" for t in (0.0, 1.0, 2.0) for (b, o, n) in ((500.0, 0, 4), (500.0, 1, 4), (250.0, 1, 3), (500.0, 0, 3))]
        for k in (2, 3, 4) if tier == "quick" else (2, 3, 4, 5):
            for combo in itertools.product(tvar, repeat=k):
                cases.append(Case("cpops " + " ".join(combo + (PROBE_TOKS,)), tags=("exhaustive-timing-payload",)))
        # difficulty / effect points whose values are different doubles closer than f64::EPSILON (0.75 and its successor, 1 and its
        # predecessor): "merely repeats" is |a - b| < EPSILON, also against the implicit default (seed C13-j)
        near = [f"D:{bits(t)}:{bits(v)}:1" for t in (0.0, 1.0) for v in (0.75, 0.7500000000000001, 1.0, 0.9999999999999999)]
        near += [f"E:{bits(t)}:1:{bits(v)}" for t in (0.0, 1.0) for v in (0.75, 0.7500000000000001)] + [f"E:{bits(1.0)}:0:{bits(0.9999999999999999)}"]
        for k in (1, 2, 3):
            for combo in itertools.product(near, repeat=k):
                cases.append(Case("cpops " + " ".join(combo + (PROBE_TOKS,)), tags=("exhaustive-near-equal-values",)))
        # points built as struct literals (public fields): volumes / velocities the constructors would have clamped; "merely repeats" compares
        # the STORED values (seed C13-p: is_redundant on the clamped volume)
        raw = [f"RS:{bits(t)}:{b}:{v}:0" for t in (0.0, 1.0, 2.0) for (b, v) in ((2, 100), (2, 150), (2, 101), (2, 0), (2, -20), (1, 100), (1, 2147483647))]
        raw += [f"S:{bits(t)}:2:{v}:0" for t in (0.0, 1.0) for v in (100, 0)]
        for k in (1, 2, 3):
            for combo in itertools.product(raw, repeat=k):
                cases.append(Case("cpops " + " ".join(combo + (PROBE_TOKS,)), tags=("exhaustive-raw-sample-points",)))
        rawd = [f"RD:{bits(t)}:{bits(v)}:{g}" for t in (0.0, 1.0, 2.0) for (v, g) in ((1.0, 1), (10.0, 1), (20.0, 1), (10.000000000000002, 1), (0.1, 1), (0.05, 1), (0.0, 0), (-3.0, 1))]
        rawd += [f"D:{bits(t)}:{bits(v)}:1" for t in (0.0, 1.0) for v in (10.0, 0.1)]
        for k in (1, 2, 3):
            for combo in itertools.product(rawd, repeat=k):
                cases.append(Case("cpops " + " ".join(combo + (PROBE_TOKS,)), tags=("exhaustive-raw-difficulty-points",)))
        # LONG lists (20-60 distinct times) and then adds at already occupied times, near the end, in the middle and at the front, with
        # lookups everywhere: anything that treats the newest points specially shows only beyond its window (seed C13-s: a 16-point window
        # whose replace arm forgot the offset)
        for _ in range(40 if tier == "quick" else 1500):
            n = rng.choice([17, 18, 20, 33, 40, 60])
            times = [float(100 * i) for i in range(n)]
            kind = rng.choice("TDES")
            def tok(k, t, alt):
                if k == "T":
                    return f"T:{bits(t)}:{bits(300.0 if alt else 500.0)}"
                if k == "D":
                    return f"D:{bits(t)}:{bits((4.0 if alt else 2.0) if int(t / 100) % 2 else (3.0 if alt else 0.5))}:1"
                if k == "E":
                    return f"E:{bits(t)}:{(int(t / 100) + (1 if alt else 0)) % 2}:{bits(1.0)}"
                return f"S:{bits(t)}:{1 + (int(t / 100) + (1 if alt else 0)) % 3}:{40 + int(t / 100) % 50}:0"
            toks = [tok(kind, t, False) for t in times]
            if rng.random() < 0.3:
                rng.shuffle(toks)
            for _ in range(rng.choice([1, 2, 4])):
                i = rng.choice([n - 1, n - 2, n - 5, n - 16, n - 17, n // 2, 0, 1, rng.randrange(n)])
                toks.append(tok(kind, times[i], True))
                toks += ["?" + bits(times[j]) for j in sorted({i, max(0, i - 1), min(n - 1, i + 1), n - 1, n - 5 if n > 5 else 0})]
            toks += ["?" + bits(t + 50.0) for t in times[::3]] + ["?" + bits(-1.0)]
            cases.append(Case("cpops " + " ".join(toks), tags=("long-list-replace",)))
        # timing points a whole number of bars after the active one, with the same beat length and meter: every timing point is stored (only
        # difficulty / effect / sample points can "merely repeat"; seed C13-v: a bar-aligned restatement treated as redundant)
        tb = [f"T:{bits(t)}:{bits(b)}:{o}:{n}" for t in (0.0, 1000.0, 2000.0, 3000.0, 7000.0) for (b, o, n) in ((500.0, 0, 4), (250.0, 0, 4), (500.0, 0, 3), (500.0, 1, 4))]
        bar_probes = " ".join("?" + bits(t) for t in (-1.0, 0.0, 500.0, 1000.0, 2000.0, 2500.0, 3000.0, 7000.0, 8000.0))
        for k in (2, 3):
            for combo in itertools.product(tb, repeat=k):
                cases.append(Case("cpops " + " ".join(combo + (bar_probes,)), tags=("exhaustive-bar-aligned-timing",)))
        # F8 witnesses and neighbours
        for a, b in [(PZERO, NZERO), (NZERO, PZERO), (PZERO, PZERO), (NZERO, NZERO)]:
            for kind in "TDES":
                v = VALUES[kind]
                cases.append(Case(f"cpops {kind}:{a}:{v[1]} {kind}:{b}:{v[0]} ?{a} ?{b} {PROBE_TOKS}", tags=("zeros",)))
        # random long histories
        n_rand = 20000 if tier == "quick" else 400000
        eps = 2.220446049250313e-16
        for _ in range(n_rand):
            pool = [bits(float(rng.randint(-3, 6))) for _ in range(rng.randint(1, 5))]
            pool += [bits(rng.uniform(-50, 50)) for _ in range(rng.randint(0, 4))]
            pool += [bits(rng.randint(-8, 8) / 4.0) for _ in range(rng.randint(0, 3))]
            special = rng.random()
            tags = ["random"]
            if special < 0.15:
                pool += [PZERO, NZERO]
            elif special < 0.25:
                pool += [PZERO]
            elif special < 0.35:
                pool += [NZERO]
            elif special < 0.45:
                pool += [bits(float("inf")), bits(float("-inf")), bits(1e308), bits(5e-324), bits(-5e-324)]
            elif special < 0.52:
                pool += [NAN]
            elif special < 0.6:
                t = rng.uniform(-5, 5)
                pool += [bits(t), bits(t + eps), bits(t * (1 + eps)), bits(t - 1e-9)]
            toks = []
            for _ in range(rng.choice([2, 3, 5, 8, 13, 21, 34, 60])):
                t = rng.choice(pool)
                r = rng.random()
                if r < 0.1:
                    toks.append(f"T:{t}:{bits(rng.choice([500.0, 250.0, 1.0, 0.0, -100.0, 1e9, float('inf'), 6.0, 60000.0, 5.999, float('nan')]))}")
                elif r < 0.2:   # every payload field of a timing point varies: beat length, omit-first-bar-line, signature
                    toks.append(f"T:{t}:{bits(rng.choice([500.0, 500.0, 250.0, 400.0]))}:{rng.choice('01')}:{rng.choice([4, 4, 3, 7, 1])}")
                elif r < 0.45:
                    # 0.75 / its successor and 1 - eps/2 / 1: different doubles closer than f64::EPSILON (only possible below 1.0) - the redundancy
                    # test is |a - b| < EPSILON, not == (seed C13-j)
                    sv = rng.choice([1.0, 1.0, 2.0, 1.0 + eps / 2, 1.0 + 2 * eps, 0.05, 0.1, 10.0, 20.0, float("nan"), 0.75, 0.75, 0.7500000000000001,
                                     0.9999999999999999, 0.5, 0.5000000000000001, rng.uniform(0, 12)])
                    toks.append(f"D:{t}:{bits(sv)}:{rng.choice('1110')}")
                elif r < 0.65:
                    sc = rng.choice([1.0, 1.0, 1.0, 2.0, 1.0 + eps / 2, 0.01, float("nan"), 0.75, 0.7500000000000001, 0.9999999999999999, rng.uniform(0, 12)])
                    toks.append(f"E:{t}:{rng.choice('01')}:{bits(sc)}")
                elif r < 0.85:
                    toks.append(f"S:{t}:{rng.choice([0, 1, 1, 2, 3])}:{rng.choice([100, 100, 50, 0, -5, 101, 150, 2147483647, -2147483648])}:{rng.choice([0, 0, 1, 2, -1])}")
                elif r < 0.9:
                    toks.append(f"RS:{t}:{rng.choice([0, 1, 2, 3])}:{rng.choice([100, 150, 101, 0, -5, -20, 50, 2147483647, -2147483648])}:{rng.choice([0, 0, 1, 2])}")
                elif r < 0.93:
                    toks.append(f"RD:{t}:{bits(rng.choice([1.0, 10.0, 20.0, 0.05, 0.1, 0.0, -1.0, 1e300]))}:{rng.choice('110')}")
                else:
                    toks.append("?" + rng.choice(pool + [bits(rng.uniform(-60, 60))]))
            for t in rng.sample(pool, min(len(pool), 4)):
                toks.append("?" + t)
            line = "cpops " + " ".join(toks)
            ts = op_times(line)
            if NAN in ts:
                tags.append("nan-time")
            if both_zeros(line):
                tags.append("both-zeros")
            cases.append(Case(line, tags=tags))
        return cases

    def is_nontrivial(self, case, impl_out):
        return not impl_out.startswith("T=- D=- E=- S=-")

    def known(self, case, out, findings):
        # F8: the history contains both +0.0 and -0.0 as times (operations or lookups)
        if any(f["id"] == "F8" for f in findings) and case.line.startswith("cpops ") and both_zeros(case.line):
            return "F8"
        return None

    def shrink(self, case, still_fails):
        toks = case.line.split()
        head, ops = toks[0], toks[1:]
        changed = True
        while changed and len(ops) > 1:
            changed = False
            for i in range(len(ops)):
                cand = ops[:i] + ops[i + 1:]
                c = Case(head + " " + " ".join(cand), tags=case.tags)
                if still_fails(c):
                    ops = cand
                    changed = True
                    break
        return Case(head + " " + " ".join(ops), tags=case.tags)


PROP = C13()
