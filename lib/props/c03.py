import struct

from ..filegen import small_bundled
from ..gen import hexs
from ..osugen import gen_map
from ..runner import Case, Property

TEXTS = ["Re:Zero", "a // b", "//lead", "x: y: z", "[General]", "osu file format v9", "日本語 タイトル", "quote\"d\"", "comma, separated", "Ĉirkaŭ 上 ਊ 𐐊",
         "tab\tinside", "[HitObjects]", "0,0,0,1,0", "key:value:more", "a", "trailing:", ":leading", "100%", "back\\slash", "A  B",
         # characters a Debug / escape-based formatter would rewrite (seed C03-k): combining marks (NFD spellings), ZWJ sequences,
         # soft hyphen, zero-width space, a BOM and a no-break space INSIDE the text, control characters, quotes and apostrophes
         "Cafe\u0301 del Mar", "か\u3099き", "👩\u200d👩\u200d👧", "soft\u00adhyphen", "zero\u200bwidth", "in\ufeffside", "no\u00a0break", "bell\x07x", "it's \"so\"", "\u202eRTL"]
FILES = ["audio.mp3", "dir/sub/a.ogg", "with space.mp3", "colon:name.mp3", "ünï.ogg", "a[1].mp3", "x.MP4", "a", "mp3", "0", "1.5", "-1",
         "Cafe\u0301.mp3", "か\u3099.ogg", "soft\u00adhyphen.mp3", "it's \"so\".mp3", "bell\x07.ogg",
         # an AUDIO name is written bare and read back bare: quotes at its ends are part of it (seed C03-q: the event-style clean-up applied to it)
         "\"Heroes\" (live).mp3", "audio/take 2 \"final\"", "\"", "\"a\"", "\"\"x", "'single'"]
BGS = ["bg.jpg", "dir/bg.png", "with space.png", "colon:bg.png", "日本.jpg", "a.b.c.jpeg",
       # short names and names that end like a video (the Video event has an extension rule; a Background event has none)
       "bg", "a", "ab", "cover.AVI", "intro.mp4", "x.mov", "clip.flv", "m.mpg", "w.wmv", "v.m4v", "mp4", ".avi", "日本.MP4",
       # names a Debug-style quoting of the file name would escape (seed C03-k)
       "Cafe\u0301 del Mar.jpg", "か\u3099.png", "the \"real\" one.jpg", "soft\u00adhyphen.png", "zero\u200bwidth.jpg", "👩\u200d👧.png", "bell\x07.png", "it's.jpg"]


def f64h(x):
    return format(struct.unpack(">Q", struct.pack(">d", x))[0], "x")


def f32h(x):
    return format(struct.unpack(">I", struct.pack(">f", x))[0], "x")


def one_edit(rng):
    k = rng.choice(["text", "text", "text", "file", "bg", "id", "int", "f64", "f32", "flag", "mode", "countdown", "bookmarks", "breaks", "combo", "custom", "clamped"])
    if k == "text":
        return f"{rng.choice(['title', 'title_unicode', 'artist', 'artist_unicode', 'creator', 'version', 'source', 'tags'])}={hexs(rng.choice(TEXTS).encode())}"
    if k == "file":
        return f"audio_file={hexs(rng.choice(FILES).encode())}"
    if k == "bg":
        return f"background_file={hexs(rng.choice(BGS).encode())}"
    if k == "id":
        return f"{rng.choice(['beatmap_id', 'beatmap_set_id', 'countdown_offset'])}={rng.choice([1, 2, 123456, 2147483647, rng.randint(1, 10**9)])}"
    if k == "int":
        return f"{rng.choice(['preview_time', 'beat_divisor', 'grid_size'])}={rng.choice([0, -1, 1, 16, -2147483647, 2147483647, rng.randint(-10**6, 10**6)])}"
    if k == "f64":
        return f"{rng.choice(['distance_spacing', 'timeline_zoom'])}={f64h(rng.choice([0.0, 1.0, 0.1, 2.5, -3.25, 1e-7, 123456.789, 2147483647.0, -2147483647.0, 5e-324, rng.uniform(-1000, 1000)]))}"
    if k == "f32":
        return f"{rng.choice(['stack_leniency', 'hp_drain_rate', 'circle_size', 'overall_difficulty', 'approach_rate'])}={f32h(rng.choice([0.0, 0.7, 5.0, 9.3, 10.0, -1.5, 1e-7, 2147483648.0, rng.uniform(0, 10)]))}"
    if k == "clamped":
        f = rng.choice(["slider_multiplier", "slider_tick_rate"])
        lo, hi = (0.4, 3.6) if f == "slider_multiplier" else (0.5, 8.0)
        return f"{f}={f64h(rng.choice([lo, hi, (lo + hi) / 2, 1.4, 1.7999999523162842, rng.uniform(lo, hi)]))}"
    if k == "flag":
        return f"{rng.choice(['letterbox_in_breaks', 'widescreen_storyboard', 'epilepsy_warning', 'samples_match_playback_rate'])}={rng.choice([0, 1])}"
    if k == "mode":
        return f"mode={rng.randint(0, 3)}"
    if k == "countdown":
        return f"countdown={rng.randint(0, 3)}"
    if k == "bookmarks":
        n = rng.randint(0, 5)
        return "bookmarks=" + (",".join(str(rng.choice([0, -5, 2147483647, -2147483648, rng.randint(0, 300000)])) for _ in range(n)) if n else "-")
    if k == "breaks":
        n = rng.randint(0, 3)
        bs = []
        for _ in range(n):
            a = rng.choice([0.0, 1000.0, 12345.5, -50.0, rng.uniform(0, 1e5)])
            bs.append(f"{f64h(a)}:{f64h(a + rng.choice([0.0, 650.0, 1000.5, 1e4]))}")
        return "breaks=" + (",".join(bs) if bs else "-")
    if k == "combo":
        n = rng.choice([0, 1, 2, 3, 5, 8, 9, 10, 12, 20])
        return "combo_colors=" + (",".join(f"{rng.randint(0, 255)}.{rng.randint(0, 255)}.{rng.randint(0, 255)}.255" for _ in range(n)) if n else "-")
    # names that begin like the lines other osu! readers skip or treat specially (`_`, `-`, digits, `osu file format`, a section name):
    # in this crate every trimmed name without `:` is a key like any other (seed C03-p: should_skip_line skipping `_…` lines)
    name = rng.choice(["SliderBorder", "SliderTrackOverride", "My Colour", "x/y", "[Colours]", "naïve", "_editor_selection", "_border", "_", "-x", "0", "osu file format v9",
                       "combo1", "Sprite", "General", "[x", "x]", "a_b", "#fff", "!", "日本"])
    return f"custom_color={hexs(name.encode())}={rng.randint(0, 255)}.{rng.randint(0, 255)}.{rng.randint(0, 255)}.255"


class C03(Property):
    id = "C03"
    lean_module = "RosuModel.Props.C03Full"   # imports Props/C03Edit.lean → Props/C03All.lean (Props/C03Frame.lean → Props/C03.lean, Props/C03File.lean); all in namespace Rosu.C03
    theorem_modules = ['RosuModel.Props.C03Decoded', 'RosuModel.Props.C03DecodedIeee']   # files whose top-level theorems are all audited
    namespace = "Rosu.C03"
    design_ref = "5.3"
    required_theorems = ["title_line_sets_title", "artist_line_sets_artist", "edit_survives_metadata", "edit_frame_metadata",
                         "edit_survives_colours", "edit_frame_colours", "edit_survives_editor", "edit_frame_editor",
                         "edit_survives_difficulty", "edit_frame_difficulty", "edit_survives_events", "edit_frame_events",
                         "edit_survives_general", "edit_frame_general", "edit_survives_records",
                         "encode_objects_depends_only_on", "encode_timing_depends_only_on", "encode_ok_of_same_list_inputs",
                         "decode_block_independent_state", "decode_block_independent", "edit_frame_objects", "edit_frame_objects_maps",
                         "frameEdit_metadata", "frameEdit_editor", "frameEdit_colors", "frameEdit_general", "frameEdit_difficulty",
                         "frameEdit_background", "FrameEdit.trans",
                         "list_blocks_shape", "edit_frame_objects_rep", "edit_frame_objects_maps_rep", "repMap_of_frameEdit", "toyEdited_frameEdit", "toyEdited_rep",
                         # Props/C03Edit.lean: the edits as a type
                         "Edit.decRepresentable", "fields_complete", "setCustomColor_keeps_customs", "setCustomColor_keeps_nodup", "setCustomColor_keeps_alpha",
                         "edit_keeps_rep", "edit_keeps_opaque", "edits_keep_rep", "edits_keep_opaque", "edit_shows_value", "edit_leaves_field",
                         "edits_leave_field", "edits_show_value", "frameEdit_applyEdit", "frameEdit_applyEdits",
                         # Props/C03Decoded.lean: every decoded map
                         "mapView_of_finish", "decoded_rep", "encode_ok_of_blocks", "repRecords_of_upToDS", "noDoubleSlash_of_rep", "upToDS_of_decInv",
                         "edit_keeps_upToDS", "edits_keep_upToDS", "edits_keep_rep_decoded", "f16_decodesTo", "f16_hasDS", "f16_repaired", "edits_survive_decoded", "edit_survives_decoded",
                         "edits_frame_decoded", "edit_frame_decoded", "edits_roundtrip_decoded_rep",
                         "decodedSample_decodesTo", "sampleEdits_representable", "sampleEdited_survives", "sampleReread_eq",
                         "sample2_decodesTo", "sample2_finishes", "sample2_timing", "sample2_objects_rep", "sample2Edits_representable",
                         "sample2_reread_texts", "sample2_reread_numbers", "sample2_reread_lists"]
    partial_theorems = {
        "edit_survives_editor / _difficulty / _events / _general / _records (and the matching edit_frame_*)":
            "law-dependent: proved for every number codec satisfying CodecLaws (+ IntPrintLaw for AudioLeadIn), shown satisfiable by Lemmas/ToyCodec.lean; CodecLaws is now also a theorem "
            "for the model's IEEE codec (C02: parseBits_printBits_f64/_f32, printBits_clean) and, since Lean 4.33's Float is a structure over the logical model Float.Model, for the driver's Float / Float32 "
            "instances with no runtime hypothesis (C02.codecLaws_float_ieee, C02.codecLaws_float32_ieee; the former bit-cast hypotheses are the theorems C02.floatBitsLaw / C02.float32BitsLaw); IntPrintLaw "
            "likewise (C02: printBits_intBits_f64, C02.intPrintLaw_float_ieee via C02.floatOfIntLaw). So the hypotheses of these theorems are theorems for Float / Float32 and the statements for the "
            "running instance are obtained by instantiation; no `_float` corollary is stated in the C03 files. Not proved: that Rust's Display/FromStr equal the model codec (tested by lib/codecgen.py). edit_survives_metadata / edit_frame_metadata (ten fields, any text that is its own trim without line feed — colons, `//`, brackets, header- and "
            "version-like text, the empty text; positive ids) and the colours theorems need no law",
        "edit_survives_* / edit_frame_* are section level": "an edit replaces a section record by a representable record; the block the encoder writes for it reads back as exactly that record, and "
            "any observation the edit did not change reads as for the unedited record. edit_survives_records lifts this to the file (encode, bytes, reader, framing, Beatmap decoder) "
            "for the record fields, assuming only the shape of the [TimingPoints]/[HitObjects] blocks",
        "edit_frame_objects / edit_frame_objects_maps (timing and hit-object views)":
            "now a theorem, conditional like edit_survives_records: for every lawful number codec (CodecLaws + IntPrintLaw, satisfiable: Lemmas/ToyCodec.lean, concrete example "
            "`frameSample_map` / `frameSample_edited` in Props/C03Frame.lean), representable record sections before and after the edit, and the [TimingPoints]/[HitObjects] blocks of the "
            "UNEDITED map being LF-free record lines (RtFile.ListBlockShape — the open part of C04, `C04.list_block_lines_accepted_statement`; nothing is assumed of the edited map's "
            "blocks). Edit = FrameEdit m m': anything that leaves format version, mode, slider multiplier, slider tick rate, breaks, control points and hit objects as they were "
            "(metadata, editor, colours, background file, other general and difficulty fields; multi-field edits by FrameEdit.trans). Conclusion: encoding the edited map succeeds "
            "whenever encoding the unedited one does; both texts are read back without I/O error; the two decoder states agree on hit objects, pending group and control points; "
            "finalisation gives the same hit objects and control points or fails identically. Excluded on purpose: mode, slider multiplier, slider tick rate, breaks (the decoder / "
            "encoder propagate them into objects and timelines). The older `def edit_frame_objects_statement` (lengths only, no representability or shape hypothesis) stays in "
            "Props/C03.lean as a statement; its unconditional form needs the list-block shape from C04 — supplied for RepMap maps by edit_frame_objects_rep",
        "edit_frame_objects_rep / edit_frame_objects_maps_rep / repMap_of_frameEdit":
            "edit_frame_objects with the ListBlockShape assumption DISCHARGED (Props/C03File.lean): for an unedited map satisfying RepMap (Lemmas/RepMap.lean: RtFile.RepRecords + "
            "RtTiming.RepTimingMap + every hit object SliderRt.RepObject) the shape of the [TimingPoints] block is C04.timing_block_shape and that of the [HitObjects] block "
            "C04.hitobjects_block_accepted (list_blocks_shape), so the frame clause holds with hypotheses: MapLaws (CodecLaws for both float types, IntPrintLaw, SliderRt.CoordLaws), RepMap m, "
            "RepRecords m', FrameEdit m m', encode m = ok t — nothing else. repMap_of_frameEdit: the edited map satisfies RepMap again (a FrameEdit leaves everything the list-block "
            "predicates and collect_samples read alone), so C04.encoded_file_accepted and C02.roundtrip_rep_partial apply to it too. Non-vacuity: C04.toyMap (toy codec; two timing points, "
            "inherited lines, circle, two-segment slider, spinner, hold) and toyEdited (title, preview time, HP drain, background, colours, bookmarks edited). Still conditional: that a "
            "DECODED map satisfies RepMap is not a theorem (false in general: F17, F18, F20)",
        "edits_survive_decoded / edit_survives_decoded / edits_frame_decoded / edit_frame_decoded / edits_roundtrip_decoded_rep (the property's own quantifier: every DECODED map, every representable edit)":
            "Props/C03Edit.lean + Props/C03Decoded.lean. `Edit F P` has one constructor per field the `edit` request sets (37: ten metadata fields, audio / background file, "
            "preview time, countdown offset, beat divisor, grid size, audio lead-in, the nine floats, five flags, mode, countdown, bookmarks, breaks, combo colours, one custom colour by "
            "name — the driver's Model/Cmds/Whole.lean:applyEdit agrees by rfl on sample requests); `Edit.Representable` is the per-field wording of the property and is DECIDABLE "
            "(metadata text: own trim, no LF; audio name: + no `//`, no backslash; background: empty or no comma / LF / backslash / `//` / outer quote; integers within +-(2^31-1), "
            "ids and countdown offset positive; floats within the limit, not NaN, slider multiplier / tick rate inside the clamp as f64::clamp tests it; breaks with max(start,end)=end; "
            "colours byte-sized with alpha 255; custom names trimmed, without `:`, LF, `//`, not starting with Combo). edit_keeps_rep: such an edit keeps RtFile.RepRecords (per field). "
            "`DecodesTo bytes m` = the Beatmap decoder reads ANY byte string and its finaliser yields m; RepRecords of m is no longer assumed: it follows from the Decoded invariant "
            "(C04.decoded_records_representable). Conclusions: encoding the edited map succeeds as soon as its two list blocks are written; the text decodes without I/O error; the "
            "record view of the new state (and of the finalised map, whenever finalisation succeeds) is exactly the preserved view of the edited map; for each edit that no later edit "
            "of the sequence touches, its field shows exactly its value (`Edit.shown`: the value; special_style as far as the format carries it = in mania; a custom colour as the list "
            "with that name set); every one of the 41 record fields (`fields_complete`: they are the whole record view) that no edit touches reads as in the UNEDITED round trip "
            "(edit_leaves_field is law-free and holds for every edit; a mode edit also touches special_style). For frame edits (all but mode / slider multiplier / tick rate / breaks) "
            "edits_roundtrip_decoded_rep adds the hit-object / control-point frame (same object view, same finalised hit objects and control points or the same failure) and needs no "
            "shape hypothesis. REMAINING HYPOTHESES, none of which is about the record sections of the decoded map: (1) codec side — CodecLaws / IntPrintLaw (now theorems for the driver's Float / Float32 with no "
            "hypothesis: C02.codecLaws_float_ieee, C02.codecLaws_float32_ieee, C02.intPrintLaw_float_ieee), ConstFacts (closed facts about the decoder's eight constants; now a theorem for "
            "Float / Float32, C04.constFacts_float, proved by `decide +kernel` — formerly only a #guard test), FloatsRep m and Edit.CodecRep e (the codec represents the map's / the edit's float values: `Display` then `FromStr` returns them), in "
            "edits_roundtrip_decoded_rep also SliderRt.CoordLaws (MapLaws); (2) NoDoubleSlash — finding F16, a decoded file name can contain `//`: edits_survive_decoded asks it of the EDITED map only "
            "(edits_keep_rep_decoded: a decoded map is representable up to `//` in its names, RepUpToDS, and a name edit installs a clean name — f16_repaired: `AudioFilename: a\\\\b.mp3` "
            "decodes to `a//b.mp3`, violates NoDoubleSlash, and the edit audio_file := `a/b.mp3` is covered); the frame clauses compare with the unedited round trip and ask it of the "
            "decoded map; (3) the two LIST blocks — edits_survive_decoded / edits_frame_decoded assume, "
            "for the edited (and for the frame clause also the unedited) map, that encodeTimingPoints / encodeHitObjects succeed with LF-free record lines (RtFile.ListBlockShape); "
            "edits_roundtrip_decoded_rep instead assumes the list-block part of RepMap of the unedited decoded map (RtTiming.RepTimingMap, every object SliderRt.RepObject) and `encode m = ok`. "
            "That a decoded map meets these is NOT a theorem and is false in general: F17 (path shapes the legacy path string cannot carry), F18 / F21 (per-node and trailing-blank sample "
            "file names), F20 (written length beyond the decoder's limit), non-finite or over-limit collected sample times; F22 (timing points within EPSILON merge on re-reading) does not "
            "break these hypotheses but is part of the list blocks' own round trip (C02), which C03 only compares between the edited and the unedited re-decode. Toy-codec instances, all hypotheses discharged: the hostile 19-line file of C04Decoded decoded, edited "
            "(title with `:` and `//`, background name, combo colours), encoded, decoded (sampleEdited_survives; kernel-evaluated sampleReread_eq); the same file with a timing point and a "
            "circle (sample2_*: RepTimingMap, RepObject proved of the DECODED map) under nine edits incl. a replaced custom colour (kernel-evaluated sample2_reread_*)",
        "encode_*_depends_only_on / decode_block_independent(_state)":
            "unconditional (no codec law): the [HitObjects] block is a function of (hit objects, mode); the [TimingPoints] block of (control points, hit objects, mode, format version, "
            "slider multiplier, slider tick rate), failures included. For two files of the encoder's shape (version line, eight blocks of record lines in canonical order) with the same "
            "[TimingPoints] and [HitObjects] lines, the decoder state's hit objects / pending group / control points depend on the record blocks only through the mode, default sample "
            "bank and default sample volume [General] leaves; the finalised hit objects and control points additionally only through the slider multiplier [Difficulty] leaves and the "
            "breaks [Events] leaves. The model's decoder reads neither the version line nor the tick rate for these views. Proved for the encoder's concrete shape, not for arbitrary "
            "section order / repeated sections",
    }
    level_text = ("Lean 4 theorems: for each of the six record sections, editing the section record to any representable value and round-tripping the encoded block gives exactly the "
                  "edited record, and leaves every observation the edit did not touch as it was (metadata also field by field: ten fields, one edited, nine unchanged); lifted to the file "
                  "for the record fields (edit_survives_records). Sections with floats are proved for every lawful number codec (the model's IEEE codec is proved lawful at the bit level, and the driver's Float / Float32 instances satisfy CodecLaws / IntPrintLaw with no hypothesis: C02.codecLaws_float_ieee, C02.codecLaws_float32_ieee, C02.intPrintLaw_float_ieee; the C03 statements for that instance follow by instantiation and are not stated separately). The frame clause for hit objects and timing points is a theorem too "
                  "(edit_frame_objects: an edit that leaves mode, slider multiplier, tick rate, breaks, format version, control points and hit objects alone yields the same re-decoded hit "
                  "objects and control points), under the codec laws and the assumption that the unedited map's two list blocks are LF-free record lines; that assumption is discharged for maps "
                  "satisfying RepMap (edit_frame_objects_rep: record sections, collected control points and every hit object representable — via C04's timing_block_shape and "
                  "hitobjects_block_accepted), and the edited map is RepMap again (repMap_of_frameEdit). For DECODED maps (the property's own quantifier) the representability of the "
                  "record sections is a theorem, not an assumption: with `Edit` (37 fields), decidable `Edit.Representable` and edit_keeps_rep, edits_survive_decoded / edits_frame_decoded / "
                  "edits_roundtrip_decoded_rep show — for every byte string that decodes, every sequence of representable edits — that the edited fields read back exactly and all other "
                  "record fields (41, the whole record view) read as in the unedited round trip, under the codec laws, FloatsRep, the F16 exclusion NoDoubleSlash (for the edited map; for the frame clause also the decoded one), and hypotheses on the two "
                  "list blocks only (their shape, or RepTimingMap + RepObject of the decoded map — false in general: F17, F18, F20, F21, F22); the list "
                  "blocks are shown to be functions of exactly the fields named, and the decoder's object / control-point state to depend on the record blocks only through mode, default "
                  "sample bank / volume, slider multiplier and breaks. Decoder+encoder model compared with the code on decode → edit through the public fields → encode → decode (identical text and map). "
                  "The property is evaluated on the real code for single- and multi-field edits drawn from per-field generators (strings with ':', '//', ',', quotes, brackets, header- and "
                  "version-like text, non-ASCII; boundary numbers; flags, mode, countdown; bookmarks; colours; breaks).")
    technique = "Lean 4 proof (section- and record-file-level edit/frame theorems incl. the hit-object / timing-point frame, instantiated for every decoded map through the Decoded invariant; law-dependent where floats are printed) + `edit` correspondence + implementation-level edit/frame oracle"
    trusted_base = [
        "Lean 4.33.0 kernel; axioms ⊆ {propext, Classical.choice, Quot.sound} per #print axioms",
        "hand-written decode + encode models tied to /repo by the `edit` differential of this run",
        "number codec: CodecLaws / IntPrintLaw proved for the model's printBits/parseBits and for the driver's Float / Float32 instances (C02, Props/C02Codec.lean + Props/C02CodecIeee.lean: the former runtime hypotheses "
        "FloatBitsLaw / FloatOfIntLaw are theorems of Lean 4.33's logical float model Float.Model); ConstFacts Float Float32 proved (C04.constFacts_float); agreement with Rust's Display/FromStr tested, not proved",
        "a theorem about Float / Float32 is a theorem about Lean's logical model Float.Model; that the compiled @[extern] C operations agree with it is part of Lean's own trusted code base and is compared with Rust "
        "bit for bit by the codec differential (fop64 / fop32, casts) and by every whole-model request of this run",
    ]
    assumptions = ["edits are restricted to values the format can represent (DESIGN 5.3): trimmed single-line text; file names without `//`, quotes or backslashes and, for the "
                   "background, without commas; numbers within the parse limits and inside the field's clamp; ids and countdown offset positive; colours with alpha 255"]
    nontrivial_rule = "decoded maps × edit lists; non-trivial = at least one edit changes the value the map had"

    def gen(self, rng, tier):
        cases = []
        n = 2000 if tier == "quick" else 80000
        bases = []
        for _ in range(60 if tier == "quick" else 600):
            ls = gen_map(rng, hostile=rng.choice([0, 0, 0.1]), chronological=True)
            bases.append(hexs("\n".join(ls).encode()))
        for f, d in small_bundled():
            bases.append(hexs(d))
        for _ in range(n):
            k = rng.choice([1, 1, 1, 2, 3, 5])
            edits, seen = [], set()
            while len(edits) < k:
                e = one_edit(rng)
                f = e.split("=")[0]
                if f in seen or (f == "custom_color" and "combo_colors" in seen) or (f == "combo_colors" and "custom_color" in seen):
                    continue
                seen.add(f)
                edits.append(e)
            cases.append(Case("edit " + rng.choice(bases) + " " + " ".join(edits), tags=(f"edits-{k}",)))
        return cases

    def is_nontrivial(self, case, impl_out):
        return impl_out.startswith("ok")


PROP = C03()
