from ..gen import hexs, bundled_files
from ..osugen import gen_map, corrupt_line
from ..runner import Case, Property
from .c11 import KEYS, FORMS, valpool, EVENT_LINES, COLOR_LINES, ODD_LINES
from .c14 import PATHS

BAD_PATH_TAILS = ["|x:y", "|1:", "|L", "|:", "|1e9:0", "|B|", "||", "|2:2|é"]


class C06(Property):
    id = "C06"
    lean_module = "RosuModel.Props.C06File"
    namespace = "Rosu.C06"
    design_ref = "5.6"
    required_theorems = ["editor_reject_no_effect", "metadata_reject_no_effect", "difficulty_reject_no_effect", "events_reject_no_effect",
                         "colors_reject_no_effect", "convertPathStr_fail_clean", "parse_preserves_clean", "rejected_no_trace", "clean_always",
                         "cp_congr", "loop_congr", "pathStr_congr", "parse_congr", "runLines_congr", "rejected_line_absent",
                         "general_reject_no_effect", "rejected_step_obs", "step_congr", "feedAll_congr", "feedAll_clean", "finish_congr",
                         "frame_eq_reach", "reach_append", "reach_clean", "rejected_line_absent_file"]
    partial_theorems = {
        "version slot": "rejected_line_absent_file is stated for lines after the version slot (some non-blank line precedes the erased line) — a rejected record is always "
                        "inside a section, hence after the first header, so this covers every rejected line; the lift from line lists to bytes is C10's utf8_lines / utf16_lines",
    }
    level_text = ("Lean 4 theorems over the section parser models: every record-section parser returns its state unchanged when it reports an error; for hit objects the only "
                  "state a failing line can touch is the path scratch — `curve_points` is empty between lines for every line sequence (clean_always), the scratch `vertices` "
                  "is never read before it is overwritten (parse_congr), hence erasing a rejected line from any sequence leaves the observable state identical for every "
                  "continuation (rejected_line_absent). FILE LEVEL (Props/C06File.lean): for the full Beatmap decoder, for every list of lines, a line that is handed to the parser "
                  "of its section and rejected there can be erased without changing the decoded Beatmap (rejected_line_absent_file: framing fold of C05 + per-section no-effect "
                  "theorems for all eight sections + observational congruence of every step + the finaliser never reads the path scratch). Tied to the code by per-line differential runs through the public parse_* functions (ok flags + states), and the property "
                  "itself — decode(file) == decode(file without the rejected line), for every rejected line — is evaluated on the real Beatmap decoder over generated and bundled files.")
    technique = "Lean 4 proof (state-frame lemmas + congruence over line sequences) + differential correspondence + file-level erase-the-line oracle"
    trusted_base = [
        "Lean 4.33.0 kernel; axioms ⊆ {propext, Classical.choice, Quot.sound} per #print axioms",
        "hand-written models Model/{Sections,HitObjectLine,HitSamples}.lean tied to /repo by this check's differential run",
        "harness oracle `c06` (harness/src/whole.rs): a wrapping DecodeBeatmap type logs which calls the real parsers rejected; line indices come from the independent framing transcription",
    ]
    assumptions = ["the correspondence observes parser state through public fields after each request, not after each line inside one request"]
    nontrivial_rule = "files and line sequences containing corrupted records; non-trivial = at least one line was rejected by the real parser"

    def gen(self, rng, tier):
        cases = []
        n = 1500 if tier == "quick" else 40000
        # whole files with corruptions, judged by the erase-the-line oracle
        for _ in range(n):
            ls = gen_map(rng, hostile=rng.choice([0.1, 0.3, 0.5]), chronological=rng.random() < 0.5)
            # deep corruption inside a multi-segment slider path followed by a valid slider
            if rng.random() < 0.5:
                t = rng.randint(0, 5000)
                ls.append(f"10,10,{t},2,0,B|20:20|30:30|L|40:40|50:50{rng.choice(BAD_PATH_TAILS)},1,50")
                ls.append(f"60,60,{t + 100},2,0,L|70:70,1,20")
            bl = [l.encode() for l in ls]
            tag = "file"
            if rng.random() < 0.2:
                # bytes that are not valid UTF-8 (a legacy ANSI file) in several lines: the reader's replacement buffer is
                # state that a rejected line must not leave behind for a later line
                tag = "file-invalid-utf8"
                for i in range(len(bl)):
                    if bl[i] and not bl[i].startswith(b"[") and rng.random() < 0.35:
                        k = rng.randrange(len(bl[i]) + 1)
                        bl[i] = bl[i][:k] + rng.choice([b"\xe9", b"\xff", b"\xe2\x82", b"caf\xe9.wav"]) + bl[i][k:]
            cases.append(Case("c06 " + " ".join(hexs(l) for l in bl), corr=False, tags=(tag,)))
        # a rejected line in one section, then records of ANOTHER section that later lines depend on (the game mode read by slider
        # paths and timing lines, the sample defaults, the slider multiplier), then lines of the first section again: what a
        # rejected line may have latched is visible only in what comes after the excursion - including in the computed curves
        # (seeds C06-k, C06-l)
        for _ in range(120 if tier == "quick" else 4000):
            mode = rng.randint(0, 3)
            bad = rng.choice(["256,192,500,64,0", "x,y", "1,2", "64,64,700,2,0,B|1:1|x:y,1,10", "10,10,10,1,0,0:0:0:0:x:y:z:extra:", "0,0,0,12,0,abc"])
            badg = rng.choice(["Mode: 7", "Mode: 1.0", "Mode:", "Mode: taiko", "SampleSet: 9x", "StackLeniency: abc", "Mode: -0", "Mode : 3 3"])
            ls = ["osu file format v14", "", "[General]", f"Mode: {rng.choice([0, mode])}", "", "[HitObjects]"]
            ls += rng.sample([bad, "64,64,100,1,0,0:0:0:0:", "128,64,300,5,0,0:0:0:0:", "256,192,400,12,0,900,0:0:0:0:"], rng.randint(1, 3))
            ls += ["", "[General]", rng.choice([badg, f"Mode: {mode}", badg]), rng.choice([f"Mode: {mode}", "SampleSet: Soft", badg]), "",
                   "[TimingPoints]", "0,400,4,1,0,100,1,0", rng.choice(["500,-50,4,2,1,60,0,1", "500,x,4", "500,-5000,4,1,0,100,0,0"]), "",
                   "[HitObjects]", bad if rng.random() < 0.4 else "192,64,2000,1,0,0:0:0:0:",
                   f"64,64,2500,{rng.choice([2, 6])},0,C|96:160|160:32|224:160|288:64,1,{rng.choice([0, 200, 90])}",
                   "192,64,3000,1,0,0:0:0:0:", f"100,100,3500,2,0,{rng.choice(['B|150:150|200:100', 'P|150:150|200:100', 'L|200:100'])},2,120", ""]
            cases.append(Case("c06 " + " ".join(hexs(l.encode()) for l in ls), corr=False, tags=("excursion-between-sections",)))
        # a bracketed line that is no recognised header, inside a section (it goes to that section's parser like any other line; the list
        # sections reject it): the lines after it still belong to the section (seed C06-q: the rest of the section skipped as an "unknown section")
        for _ in range(150 if tier == "quick" else 4000):
            ls = gen_map(rng, hostile=rng.choice([0.0, 0.1]), chronological=True)
            body = [i for i, l in enumerate(ls) if l and not l.startswith("[") and not l.startswith("osu file format")]
            for i in sorted(rng.sample(body, min(len(body), rng.randint(1, 3))), reverse=True):
                ls.insert(i, rng.choice(["[Fonts]", "[Storyboard]", "[x]", "[]", "[1,2,3]", "[Colors]", "[hitobjects]", "[General] ", "[Fonts] // c", "[[Events]]"]))
            cases.append(Case("c06 " + " ".join(hexs(l.encode()) for l in ls), corr=False, tags=("bracketed-line-inside-section",)))
        for f in bundled_files()[: (3 if tier == "quick" else 100)]:
            ls = open(f, "rb").read().decode("utf-8", "replace").replace("\r", "").split("\n")
            for _ in range(2 if tier == "quick" else 10):
                ls2 = list(ls)
                for _ in range(5):
                    i = rng.randrange(len(ls2))
                    if ls2[i] and not ls2[i].startswith("["):
                        ls2[i] = corrupt_line(rng, ls2[i])
                cases.append(Case("c06 " + " ".join(hexs(l.encode()) for l in ls2), corr=False, tags=("bundled-corrupted",)))
        # per-section line sequences, model vs implementation (ok flags and resulting state)
        m = 3000 if tier == "quick" else 60000
        for _ in range(m):
            r = rng.random()
            if r < 0.4:
                lines = []
                for _ in range(rng.randint(1, 4)):
                    p = rng.choice(PATHS)
                    if rng.random() < 0.5:
                        p += rng.choice(BAD_PATH_TAILS)
                    lines.append(f"{rng.randint(0, 512)},{rng.randint(0, 384)},{rng.randint(0, 9999)},{rng.choice([2, 6, 1, 12])},0,{p},{rng.choice(['1', '2', '9001', 'x'])},{rng.choice(['50', 'x', '0'])}")
                cases.append(Case(f"ho {rng.randint(0, 3)}" + "".join(" " + hexs(l.encode()) for l in lines), prop=False, tags=("ho-seq",)))
            else:
                sec = rng.choice(["editor", "metadata", "difficulty", "events", "colors"])
                lines = []
                for _ in range(rng.randint(1, 6)):
                    if sec in KEYS:
                        key, kind = rng.choice(KEYS[sec])
                        lines.append(rng.choice(FORMS).format(k=key, v=rng.choice(valpool(kind))) if rng.random() < 0.85 else rng.choice(ODD_LINES))
                    elif sec == "events":
                        lines.append(rng.choice(EVENT_LINES))
                    else:
                        lines.append(rng.choice(COLOR_LINES))
                cases.append(Case("sec " + sec + "".join(" " + hexs(l.encode()) for l in lines), prop=False, tags=("sec-seq",)))
        return cases

    def is_nontrivial(self, case, impl_out):
        return "0" in impl_out.split(" ")[0]


PROP = C06()
