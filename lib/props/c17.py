import itertools
import math

from .. import core, curvegen as g
from ..runner import Case, Property


def arc_points(rng):
    """three points on a circle in every orientation, incl. near-collinear, tiny and huge radii"""
    k = rng.random()
    cx, cy = rng.uniform(-512, 1024), rng.uniform(-512, 1024)
    if k < 0.15:
        r = rng.uniform(0.01, 0.3)
    elif k < 0.3:
        r = rng.uniform(2000, 40000)
    else:
        r = rng.uniform(1, 600)
    t0 = rng.uniform(0, 2 * math.pi)
    sweep = rng.choice([-1, 1]) * rng.choice([rng.uniform(0.001, 0.05), rng.uniform(0.05, 3.0), rng.uniform(3.0, 6.2)])
    tm = t0 + sweep * rng.uniform(0.05, 0.95)
    ps = [(g.f32(cx + r * math.cos(t)), g.f32(cy + r * math.sin(t))) for t in (t0, tm, t0 + sweep)]
    if max(abs(c) for p in ps for c in p) > 4096:
        return arc_points(rng)
    return ps


class C17(Property):
    id = "C17"
    lean_module = "RosuModel.Props.C17Full"   # imports Props/C17ArcEnd.lean (→ Props/C17Arc.lean, Props/C17Ends.lean, Props/C17.lean) and Props/C17ArcTol.lean; all in namespace Rosu.C17
    theorem_modules = ['RosuModel.Props.C17ArcEnd', 'RosuModel.Props.C17ArcTol', 'RosuModel.Props.C17Bezier', 'RosuModel.Props.C17CatmullChord', 'RosuModel.Props.C17Catmull', 'RosuModel.Props.C17BezierCubic', 'RosuModel.Props.C17BezierQuartic', 'RosuModel.Props.C17BezierQuintic', 'RosuModel.Props.C17BezierSextic', 'RosuModel.Props.C17BezierSeptic',
                       'RosuModel.Props.C17BezierOctic', 'RosuModel.Props.C17BezierNonic', 'RosuModel.Props.C17BezierDecic', 'RosuModel.Props.C17BezierDeg11']   # files whose top-level theorems are all audited
    namespace = "Rosu.C17"
    design_ref = "5.17"
    level_text = (
        "PARTIAL. Lean 4 theorems over the model of calculate_subpath and the approximators. STRUCTURAL (every arithmetic instance, hence the IEEE one): "
        "linear_identity; dispatch_bspline / dispatch_perfect_not_three / dispatch_perfect_three / arc_refused_collinear / "
        "arc_refused_large (collinear or >=1000 sub-points => Bezier fallback; perfect with != 3 points => Bezier); arc_point_count; arc_shape / arcProps_shape "
        "(an accepted arc is centre + (cos t_i, sin t_i)*radius, t_i = theta_start + (i/(n-1))*(direction*theta_range), centre = circumcentre formula, "
        "radius = |a - centre|, theta_start = atan2(a - centre)); bezier_first_point / bezier_last_point: THROUGH the adaptive subdivision (any fuel on which it "
        "succeeds, any scratch contents) the flattening starts with the segment's first control point and ends with its last - the very values, no law such as "
        "(a+a)/2 = a is needed because bezier_subdivide copies points[0] into l[0] and points[n-1] into r[n-1] before any averaging and never overwrites them "
        "(subdivide_keeps_ends, Lemmas/BezierEnds.lean: subdivOuter_frame, bezierSubdivide_ends, bsplineLoop_head); linear_first_point; catmullSimplify_head / "
        "catmullSimplify_last (the osu!-mode simplification keeps both ends); joint_dedup / joint_dedup_first / joint_vertex_once / joint_vertex_kept_when_different "
        "(a joint vertex pushed identically by two consecutive segments is stored once by the body of the segment loop; a differing or NaN one is kept twice); "
        "thetaLoop_fuel. EXACT ARITHMETIC, laws as explicit hypothesis structures (Lemmas/ExactArith.lean: ExactScalar/ExactArith = the Scalar operations are those of "
        "a linearly ordered field through an embedding; TrigLaws = cos^2+sin^2=1; SqrtLaws = sqrt(a)^2=a for a>=0; PolarLaws = sqrt(x^2+y^2)*(cos,sin)(atan2 y x)=(x,y)), "
        "each shown satisfiable: ExactArith+TrigLaws on core Rat with the rational parametrisation of the unit circle (exactArith_rat, trigLaws_rat, a concrete accepted "
        "8-vertex toy arc), all four on the reals (Lemmas/RealScalar.lean, atan2 = Complex.arg): catmull_first_point / catmull_last_point (the cubic at t=0 / t=1), "
        "catmull_points_on_spline + catmullRom_endpoints (Rat, ring), arc_points_on_circle (every vertex v of an accepted arc has |v-centre|^2 = radius^2, squared form), "
        "arc_first_vertex / arc_last_vertex (first vertex at angle theta_start, last at theta_start + direction*theta_range: 0/d=0, d/d=1), circumcentre_equidistant + "
        "arc_radius_sq + arc_circle_through_controls (the circle is the one through the three control points), arc_first_point (first vertex = first control point), "
        "segment_starts_at_first (all four kinds, >= 2 control points, either route of a perfect curve, also after the osu!-mode Catmull simplification); with PeriodLaws "
        "(cos/sin 2pi-periodic, real instance) arc_last_point (the last vertex of an accepted arc is the third control point, whatever number of turns the angle loop adds: "
        "thetaLoop_periodic, arc_last_angle) and segment_ends_at_last_all (all four kinds, before length adjustment); pos_eq_self (in exact arithmetic the `==` premise of "
        "joint_vertex_once holds for an identical joint vertex). "
        "libm sin/cos/atan2/acos and IEEE sqrt are NOT proved to satisfy TrigLaws/PolarLaws/SqrtLaws (they cannot, exactly), nor f32/f64 ExactArith. "
        "ARC TOLERANCE OVER THE REALS (Props/C17ArcTol.lean, Lemmas/ArcSagitta.lean): arc_within_tolerance_real — every accepted arc and its emitted polyline are within Hausdorff distance of the chord sagitta of each "
        "other, and (arc_step_angle_bound) that sagitta is ≤ (n/(n−1))²·0.1 ≤ 0.4 for n emitted points, not ≤ 0.1: the code uses ⌈θ/divisor⌉ as the number of POINTS (arc_tolerance_naive_false: r = 100, θ = 4·arccos 0.999 "
        "gives 2 points and sagitta 0.3998; halfCircle_exceeds_tolerance); the |divisor| ≤ EPSILON branch (r ≥ 2^107/10 over ℝ) is excluded by hypothesis. This is a statement about exact real arithmetic; libm stays opaque, "
        "so the f32/f64 arc is only tested. "
        "CATMULL CHORD ERROR OVER THE REALS (Props/C17CatmullChord.lean, Props/C17Catmull.lean; sixth session): approximate_catmull_spans (every Scalar: the output is the concatenation of "
        "catmullSubpath over the spans with the code's control-point choice catmullCtl), catmull_points_on_spline_real (the 100 points of a span are the exact cubic at c/50 and (c+1)/50), the interpolation identity "
        "cubic_chord_error (q(t) - chord(t) = (t-a)(t-b)(c2 + c3(t+a+b))) with cubic_chord_error_le_second_deriv ((b-a)^2/8 * sup|q''|) and its sharpness, catmullM = the exact supremum of |q''| on [0,1] "
        "(catmullAcc_le_M, catmullM_attained; q'' via HasDerivAt), catmullBound = catmullM / 20000, catmull_chord_within, catmull_chord_error_sharp (the bound is attained when the cubic coefficient vanishes), and the "
        "headline catmull_within_bound_real: for every span and every t in [0,1] the exact curve point is within catmullSpanBound of a point of the emitted polyline on that span's chords, and every point of every "
        "chord of the emitted polyline (degenerate chords and span joints included) is within the same bound of a point of the exact curve - both directions, Euclidean distance (the model's Pos.distance at the real "
        "instance); non-vacuity on the square (0,0),(100,0),(100,100),(0,100): bound 0.0158 px. Not covered: the osu!-mode catmullSimplify applied afterwards (it removes vertices; oracle: +6 px threshold) and IEEE rounding of "
        "the cubic's evaluation (bit-exact correspondence). "
        "The remaining tolerance bound (Hausdorff distance of the adaptive Bezier flattening with its smoothing step) is NOT proved "
        "(bezier_within_tolerance_statement is only stated); the tolerances are tested: the real code's path is "
        "compared with independently evaluated exact curves (De Casteljau, circle through three points, Catmull-Rom polynomial, polyline) "
        "in both directions with bounds derived from the constants 0.25 / 0.1 (arc: 0.4 for curve → path, the proved bound) / 50 steps, and the model is tied to the code bit-for-bit.")
    technique = "Lean 4 proof of the structural part and, over the reals, of the end-point and arc-tolerance clauses + bit-exact differential correspondence + independent exact-curve oracle (test)"
    required_theorems = ["bezier_within_tolerance_quarter_sextic", "bezier_within_tolerance_quarter_septic", "bezier_within_tolerance_quarter_octic", "bezier_within_tolerance_quarter_nonic",
                         "bezier_within_tolerance_quarter_decic", "bezier_within_tolerance_quarter_deg11", "bezier_deg11_within", "comb_step", "flatPiece_sextic", "flatPiece_deg11",
                         "flatPiece_quartic", "flatPiece_quintic", "quarticW2_sub_curve", "comb3_sq_le", "comb4_sq_le", "flat_piece_quartic_within", "flat_piece_quintic_within",
                         "bezier_quartic_within", "bezier_quintic_within", "bezier_within_tolerance_quarter_quartic", "bezier_within_tolerance_quarter_quintic",
                         "flatPiece_cubic", "cubicW1_sub_curve", "cubicW2_sub_curve", "comb_sq_le", "flat_cubic_second_differences", "flat_piece_cubic_within",
                         "flat_piece_within_tolerance_cubic", "quarter_admissible", "bezier_cubic_within", "bezier_within_tolerance_cubic", "bezier_within_tolerance_quarter",
                         "flat_piece_statement_iff_upto", "bezier_statement_iff_upto",
                         "catmull_within_bound_real", "catmull_points_on_spline_real", "approximate_catmull_spans", "cubic_chord_error", "catmull_chord_within", "catmull_chord_error_sharp",
                         "linear_identity", "dispatch_bspline", "dispatch_perfect_not_three", "dispatch_perfect_three",
                         "arc_refused_collinear", "arc_refused_large", "arc_point_count", "segment_ends_at_last",
                         "piece_starts_at_first", "joint_dedup", "joint_dedup_first", "catmull_points_on_spline", "catmullRom_endpoints",
                         "thetaLoop_fuel",
                         # Props/C17Ends.lean
                         "bezier_first_point", "bezier_last_point", "subdivide_keeps_ends", "linear_first_point",
                         "catmullSimplify_head", "catmullSimplify_last", "joint_vertex_once", "joint_vertex_kept_when_different",
                         "catmullSubpath_head", "catmullSubpath_last", "catmull_first_point", "catmull_last_point",
                         # Props/C17Arc.lean
                         "arc_shape", "arcProps_shape", "arcAt_on_circle", "arc_points_on_circle", "arc_first_vertex", "arc_last_vertex",
                         "circumcentre_equidistant", "arc_radius_sq", "arc_circle_through_controls", "arc_first_point",
                         "segment_starts_at_first", "toy_arc_accepted",
                         # Props/C17ArcEnd.lean
                         "arcProps_end_shape", "thetaLoop_periodic", "arc_last_angle", "arc_last_point",
                         "segment_ends_at_last_all", "pos_eq_self",
                         # Props/C17ArcTol.lean (over the reals; Lemmas/ArcSagitta.lean): the tolerance clause for circular arcs
                         "arcSubPoints_real", "arcPhi_sagitta", "arc_eps_branch_radius", "arc_step_angle_bound", "arc_step_angle_bound_radius",
                         "arc_step_angle_bound_four", "arc_step_le_tolerance_of_intervals", "arc_sagitta_two_points", "arc_tolerance_naive_false",
                         "arc_eps_branch_violates", "arcProps_real_range", "arc_piece_within", "arc_within_tolerance_real",
                         "halfCircle_accepted", "halfCircle_exceeds_tolerance"]
    partial_theorems = {
        "bezier_within_tolerance_quarter_deg11 (… sextic, septic, octic, nonic, decic)": "Props/C17BezierSextic.lean … C17BezierDeg11.lean (sixth session, wave 11; generated by tools/c17_bezier_gen.py from exact "
            "coefficients computed by tools/c17_bezier_consts.py, each file checked by the kernel like any other): the Bezier clause for control-point lists of AT MOST TWELVE points (degree 11) — "
            "bezier_within_tolerance_upto P 12 0.25: every vertex approximate_bezier pushes is within BEZIER_TOLERANCE of the exact curve, exact arithmetic. Constants K (distance ≤ K·tol): 5/24, 17/56, 3/8, "
            "31/72, 19/40, 49/88 for 7…12 points, each attained on an extremal polygon (kernel-evaluated on ℚ); all coefficients have one sign and for an even degree the middle pushed vertex is exactly B(1/2). "
            "comb_step (Cauchy–Schwarz without a square root, iterated) replaces the fixed-arity lemmas. The method's constant stays ≤ 1 up to 19 control points (computed exactly up to degree 40: 71/72 at "
            "degree 18, 161/152 > 1 at degree 19), so beyond that this argument yields K·tol only; 13–19 points are generated but not built (build time grows 1.5× per degree), longer polygons and IEEE stay tested",
        "bezier_within_tolerance_quarter_quintic / bezier_within_tolerance_quarter_quartic": "Props/C17BezierQuartic.lean, Props/C17BezierQuintic.lean (sixth session, wave 9): the same method carried to five and six control "
            "points — bezier_within_tolerance_upto P 5 0.25 and … P 6 0.25: every vertex approximate_bezier pushes for a segment of at most SIX control points is within BEZIER_TOLERANCE of the exact curve "
            "(exact arithmetic). The curve parameter that eliminates first differences is i/n throughout; quartic: w2 lies ON the curve (quarticW2_sub_curve), squared bound 1/1024 = (tol/8)²; quintic: "
            "squared bound 49/25600 = (7·tol/40)²; both attained (extremalQuartic / extremalQuintic, kernel-evaluated on ℚ). The sum of |α| for the first pushed vertex goes 1/48, 1/16, 7/80 for 4, 5, 6 points — "
            "growing about linearly, as the classical bound predicts; seven or more control points stay open",
        "bezier_within_tolerance_quarter / bezier_within_tolerance_cubic": "Props/C17BezierCubic.lean (sixth session, wave 8): the Bezier clause for control-point lists of AT MOST FOUR points (linear, quadratic, "
            "cubic segments), exact arithmetic, any fuel on which the flattening succeeds, any scratch contents: every vertex approximate_bezier pushes is within BEZIER_TOLERANCE = 0.25 of a point of the "
            "exact curve — in fact within 1/96 px (squared distance ≤ 1/9216). A flat cubic piece [a,b,c,d] pushes a, w1 = (9a+15b+7c+d)/32, w2 = (a+7b+15c+9d)/32 (flatPiece_cubic, by rfl); "
            "w1 − B(1/3) = −(13/864)Δ1 − (5/864)Δ2 and symmetrically at 2/3 (cubicW*_sub_curve; at 1/4, 3/4 a first-difference term remains that flatness does not bound); the flatness test gives "
            "|Δi|² ≤ 1/4; comb_sq_le (Cauchy–Schwarz in squared form) closes it; bezier_reduction lifts the piece statement to the whole subdivision. The bound to the chosen curve point is attained "
            "(extremalCubic, kernel-evaluated on ℚ). PARTIAL: polygons of five or more control points stay open (flat_piece_within_tolerance_statement; the classical bound grows with the degree), and the "
            "statement is exact-arithmetic (the IEEE side of the Bezier clause is tested)",
        "bezier_within_tolerance_statement": "NOT proved (stated as a def): Hausdorff bound of adaptive Bezier flattening + final smoothing; evidence = oracle with bound 0.5 (2 x BEZIER_TOLERANCE) + float slack, both directions",
        "arc_step_angle_bound / arc_within_tolerance_real (the arc tolerance clause; replaces the former unproved `arc_sagitta_bound`)":
            "now PROVED OVER THE REALS (Props/C17ArcTol.lean with the real instance of Lemmas/RealScalar.lean — sqrt = √, cos = Real.cos, acos = Real.arccos, ceil = ⌈·⌉ — and the real analysis of Lemmas/ArcSagitta.lean: "
            "chord_sagitta, sagitta_le_of_points), and the true bound is NOT the naive one. approximate_circular_arc takes n = max(⌈θ/(2φ)⌉, 2) POINTS, φ = acos(1 − 0.1/r), i.e. n − 1 intervals, so the step θ/(n−1) can exceed 2φ by "
            "the factor n/(n−1): arc_step_angle_bound — outside the |divisor| ≤ EPSILON branch the sagitta r(1 − cos(δ/2)) of every chord is ≤ (n/(n−1))²·0.1, hence ≤ 0.4 (arc_step_angle_bound_four); "
            "arc_tolerance_naive_false — `sagitta ≤ CIRCULAR_ARC_TOLERANCE = 0.1` is FALSE: for r = 100, θ = 4·arccos 0.999 the code emits 2 points and the sagitta is 0.3998 (in general 0.4 − 0.02/r at θ = 4φ: "
            "arc_sagitta_two_points, supremum 4× the tolerance, not attained); arc_step_le_tolerance_of_intervals — had n − 1 ≥ θ/(2φ) intervals been used the bound 0.1 would hold; "
            "halfCircle_exceeds_tolerance — end to end on the model function: (1,0),(0,1),(−1,0) is emitted as 4 vertices and the exact-arc point at 30° is more than 0.13 from every point of the polyline. "
            "arc_within_tolerance_real — for every accepted arc over ℝ the exact arc and the emitted polyline are within Hausdorff distance arcSagitta of each other (both directions: arc_piece_within), and "
            "arcSagitta ≤ (n/(n−1))²·0.1 ≤ 0.4 unless radius ≥ 2^107/10: the |divisor| ≤ EPSILON branch (two points whatever the opening) is entered only for r ≥ 2^107/10 ≈ 1.6e31 over ℝ "
            "(arc_eps_branch_radius), is excluded by hypothesis, and there the sagitta is unbounded (arc_eps_branch_violates: r = 2^107, θ = π, sagitta 2^107). The harness oracle already used 0.4 + slack for the "
            "curve → path direction (and 0.1 + slack for vertex → circle). EXACT ARITHMETIC ONLY: libm sin / cos / acos / atan2 stay opaque in Lean 4.33, so nothing is proved about the f32/f64 arc (where the EPSILON branch "
            "is entered much earlier, as soon as 1 − 0.1/r rounds to 1 in f32) — that is tested by the oracle",
        "arc_points_on_circle / arc_first_vertex / arc_last_vertex / arc_circle_through_controls / arc_first_point / arc_last_point": "proved in exact arithmetic only, under explicit hypotheses (ExactArith; TrigLaws cos^2+sin^2=1; SqrtLaws; PolarLaws for arc_first_point; additionally PeriodLaws for arc_last_point) that are shown satisfiable on Rat (ExactArith, TrigLaws: rational unit-circle points) and all together on the reals; libm's sin/cos/atan2 and IEEE sqrt/f32/f64 are NOT proved to satisfy them - the float-level statement (vertices on the circle, first/last vertex at the control points, within float slack) is tested by the oracle",
        "catmull_within_bound_real (the Catmull chord error; formerly not proved)":
            "now PROVED OVER THE REALS (Props/C17CatmullChord.lean, Props/C17Catmull.lean): both directions, Euclidean distance, bound catmullM/20000 with catmullM the exact supremum of the "
            "span cubic's second derivative on [0,1] (sharp: catmull_chord_error_sharp). Exact real arithmetic only; not covered: the osu!-mode simplification pass applied afterwards (removes vertices; "
            "oracle threshold +6 px) and the f32 evaluation of the cubic (bit-exact correspondence + the oracle's independent f64 evaluation)",
        "segment_starts_at_first / segment_ends_at_last_all": "Bezier/B-spline/linear/refused-arc: proved structurally for the whole segment through the adaptive subdivision (bezier_first_point), every arithmetic; Catmull and accepted arcs: exact arithmetic only (ExactArith, PolarLaws) - in f32 the cubic at t=0 is 0.5*(2*x) (exact unless 2*x overflows) and the arc start is centre + r*cos(atan2(..)) (rounded): tested (path[0] = first control point within slack)",
        "catmull_points_on_spline": "exact rational arithmetic only (Scalar instance on core Rat, ring); in f32 the polynomial is evaluated with rounding - covered by the bit-exact correspondence and the oracle's independent f64 evaluation",
        "thetaLoop_fuel": "the hypothesis (theta_end + 2pi >= theta_start) is a property of atan2 (range [-pi, pi]), not proved of libm; the driver reports fuel-exhausted distinctly and never did",
    }
    trusted_base = [
        "Lean 4.33.0 kernel",
        "axioms: at most propext, Classical.choice, Quot.sound (audited per theorem with #print axioms)",
        "hand-written model Model/Curve.lean tied to /repo by the differential run of this check (bit-exact paths, incl. arcs)",
        "the exact-curve oracle in harness/src/curveprop.rs (f64 De Casteljau / circumcircle / Catmull-Rom / polyline; coarse sampling + ternary refinement)",
        "libm sin/cos/acos/acosf/atan2 shared by the Lean driver and the Rust code on this machine; they are the only operations of the driver's instances that remain `opaque` in Lean 4.33 (Float / Float32 are structures "
        "over the logical model Float.Model and + - * / sqrt, comparisons and — via Model/FloatBits.lean — the casts and ceil reduce in the kernel; the compiled operations are compared with Rust bit for bit by the codec requests "
        "fop64 / fop32, castf32f64, castf64f32, ceilf64, ceilf32, usizef64): every C17 arc statement is therefore exact-arithmetic (ℝ / ℚ) only",
    ]
    assumptions = [
        "C17 is partial: the Bezier and Catmull tolerance bounds are tested on the generated inputs, not proved; the arc tolerance is proved over the reals only (bound (n/(n−1))²·0.1 ≤ 0.4, radius < 2^107/10), tested for f32/f64",
        "oracle tolerances: Bezier 0.5, arc 0.1 + slack (path vertex -> exact circle) and 0.4 + slack (exact arc -> path; 0.1·(n/(n−1))² ≤ 0.4 is the bound the constants give, see arc_step_angle_bound), Catmull chord bound per span, osu!-mode Catmull +6.0; float slack 4e-5*scale + 2e-3",
        "a perfect-curve segment may follow either its arc or its Bezier fallback unless it is clearly non-degenerate (|cross| > 1, < 900 sub-points); arcs whose estimated f32 centre error exceeds 0.05 px are the known finding F13, where the arc is required",
        "domain: coordinates in [-4096, 4096], natural length (no requested length)",
    ]
    nontrivial_rule = ("Bezier 2..10 points, three-point arcs in all orientations / near-collinear / tiny and huge radii, Catmull 2..8 points, linear, "
                       "multi-segment combinations, exhaustive integer grid for three-point arcs; non-trivial = path with >= 3 vertices")

    def gen(self, rng, tier):
        cases = []
        R = 4 if tier == "quick" else 8
        grid = list(itertools.product(range(-R, R + 1), repeat=2))
        for a in grid:
            for b in grid:
                cases.append(Case(g.curve_line("curvegeo", rng.choice(g.MODES), None,
                                               [(0.0, 0.0, "P"), (float(a[0]), float(a[1]), None), (float(b[0]), float(b[1]), None)]),
                                  tags=("arc-grid",)))
        cases.append(Case(g.curve_line("curvegeo", 1, None, [(404.0, -3.0, "P"), (279.0, 148.9139862060547, None), (358.74554443359375, 51.998291015625, None)]), tags=("witness-F13",)))
        n = 2500 if tier == "quick" else 40000
        for _ in range(n):
            k = rng.random()
            if k < 0.3:
                kk = rng.random()
                ps = g.flat_arc_pts(rng) if kk < 0.15 else g.longway_arc_pts(rng) if kk < 0.3 else arc_points(rng)
                pts = [(ps[0][0], ps[0][1], "P"), (ps[1][0], ps[1][1], None), (ps[2][0], ps[2][1], None)]
                tag = "arc"
            elif k < 0.47:
                m = rng.randint(2, 10)
                pts = [(g.f32(rng.uniform(-600, 1100)), g.f32(rng.uniform(-600, 1100)), None) for _ in range(m)]
                pts[0] = (pts[0][0], pts[0][1], rng.choice(["B", "B", "B3", "P" if m != 3 else "B"]))
                tag = "bezier"
            elif k < 0.55:
                # control polygons that are straight and evenly spaced over a stretch of three or more points (second differences
                # zero there) and bend elsewhere: the flatness test must look at every consecutive triple
                m = rng.randint(4, 9)
                run = rng.randint(3, m - 1)
                at = rng.randint(0, m - run)
                x0, y0 = rng.uniform(-200, 600), rng.uniform(-200, 500)
                dx, dy = rng.uniform(-150, 150), rng.uniform(-150, 150)
                pts = []
                for i in range(m):
                    if at <= i < at + run:
                        pts.append((g.f32(x0 + dx * (i - at)), g.f32(y0 + dy * (i - at)), None))
                    else:
                        pts.append((g.f32(rng.uniform(-300, 800)), g.f32(rng.uniform(-300, 700)), None))
                pts[0] = (pts[0][0], pts[0][1], "B")
                tag = "bezier-straight-run"
            elif k < 0.6:
                # long control polygons that bend gently (a parabola, a circle arc, a sine, lightly jittered): every flatness test passes
                # early, so each piece is long and what is emitted for a flat piece matters (seed C17-o: start + midpoint only)
                m = rng.randint(10, 40)
                shape = rng.randint(0, 2)
                step = rng.uniform(4, 30)
                x0, y0 = rng.uniform(-100, 300), rng.uniform(-100, 300)
                cur = rng.uniform(0.02, 0.5) * rng.choice([-1, 1])
                rad = rng.uniform(60, 400)
                jit = rng.choice([0.0, 0.0, 0.5, 2.0])
                pts = []
                for i in range(m):
                    if shape == 0:
                        x, y = x0 + step * i, y0 + cur * i * i
                    elif shape == 1:
                        th = i * step / rad
                        x, y = x0 + rad * math.sin(th), y0 + rad * (1 - math.cos(th))
                    else:
                        x, y = x0 + step * i, y0 + 40 * math.sin(i * cur)
                    pts.append((g.f32(x + rng.uniform(-jit, jit)), g.f32(y + rng.uniform(-jit, jit)), None))
                pts[0] = (pts[0][0], pts[0][1], "B")
                tag = "bezier-long-gentle"
            elif k < 0.63:
                # arcs of a LARGE circle (radius 15 000 - 60 000, inside the decoder's coordinate range, well conditioned): long arcs that
                # still need fewer than 1000 samples are arcs, not Bezier fallbacks (seed C17-s: an arc-length threshold in front of the count test)
                r = rng.uniform(15000, 60000)
                t0 = rng.uniform(0, 6.28)
                sweep = rng.uniform(0.8, 5.2) * rng.choice([-1, 1])
                cx, cy = rng.uniform(-20000, 20000), rng.uniform(-20000, 20000)
                ps = [(cx + r * math.cos(t0 + f * sweep), cy + r * math.sin(t0 + f * sweep)) for f in (0.0, rng.uniform(0.3, 0.7), 1.0)]
                if max(abs(c) for p_ in ps for c in p_) > 131000:
                    continue
                pts = [(float(round(ps[0][0])), float(round(ps[0][1])), "P"), (float(round(ps[1][0])), float(round(ps[1][1])), None), (float(round(ps[2][0])), float(round(ps[2][1])), None)]
                tag = "arc-large-radius"
            elif k < 0.75:
                m = rng.randint(2, 8)
                x, y = rng.uniform(-300, 700), rng.uniform(-300, 700)
                pts = []
                for i in range(m):
                    pts.append((g.f32(x), g.f32(y), "C" if i == 0 else None))
                    x += rng.uniform(-150, 150)
                    y += rng.uniform(-150, 150)
                tag = "catmull"
            elif k < 0.82:
                m = rng.randint(2, 8)
                pts = [(g.coord(rng), g.coord(rng), "L" if i == 0 else None) for i in range(m)]
                pts = [(max(-4096.0, min(4096.0, x)), max(-4096.0, min(4096.0, y)), t) for x, y, t in pts]
                tag = "linear"
            else:
                pts = g.rand_points(rng)
                pts = [(max(-4096.0, min(4096.0, x)), max(-4096.0, min(4096.0, y)), t) for x, y, t in pts]
                tag = "mixed"
            cases.append(Case(g.curve_line("curvegeo", rng.choice(g.MODES), None, pts), tags=(tag,)))
        return cases

    def is_nontrivial(self, case, impl_out):
        return impl_out.startswith("ok p=") and int(impl_out.split()[1][2:]) >= 3

    def known(self, case, out, findings):
        if out.startswith("FAIL") and ("beyond the bound" in out or "does not end at" in out or "does not start at" in out
                                       or "from the path" in out or "nonfinite-natural-path" in out):
            if g.ill_conditioned_arc_predicate(case.line):
                for f in findings:
                    if f.get("predicate") == "ill_conditioned_arc":
                        return f["id"]
        return None


PROP = C17()
