from ..filegen import file_case, bundled
from ..gen import hexs
from ..runner import Case, Property


class C07(Property):
    id = "C07"
    lean_module = "RosuModel.Props.C07"
    namespace = "Rosu.C07"
    design_ref = "5.7"
    required_theorems = ["frame_proj", "hitObjects_agree", "editor_agree", "metadata_agree", "colors_agree", "timingPoints_agree",
                         "difficulty_agree", "events_agree", "general_agree", "decoders_agree_bytes", "general_in_beatmap"]
    partial_theorems = {
        "finalisers": "the state-level agreement is proved for every input; that the Rust `From<BeatmapState> for Beatmap` applies the same four sub-finalisers "
                      "and copies their fields is by construction of Model/Finalize.lean (BeatmapState.finish calls HitObjectsState.finish) and is compared field by field on every run",
    }
    level_text = ("Lean 4 theorems: for every list of lines and every delivery schedule, the state of each specialised decoder (General, Editor, Metadata, Difficulty, "
                  "Events, Colours, TimingPoints, HitObjects) is exactly the corresponding projection of the full Beatmap decoder's state (frame_proj: a projection that commutes "
                  "with creation and with every per-section step commutes with the whole framing driver, by induction over the lines; instantiated along the delegation chain "
                  "Beatmap ▸ HitObjects ▸ TimingPoints ▸ General). The model is one decoder; the differential run shows all nine Rust decoders equal to it on every generated file "
                  "(canonical dumps, floats by bits), and the harness oracle compares the nine real decoders with each other group by group.")
    technique = "Lean 4 proof (simulation by projection, induction over lines) + nine-decoder differential correspondence"
    trusted_base = [
        "Lean 4.33.0 kernel; axioms ⊆ {propext, Classical.choice, Quot.sound} per #print axioms",
        "hand-written models of all section parsers, the framing driver, the reader and the finaliser, tied to /repo by the `dec9` differential of this run",
    ]
    assumptions = ["curve computation inside the finaliser runs with fuel 2·10^6 in the model (reported as fuel-exhausted, never defaulted)"]
    nontrivial_rule = "whole files (noise, grammar with hostile values, mutations/truncations of bundled maps, encodings); non-trivial = Beatmap dump differs from the default map"

    def gen(self, rng, tier):
        cases = []
        n = 1200 if tier == "quick" else 40000
        for _ in range(n):
            tag, data = file_case(rng, tier)
            cases.append(Case("dec9 " + hexs(data), tags=(tag,)))
        for f, d in bundled()[: (6 if tier == "quick" else 1000)]:
            cases.append(Case("dec9 " + hexs(d), tags=("bundled",)))
        return cases

    def is_nontrivial(self, case, impl_out):
        return "n=0 ##" not in impl_out and impl_out.startswith("Beatmap=ok")


PROP = C07()
