from ..filegen import file_case, bundled
from ..gen import hexs
from ..runner import Case, Property


class C07(Property):
    id = "C07"
    lean_module = "RosuModel.Props.C07Finish"   # imports Props/C07.lean; both files are in namespace Rosu.C07
    namespace = "Rosu.C07"
    design_ref = "5.7"
    required_theorems = ["frame_proj", "hitObjects_agree", "editor_agree", "metadata_agree", "colors_agree", "timingPoints_agree",
                         "difficulty_agree", "events_agree", "general_agree", "decoders_agree_bytes", "general_in_beatmap",
                         # Props/C07Finish.lean: the finalised values
                         "sched_hitObjects", "sched_editor", "sched_metadata", "sched_colors", "sched_timingPoints", "sched_difficulty",
                         "sched_events", "sched_general", "beatmap_finish_hitObjects", "beatmap_finish_fields", "hitObjects_finish_fields",
                         "timingPoints_finish_general", "hitObjects_value_agrees", "finished_values_state", "finished_values_agree",
                         "finished_values_agree_bytes"]
    partial_theorems = {}
    level_text = ("Lean 4 theorems: for every list of lines and every delivery schedule, the state of each specialised decoder (General, Editor, Metadata, Difficulty, "
                  "Events, Colours, TimingPoints, HitObjects) is exactly the corresponding projection of the full Beatmap decoder's state (frame_proj: a projection that commutes "
                  "with creation and with every per-section step commutes with the whole framing driver, by induction over the lines; instantiated along the delegation chain "
                  "Beatmap ▸ HitObjects ▸ TimingPoints ▸ General). The model is one decoder; the differential run shows all nine Rust decoders equal to it on every generated file "
                  "(canonical dumps, floats by bits), and the harness oracle compares the nine real decoders with each other group by group. "
                  "Props/C07Finish.lean lifts this to the RETURNED VALUES, finalisers applied (finished_values_agree, for every delivery schedule and, as finished_values_agree_bytes, every byte input): "
                  "from_bytes::<HitObjects> returns exactly the HitObjects part of what from_bytes::<Beatmap> returns — the same I/O error, or the same finaliser failure (the model's "
                  "HitObjectsState.finish can end in panic / fuel-exhausted, depending on mode and curves; BeatmapState.finish fails iff it does, with the same error), or the same general / difficulty / "
                  "events / control points / finalised hit objects (hitObjects_value_agrees); an I/O error of the full decoder is the result of all eight; and whenever the full decoder returns a Beatmap m, "
                  "TimingPoints returns (m.general, m.controlPoints) and General / Editor / Metadata / Difficulty / Events / Colours return m's sections (finalisers unfolded: beatmap_finish_fields, "
                  "hitObjects_finish_fields, timingPoints_finish_general). That the Rust `From<…State>` impls are the modelled finalisers is by construction of Model/Finalize.lean and compared field by field "
                  "(`dec9`) on every run.")
    technique = "Lean 4 proof (simulation by projection, induction over lines) + nine-decoder differential correspondence"
    trusted_base = [
        "Lean 4.33.0 kernel; axioms ⊆ {propext, Classical.choice, Quot.sound} per #print axioms",
        "hand-written models of all section parsers, the framing driver, the reader and the finaliser, tied to /repo by the `dec9` differential of this run",
    ]
    assumptions = ["curve computation inside the finaliser runs with fuel 2·10^6 in the model (reported as fuel-exhausted, never defaulted)"]
    nontrivial_rule = "whole files (noise, grammar with hostile values, mutations/truncations of bundled maps, encodings); non-trivial = Beatmap dump differs from the default map"

    def gen(self, rng, tier):
        cases = [Case("defaults", corr=False, tags=("defaults",))]
        n = 1200 if tier == "quick" else 40000
        for _ in range(n):
            tag, data = file_case(rng, tier)
            cases.append(Case("dec9 " + hexs(data), tags=(tag,)))
        for f, d in bundled()[: (6 if tier == "quick" else 1000)]:
            cases.append(Case("dec9 " + hexs(d), tags=("bundled",)))
        # a [Variables] section in front of [Events] whose lines use the variables (every decoder reads the event lines verbatim: seed
        # C07-s resolved them in the full decoder only), and bare key lines without a colon after an earlier definition of the same key
        # (a bare valid key clears the value in every decoder alike: seed C07-t dropped such lines in the full decoder only)
        for _ in range(60 if tier == "quick" else 2000):
            var = rng.choice(['$bg="backdrop.jpg"', "$bg=backdrop.jpg", "$end=2500", "$t=1000", "$x=2,1000,2500", "$=", "$a=$b"])
            ev = rng.choice(["0,0,$bg,0,0", "2,1000,$end", "2,$t,$end", "$x", 'Video,0,"$bg"', "Sprite,Background,Centre,$bg,320,240", '0,0,"bg$end.jpg"'])
            text = ("osu file format v14\n\n[Variables]\n" + var + "\n$end=2500\n$t=1000\n\n[Events]\n" + ev + "\n2,3000,4000\n\n"
                    "[TimingPoints]\n0,400,4,1,0,100,1,0\n\n[HitObjects]\n64,64,500,1,0,0:0:0:0:\n64,64,5000,1,0,0:0:0:0:\n")
            if rng.random() < 0.3:
                text = text.replace("[Variables]", "[Events]\n0,0,first.png\n\n[Variables]")
            cases.append(Case("dec9 " + hexs(text.encode()), tags=("variables-used-in-events",)))
        BARE = {"General": [("AudioFilename", "audio.mp3"), ("SampleSet", "Soft"), ("Mode", "3"), ("PreviewTime", "1234"), ("Countdown", "2")],
                "Editor": [("Bookmarks", "1000,2000,3000"), ("DistanceSpacing", "1.5"), ("GridSize", "8")],
                "Metadata": [("Source", "Touhou"), ("Title", "t"), ("Tags", "a b"), ("BeatmapID", "77")],
                "Difficulty": [("CircleSize", "7"), ("SliderMultiplier", "2")],
                "Colours": [("Combo1", "1,2,3"), ("SliderBorder", "4,5,6"), ("Custom", "7,8,9")]}
        for _ in range(80 if tier == "quick" else 3000):
            sec = rng.choice(list(BARE))
            k, v = rng.choice(BARE[sec])
            form = rng.choice(["{k}", "{k} ", " {k}", "{k}\t", "{k} // c", "{k}", "{k}:"])
            lines = [f"{k}: {v}", form.format(k=k)]
            if rng.random() < 0.4:
                lines.append(f"{rng.choice(BARE[sec])[0]}")
            if rng.random() < 0.3:
                lines.insert(1, rng.choice(["// comment", "", f"{k} : {v}"]))
            text = "osu file format v14\n\n[General]\nMode: 1\n\n[" + sec + "]\n" + "\n".join(lines) + "\n\n[TimingPoints]\n0,400,4,1,0,100,1,0\n\n[HitObjects]\n64,64,500,1,0,0:0:0:0:\n"
            cases.append(Case("dec9 " + hexs(text.encode()), tags=("bare-key-line",)))
        # files whose first line is indented (no version line, a section header behind blanks / a tab): what opens the first
        # section depends on the first column, for every decoder and every entry point alike (seed C07-l)
        for _ in range(40 if tier == "quick" else 1500):
            tag, data = file_case(rng, tier)
            try:
                text = data.decode("utf-8")
            except UnicodeDecodeError:
                continue
            lines = [l for l in text.split("\n")]
            while lines and (not lines[0].strip() or lines[0].startswith("osu file format")):
                lines.pop(0)
            if not lines:
                continue
            lead = rng.choice(["  ", "\t", " ", "\n  ", "\n\t", "\u3000", "\r\n "])
            cases.append(Case("dec9 " + hexs((lead + "\n".join(lines)).encode()), tags=("indented-first-line",)))
        # runs of thousands of lines that SOME decoders reject and others ignore (storyboard commands under [Events], junk under
        # [HitObjects] / [General] / [TimingPoints]) in front of sections every decoder reads: a budget of consecutive rejected
        # lines, or anything else that counts per decoder, shows here only (seed C07-k)
        big = 6000 if tier == "quick" else 70000
        head = "osu file format v14\n\n"
        tail = "[TimingPoints]\n0,400,4,1,0,100,1,0\n1000,-50,4,2,1,60,0,1\n\n[Colours]\nCombo1 : 1,2,3\nSliderBorder : 4,5,6\n\n[Metadata]\nTitle:after the run\nBeatmapID:7\n\n[Difficulty]\nOverallDifficulty:8\n\n[Editor]\nBookmarks: 1,2\n\n[General]\nMode: 1\nAudioLeadIn: 5\n\n[HitObjects]\n64,64,1500,1,0,0:0:0:0:\n"
        for tag, body in (("storyboard-commands", "[Events]\nSprite,Foreground,Centre,\"sb.png\",320,240\n" + " M,0,0,1000,320,240,330,250\n" * big),
                          ("junk-in-hitobjects", "[HitObjects]\n" + "x,y\n" * big),
                          ("junk-in-general", "[General]\n" + "NoSuchKey\n" * big),
                          ("junk-in-timingpoints", "[TimingPoints]\n" + "a,b\n" * big),
                          ("junk-in-colours", "[Colours]\n" + "Combo1 : 1,2\n" * big)):
            cases.append(Case("dec9 " + hexs((head + body + "\n" + tail).encode()), tags=("scale-" + tag,)))
        return cases

    def is_nontrivial(self, case, impl_out):
        return "n=0 ##" not in impl_out and impl_out.startswith("Beatmap=ok")


PROP = C07()
