import itertools
import math
import re

from ..codecgen import codec_cases
from ..gen import hexs
from ..runner import Case, Property

# the line alphabet of the property's quantifier: (tag, text)
#   fields: time,beatLength,meter,sampleSet,sampleIndex,volume,uninherited,effects
TINY = "0.00000000000000001"      # 1e-17 < f64::EPSILON: shares the group of time 0
ALPHA = [
    ("T0", "0,500,4,1,0,100,1,0"),
    ("T0+", TINY + ",400,4,1,0,100,1,0"),
    ("T10", "10,500,4,1,0,100,1,0"),
    ("T10b", "10,250,3,2,1,50,1,1"),
    ("T10short", "10,333"),
    ("T20", "20,500,4,1,0,100,1,0"),
    ("T-5", "-5,500,4,1,0,100,1,0"),
    ("T0neg", "0,-100,4,1,0,100,1,0"),
    ("T20zero", "20,0,4,1,0,100,1,8"),
    ("T20huge", "20,1000000000,4,1,0,100,1,9"),
    ("T10nan", "10,nan,4,1,0,100,1,0"),
    ("T10inf", "10,inf,4,1,0,100,1,0"),
    ("T10range", "10,3000000000,4,1,0,100,1,0"),
    ("I0", "0,-50,4,1,0,100,0,0"),
    ("I10", "10,-50,4,1,0,100,0,0"),
    ("I20", "20,-50,4,1,0,100,0,0"),
    ("I10one", "10,-100,4,1,0,100,0,0"),
    ("I10soft", "10,-200,4,2,0,70,0,1"),
    ("I0+loud", TINY + ",-25,4,3,0,150,0,0"),
    ("I10nan", "10,nan,4,1,0,100,0,0"),
    ("I-5bad", "-5,-1000,4,7,2,-20,0,0"),
    ("I20fast", "20,-1,4,0,0,100,0,0"),
    ("I10pos", "10,100,4,1,0,100,0,8"),
    ("I20negidx", "20,-100,4,2,-3,80,0,0"),
    ("T20bank0", "20,500,4,0,0,100,1,0"),
    ("I10bank0", "10,-100,4,0,0,100,0,0"),
]

FLOAT_RE = re.compile(r"^[+-]?(\d+\.?\d*|\.\d+)([eE][+-]?\d+)?$")


def line_zero_signs(line):
    """signs of the zero times among the timing-point lines of a `tp` request"""
    signs = set()
    for tok in line.split()[2:]:
        if tok.startswith("g"):
            continue
        try:
            text = bytes.fromhex(tok).decode("utf-8", "replace") if tok != "-" else ""
        except ValueError:
            continue
        text = text.split("//")[0]
        f = text.split(",")[0].strip()
        if FLOAT_RE.match(f):
            try:
                x = float(f)
            except ValueError:
                continue
            if x == 0.0:
                signs.add(math.copysign(1.0, x))
    return signs


GEN_KEYS = ["AudioFilename", "AudioLeadIn", "PreviewTime", "SampleSet", "SampleVolume", "StackLeniency", "Mode",
            "LetterboxInBreaks", "SpecialStyle", "WidescreenStoryboard", "EpilepsyWarning", "SamplesMatchPlaybackRate",
            "Countdown", "CountdownOffset"]
GEN_VALUES = ["", "0", "1", "2", "3", "4", "-1", "7", "0.5", "0.7", "1e3", "nan", "inf", "-inf", "2147483647", "2147483648",
              "-2147483648", "-2147483647", "3000000000", "Normal", "Soft", "Drum", "None", "Half speed", "Double speed",
              "normal", "a\\b\\c.mp3", "\"q\".mp3", "x:y", "1:2", " 1 ", "+1", "1 // c", "1//c", "0x1", "1.0", "１",
              "03", "00", "255", "256", "-0", "+0", "3 ", "1e0"]


def rand_field(rng, kind):
    r = rng.random()
    if r < 0.08:
        return rng.choice(["", " ", "x", "1x", "+", "-", "1 1", "0x10", "１", "1e", "--1", "nan", "NaN", "inf", "-inf", "1e400", "\t3 "])
    if kind == "time":
        return rng.choice(["0", "-0", "0.0", TINY, "-" + TINY, "10", "10.0", "10.00000000000000001", "20", "-5", "5", "15", "1e1",
                           "2147483647", "2147483648", "-2147483648", " 10", "10 ", "+10", "0.5", "100.25", str(rng.randint(-50, 200)),
                           repr(rng.uniform(-10, 100))])
    if kind == "beat":
        return rng.choice(["500", "250", "-100", "-50", "-200", "-25", "-1000", "-1", "0", "-0", "6", "5.999", "60000", "60001", "1e9",
                           "-1e9", "2147483647", "2147483648", "-2147483648", "-2147483649", "nan", "NaN", "-nan", "inf", "-inf", " 500 ",
                           "+500", "1e-5", "-1e-5", "-0.00001", "-10000", "-9", "-10", "-11", repr(rng.uniform(-500, 1000))])
    if kind == "meter":
        return rng.choice(["4", "4", "3", "7", "0", "04", "00", "-1", "1", " 4", "4 ", "2147483647", "2147483648", "+3", "0x"])
    if kind == "bank":
        return rng.choice(["0", "1", "2", "3", "4", "-1", "7", " 2", "2 ", "+2", "2147483648"])
    if kind == "custom":
        return rng.choice(["0", "0", "1", "2", "-1", "100", " 1 ", "2147483647"])
    if kind == "vol":
        return rng.choice(["100", "100", "50", "0", "-20", "150", "101", "70", " 60 ", "2147483647", "-2147483648"])
    if kind == "unin":
        return rng.choice(["1", "1", "0", "0", "", "2", "10", "01", " 1", "1 ", "x", "-1", "11"])
    if kind == "fx":
        return rng.choice(["0", "1", "8", "9", "3", "-1", "-8", "16", " 1", "1 ", "+1", "2147483647", "-2147483648", "2147483648", ""])
    return "0"


KINDS = ["time", "beat", "meter", "bank", "custom", "vol", "unin", "fx"]

CLEAN = {
    "beat": ["500", "250", "-100", "-50", "-200", "-25", "-1000", "-1", "0", "-0", "6", "5.999", "60000", "60001", "1e9", "-1e9", "nan", "NaN",
             "1e-5", "-1e-5", "-10000", "-9", "-10", "-11", "-100.00000000000001", "-99.99999999999999", "-33.333333333333336"],
    "meter": ["4", "4", "3", "7", "1", "12", "260", "-252", "2147483647", "-2147483648"],
    # every integer field also with values that are valid or special only after a narrowing cast (256 + k, 65536 + k, -256 + k),
    # at the ends of the accepted range and one beyond (seeds C12-m, C12-n)
    "bank": ["0", "1", "2", "3", "4", "-1", "7", "256", "257", "259", "-254", "-256", "65537", "2147483647", "-2147483647", "-2147483648"],
    "custom": ["0", "0", "1", "2", "-1", "100", "256", "65536", "2147483647", "-2147483647", "-2147483648", "2147483648"],
    "vol": ["100", "100", "50", "0", "-20", "150", "101", "70", "256", "356", "-156", "2147483647", "-2147483647", "-2147483648"],
    "unin": ["1", "0"],
    "fx": ["0", "1", "8", "9", "3", "15", "2", "257", "264", "-2147483648", "2147483647"],
}


def clean_line(rng, times):
    """a line in the plain-number grammar the implementation-level oracle reads, trailing fields omitted at random"""
    n = rng.choice([8, 8, 8, 8, 8, 7, 6, 5, 4, 3, 2])
    f = [rng.choice(times)]
    for i in range(1, n):
        f.append(rng.choice(CLEAN[KINDS[i]]))
    return ",".join(f)


def rand_line(rng, times):
    n = rng.choice([8, 8, 8, 8, 7, 6, 5, 4, 3, 2, 2, 1, 9, 10])
    f = []
    for i in range(n):
        k = KINDS[i] if i < 8 else "fx"
        if k == "time" and rng.random() < 0.8:
            f.append(rng.choice(times))
        else:
            f.append(rand_field(rng, k))
    s = ",".join(f)
    r = rng.random()
    if r < 0.06:
        s += rng.choice([" // c", "// c", " //", "//", " // 1,2,3"])
    elif r < 0.1:
        s = rng.choice([" ", "\t", ""]) + s + rng.choice([" ", "  ", "\t"])
    elif r < 0.12:
        s = rng.choice(["", "//", "// " + s, ",", ",,", s.replace(",", ";")])
    return s


class C12(Property):
    id = "C12"
    lean_module = "RosuModel.Props.C12Full"   # imports Props/C12Exact.lean (→ Props/C12.lean → Props/C13.lean) and Props/C12Ieee.lean; namespace Rosu.C12
    theorem_modules = ['RosuModel.Props.C12Exact', 'RosuModel.Props.C12Ieee', 'RosuModel.Props.C12IeeeSorted']   # files whose top-level theorems are all audited
    namespace = "Rosu.C12"
    design_ref = "5.12"
    level_text = (
        "Lean 4 theorems over the model of parse_timing_points / add_control_point / flush_pending_points / From<TimingPointsState> "
        "(Model/TimingDecode.lean, with Model/General.lean and Model/ControlPoints.lean), for every [Scalar F] and every sequence of lines, unbounded: "
        "pending_eq_groups — decoding any line sequence from a state with no open group equals the legacy model: the accepted lines cut into groups "
        "(a line within eps of the previous accepted line continues its group), each group resolved per kind (last inherited line, else first "
        "timing-change line; timing points from timing-change lines only) and added through the public add in the order timing, difficulty, effect, "
        "sample (flush_order, addGroup_eq_ops — so C13's redundancy / replacement / ordering theorems apply to every group); rejected lines leave no "
        "trace (rejected_line_no_trace); lists_strictly_sorted for any interleaving of lines; clamps (beat length, slider velocity, scroll speed only "
        "in taiko/mania and exactly 1 elsewhere, volume) as an invariant of every stored and pending point; line_fields_* (defaults of omitted trailing "
        "fields, timing_change default true and first-character test, sample set never None, volume in [0,100]); nan_only_inherited / nan_inherited_point. "
        "Props/C12Exact.lean closes the NaN and reflexivity gaps: accepted_line_numbers / accepted_time_inRange (NO law: an accepted line's time passed the parser's "
        "+-(2^31-1) range and NaN tests, a timing change has a non-NaN beat length, the speed multiplier is 100/-beat_len or 1); under the minimal hypothesis structure "
        "NanLaws (six literals are numbers, 100/-b is a number for b < 0, NaN is not < 0, numbers are comparable, 0.1 <= 1 <= 10 and 0.01 <= 1; instance on a toy scalar "
        "that HAS a NaN and parses 'nan': nanLaws_zn) stored_not_nan / clamps_ordinary (every stored time, beat length, slider velocity, scroll speed is not NaN and lies "
        "in its range with the scalar's own <=) and nan_inherited_line (NaN beat length on an inherited line: accepted, ticks off, velocity and scroll speed exactly 1); "
        "pending_eq_groups_finite (the sameGroup t t assumption discharged from the parser's range check, leaving FiniteSelfGroup: finite t has |t-t| < eps) and "
        "pending_eq_groups_exact (under ExactScalar of Lemmas/ExactArith.lean with eps > 0; instance on the reals: finiteSelfGroup_real); "
        "Props/C12Ieee.lean instantiates all of this on the scalars the driver runs: NaNLaw, TpClampLaws, NanLaws and FiniteSelfGroup are theorems for Float and Float32 (Lean 4.33: Float is a structure over the "
        "logical model Float.Model and reduces in the kernel; order theory in Lemmas/FloatModelCompare.lean), so clamps_float, clamps_ordinary_float, stored_not_nan_float, nan_inherited_line_float and "
        "pending_eq_groups_float hold for IEEE doubles with no hypothesis about the numbers; "
        "lists_strictly_sorted_time (strictly increasing in TIME with one point per time, under C13's TimeKeyOn on the accepted times). "
        "Model tied to the code on every run through the public TimingPoints::parse_general / parse_timing_points / From on exhaustive short sequences "
        "over the property's line alphabet in all four modes + random long sequences (omitted trailing fields, malformed fields, comments, whitespace, "
        "[General] lines) + the [General] parser alone + the number-codec differential; an independent transcription of the legacy group rule is evaluated "
        "on the implementation for the failing-input search.")
    technique = ("Lean 4 proof (induction over line histories; refinement of the pending-slot state machine by the declarative group rule) "
                 "+ differential correspondence on the public parse_general / parse_timing_points API")
    required_theorems = [
        "pending_eq_groups", "runTpLines_finish", "runStrs_eq_runTpLines", "group_pending_eq_resolve", "applyTpLine_eq",
        "push_front_keeps_first", "push_front_fills_empty", "push_back_takes_last", "foldl_slot_all", "foldl_slot_timing",
        "flush_order", "addGroup_eq_ops", "rejected_line_no_trace",
        "lists_strictly_sorted", "lists_strictly_sorted_fresh",
        "clamps", "clamp_within", "line_clamped", "scroll_one_outside_taiko_mania", "clampVolume_range",
        "line_fields_defaults", "line_fields_timing_change", "line_fields_sample_set", "line_fields_omitted", "line_fields_volume",
        "line_fields_too_short", "parseTpRaw_ok",
        "nan_only_inherited", "nan_inherited_point",
        "inv_create", "inv_parseGeneral", "inv_applyTpLine",
        # Props/C12Exact.lean
        "scalarParse_inRange", "parseBeatLen_range", "accepted_line_numbers", "accepted_time_inRange", "clamp_not_nan", "clamp_nan_stays",
        "speedMultiplier_not_nan", "between_of_within", "line_ordinary", "clamps_ordinary", "clamps_ordinary_fresh", "stored_not_nan",
        "nan_inherited_point_one", "nan_inherited_line", "pending_eq_groups_finite", "sameGroup_exact", "finiteSelfGroup_of_exact",
        "pending_eq_groups_exact", "lists_strictly_sorted_time", "nanLaws_zn", "clampLaws_zn", "finiteSelfGroup_real",
        # Props/C12Ieee.lean: the law structures are theorems for the driver's Float (and Float32); headline theorems with no hypothesis left
        "nanLaw_float", "tpClampLaws_float", "nanLaws_float", "sameGroup_self_float", "finiteSelfGroup_float",
        "clamps_float", "clamps_ordinary_float", "clamps_ordinary_fresh_float", "stored_not_nan_float",
        "nan_inherited_point_float", "nan_inherited_line_float", "pending_eq_groups_float",
        "nanLaw_float32", "tpClampLaws_float32", "nanLaws_float32", "finiteSelfGroup_float32",
    ]
    partial_theorems = {
        "pending_eq_groups / pending_eq_groups_finite / pending_eq_groups_exact":
            "the reflexivity assumption is now discharged from the parser (accepted_time_inRange, no law: accepted times are within +-(2^31-1) and not NaN); what "
            "remains is the single law FiniteSelfGroup (|t - t| < eps for such t), proved from ExactScalar with eps > 0 (reals) and on the toy Z, and NOW ALSO for the driver's "
            "Float (Props/C12Ieee.lean; Lean 4.33's Float is a structure over the logical model Float.Model, so `-`, `abs`, `<` reduce in the kernel): FMO.sub_self_float (t - t = +0 exactly for "
            "finite t, Lemmas/FloatModelCompare.lean) gives finiteSelfGroup_float : FiniteSelfGroup Float, and sameGroup_self_float shows every IEEE double, ±inf and NaN included, is in its own group "
            "(the decoder tests the negation of |t - u| >= eps). Hence pending_eq_groups_float: the group refinement holds for IEEE doubles for every sequence of lines with NO hypothesis about the "
            "numbers (only `no open group at the start`). Float32: finiteSelfGroup_float32",
        "clamps / clamps_ordinary / stored_not_nan":
            "that stored values are not NaN and lie in lo <= y <= hi in the ordinary sense is now proved for every line sequence, law-free for times and for "
            "'a timing point's raw beat length is not NaN', otherwise under NanLaws + TpClampLaws (facts about NaN, the literals and totality of < on numbers; "
            "instance on a toy scalar with a NaN). Both law sets are now THEOREMS for the driver's Float and Float32 (Props/C12Ieee.lean: nanLaw_float, tpClampLaws_float, nanLaws_float and the "
            "_float32 twins — the literals are evaluated by `decide +kernel`, the order facts come from the class FMO.IeeeOrd of Lemmas/FloatModelCompare.lean, `100 / -b is a number` from FMO.isNaN_div_float), "
            "so clamps_float, clamps_ordinary_float, clamps_ordinary_fresh_float and stored_not_nan_float hold for IEEE doubles with no law hypothesis left (the implementation-level oracle still checks "
            "6 <= beat_len etc. with IEEE comparisons on every case)",
        "nan_inherited_point / nan_inherited_point_one / nan_inherited_line":
            "law-dependent: 'NaN < 0 is false' (generate_ticks = false, multiplier 1) plus the literal comparisons not(1 < 0.1), not(10 < 1), not(1 < 0.01) for "
            "'velocity and scroll speed are exactly 1'; for IEEE doubles the laws are theorems and nan_inherited_point_float / nan_inherited_line_float state the clause with no hypothesis about the arithmetic",
        "lists_strictly_sorted / lists_strictly_sorted_time":
            "lists_strictly_sorted is by the total_cmp key (holds for IEEE). 'Strictly increasing in TIME, one point per time' is proved under C13's TimeKeyOn S for "
            "the set S of accepted times (lists_strictly_sorted_time); for IEEE f64 that hypothesis holds unless the accepted times contain both +0.0 and -0.0 "
            "(NaN times are rejected by the parser: accepted_time_inRange) - finding F8 is the only way this clause fails. This is now a kernel-checked theorem about Float, proved in "
            "Props/C13Ieee.lean (audited under C13, namespace Rosu.C13): C13.timeKeyOn_float_iff (TimeKeyOn S iff S has no NaN and not both zeros) and C13.lists_strictly_sorted_time_float "
            "(accepted times not NaN and not -0.0 ⇒ four lists strictly increasing in time, one point per time). TimeKeyOn for Float32 is not proved",
    }
    trusted_base = [
        "Lean 4.33.0 kernel",
        "axioms: at most propext, Classical.choice, Quot.sound (audited per theorem with #print axioms)",
        "hand-written model Model/{Text,Num,ParseNum,KeyValue,Scalar,Basic,General,ControlPoints,TimingDecode}.lean tied to /repo by the differential run of this check",
        "std: str::{split, trim, trim_end, find, chars}, i32::from_str, f64/f32::from_str (exact codec of Model/FloatCodec.lean, differential cases included in this check), "
        "f64::{clamp, abs, is_nan, total_cmp}, slice::binary_search_by (contract, see C13)",
        "the *_float / *_float32 theorems are about Lean 4.33's logical float model Float.Model (Float is a structure over it; + - * / abs < <= == isNaN and literals reduce in the kernel); that the compiled "
        "@[extern] C double / float operations the driver runs agree with that model is part of Lean's own trusted code base (compiler / runtime) and is compared with Rust bit for bit by the codec differential "
        "of this run (fop64 / fop32 <add|sub|mul|div|sqrt|abs|neg|cmp|minmax>, castf32f64, castf64f32, castf64i32, castf32i32, ceilf64, ceilf32, usizef64) and by every `tp` request",
    ]
    assumptions = [
        "theorems are about the Lean model; the model is compared with the implementation only on the generated line sequences of this run",
        "law-dependent theorems (group refinement needs |t - t| < eps for finite t: FiniteSelfGroup; clamp ranges need lt to be irreflexive on the bounds: TpClampLaws; "
        "the NaN clauses and the ordinary-sense ranges need NanLaws) take the law as an explicit hypothesis structure in their generic form; for the driver's Float (and Float32) all of NaNLaw, TpClampLaws, "
        "NanLaws, FiniteSelfGroup are kernel-checked theorems (Props/C12Ieee.lean) and the headline theorems are restated with no hypothesis (clamps_float, clamps_ordinary_float, stored_not_nan_float, "
        "nan_inherited_line_float, pending_eq_groups_float)",
        "the implementation-level oracle judges sequences whose accepted lines are in its plain-number grammar and skips the rest (counted in the evidence)",
    ]
    nontrivial_rule = ("line sequences over the property's alphabet (exhaustive to a bounded length in all four modes, random beyond, with omitted "
                       "trailing fields, malformed fields, comments, whitespace); non-trivial = at least one line accepted and one point stored")

    def gen(self, rng, tier):
        cases = []
        kmax = 3 if tier == "quick" else 4
        hexed = [hexs(t.encode()) for _, t in ALPHA]
        for mode in range(4):
            for k in range(0, kmax + 1):
                for combo in itertools.product(hexed, repeat=k):
                    cases.append(Case(f"tp {mode} " + " ".join(combo), tags=(f"exhaustive-len{k}",)))
        # [General] defaults set before (or between) the lines: the sample set / volume a line without those fields takes
        for mode in (0, 1):
            for g in ("SampleSet: Soft", "SampleSet:Drum", "SampleVolume: 40"):
                gh = "g" + hexs(g.encode())
                for k in range(1, 3):
                    for combo in itertools.product(hexed, repeat=k):
                        cases.append(Case(f"tp {mode} {gh} " + " ".join(combo), tags=("general-default-first",)))
                for a, b in itertools.product(hexed, repeat=2):
                    if rng.random() < 0.25:
                        cases.append(Case(f"tp {mode} {a} {gh} {b}", tags=("general-default-between",)))
        # F8 witnesses: both zeros in different groups / in the same group
        for mode in range(4):
            for a, b in [("0", "-0"), ("-0", "0"), ("0.0", "-0.0"), ("0", "0"), ("-0", "-0")]:
                for mid in (["10,500,4,1,0,100,1,0"], []):
                    ls = [f"{a},500,4,1,0,100,1,0"] + mid + [f"{b},250,4,2,0,50,1,1"]
                    cases.append(Case(f"tp {mode} " + " ".join(hexs(l.encode()) for l in ls), tags=("zeros",)))
        n_rand = 30000 if tier == "quick" else 600000
        for _ in range(n_rand):
            mode = rng.randint(0, 3)
            times = rng.sample(["0", "0", TINY, "10", "10", "20", "-5", "5", "15", "10.5", "0.0000000000000003", "-0", "30", "1e1"], rng.randint(2, 5))
            if rng.random() < 0.85:
                times = [t for t in times if t != "-0"] or ["0"]
            toks = []
            clean = rng.random() < 0.5
            tags = ["random-clean" if clean else "random"]
            for _ in range(rng.choice([1, 2, 3, 5, 8, 13, 21, 40])):
                if clean:
                    toks.append(hexs(clean_line(rng, times).encode()))
                elif rng.random() < 0.03:
                    g = rng.choice(["SampleSet", "SampleVolume", "Mode"]) + ":" + rng.choice(["0", "1", "2", "3", "Soft", "Drum", "70", "x", "-5", "150"])
                    toks.append("g" + hexs(g.encode()))
                    if "general-lines" not in tags:
                        tags.append("general-lines")
                elif rng.random() < 0.3:
                    toks.append(hexs(rng.choice(ALPHA)[1].encode()))
                else:
                    toks.append(hexs(rand_line(rng, times).encode()))
            cases.append(Case(f"tp {mode} " + " ".join(toks), tags=tags))
        # the [General] parser on its own (TimingPointsState embeds GeneralState; mode and the sample defaults come from it)
        for k in GEN_KEYS + ["Unknown", "mode", "", "Mode "]:
            for v in GEN_VALUES:
                for sep in (":", ": ", " : "):
                    cases.append(Case("gen " + hexs(f"{k}{sep}{v}".encode()), prop=False, tags=("general-matrix",)))
        for _ in range(3000 if tier == "quick" else 60000):
            ls = []
            for _ in range(rng.choice([1, 2, 3, 5, 8])):
                l = rng.choice(GEN_KEYS + ["Unknown"]) + rng.choice([":", ": ", " :", "", "::"]) + rng.choice(GEN_VALUES)
                if rng.random() < 0.1:
                    l = rng.choice([" ", ""]) + l + rng.choice([" // x", "//", " "])
                ls.append(l)
            cases.append(Case("gen " + " ".join(hexs(l.encode()) for l in ls), prop=False, tags=("general-random",)))
        # the number codec the field parsers rest on
        cases += codec_cases(rng, 300 if tier == "quick" else 5000)
        return cases

    def is_nontrivial(self, case, impl_out):
        if not case.line.startswith("tp "):
            return False
        return "ok" in impl_out.split(" ")[0] and "T=- D=- E=- S=-" not in impl_out

    def known(self, case, out, findings):
        # F8: the lines contain both a time that parses to +0.0 and one that parses to -0.0
        if any(f["id"] == "F8" for f in findings) and case.line.startswith("tp "):
            if line_zero_signs(case.line) == {1.0, -1.0}:
                return "F8"
        return None

    def shrink(self, case, still_fails):
        toks = case.line.split()
        head, ops = toks[:2], toks[2:]
        changed = True
        while changed and len(ops) > 1:
            changed = False
            for i in range(len(ops)):
                cand = ops[:i] + ops[i + 1:]
                c = Case(" ".join(head + cand), tags=case.tags)
                if still_fails(c):
                    ops = cand
                    changed = True
                    break
        return Case(" ".join(head + ops), tags=case.tags)


PROP = C12()
