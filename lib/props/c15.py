import re
import struct

from ..filegen import bundled
from ..gen import hexs
from ..osugen import gen_map
from ..runner import Case, Property


def bits_to_f(h):
    if h == "nan":
        return float("nan")
    return struct.unpack(">d", struct.pack(">Q", int(h, 16)))[0]


TIME_RE = re.compile(r"\b(t|d)=([0-9a-f]+|nan)")


def _sample_times(dump):
    seg = dump[dump.index("T["):dump.index("] C[")]
    m = re.search(r"sp=(\S+)", seg)
    if not m or m.group(1) == "-":
        return []
    return [bits_to_f(item.split(":")[0]) for item in m.group(1).split(",")]


def slider_node_rounding(A, B, k):
    """finding F24, the defect-aware reading of a `decshift` pair that differs beyond its times: the two dumps differ ONLY in the
    sample fields of sliders, and for every such slider some sample lookup time - start + i*duration/spans + 5 for a node, start +
    duration + 5 for the object, evaluated in doubles exactly as the finaliser does, with the slider's stored length as its distance -
    falls on different sides of a stored sample point's time in the two files although the exact times are shifts of one another
    (the duration is not a whole number, so (start + k) + d and (start + d) + k round differently). Returns a short description or None."""
    ha, hb = A[A.index("H["):], B[B.index("H["):]
    oa, ob = ha.split(" | "), hb.split(" | ")
    if len(oa) != len(ob):
        return None
    spa, spb = _sample_times(A), _sample_times(B)
    if len(spa) != len(spb):
        return None
    strip = lambda o: re.sub(r"\b(ns|s)=\S+", "", TIME_RE.sub("", o))
    found = []
    for a, b in zip(oa[1:], ob[1:]):
        if TIME_RE.sub("", a) == TIME_RE.sub("", b):
            continue
        if not (a.startswith("S ") and b.startswith("S ")) or strip(a) != strip(b):
            return None
        ma = re.search(r"t=(\S+) .* rc=(\d+) len=(\S+) vel=(\S+)", a)
        mb = re.search(r"t=(\S+) ", b)
        if not ma or not mb or ma.group(3) == "-":
            return None
        ta, tb = bits_to_f(ma.group(1)), bits_to_f(mb.group(1))
        spans = float(int(ma.group(2)) + 1)
        dur = spans * bits_to_f(ma.group(3)) / bits_to_f(ma.group(4))
        if dur != dur or dur == int(dur):
            return None
        looks = [(lambda t, i=i: t + float(i) * dur / spans + 5.0) for i in range(int(spans) + 1)] + [lambda t: (t + dur) + 5.0]
        hit = None
        for f in looks:
            la, lb = f(ta), f(tb)
            for pa, pb in zip(spa, spb):
                if (pa <= la) != (pb <= lb):
                    hit = f"lookup at {la!r} against the sample point at {pa!r}, shifted {lb!r} against {pb!r}"
                    break
            if hit:
                break
        if not hit:
            return None
        found.append(hit)
    return found[0] if found else None


class C15(Property):
    id = "C15"
    # C15Full imports C15Velocity and C15Ieee; chain: C15Velocity ▸ C15ShiftLines ▸ C15Shift (▸ Lemmas/ShiftLaws) ▸ C15Map ▸ C15; C15Ieee ▸ C15Map; all in namespace Rosu.C15
    lean_module = "RosuModel.Props.C15Full"
    theorem_modules = ['RosuModel.Props.C15Velocity', 'RosuModel.Props.C15Ieee', 'RosuModel.Props.C15IeeeDecoded', 'RosuModel.Props.C15ShiftOn', 'RosuModel.Props.C15ShiftLinesOn', 'RosuModel.Props.C15IeeeShift', 'RosuModel.Props.C15IeeeVelocity',
                       ('RosuModel.Lemmas.FloatIntExact', 'Rosu.FIE'), ('RosuModel.Lemmas.ShiftLawsOn', 'Rosu'), 'RosuModel.Props.C15ComboOnly', 'RosuModel.Props.C15ComboOnlyAny']   # files whose top-level theorems are all audited
    namespace = "Rosu.C15"
    design_ref = "5.15"
    required_theorems = [
        "postProcessBreaks_flags", "forced_consumed_by_hold", "changed_flag_cursor", "only_first_after_break_forced_partial", "only_first_after_break_forced",
        "only_first_after_break_forced_float", "chain_ieee",
        "velocity_worded_err_float", "velocity_factors_float", "velocity_not_exact_float",
        "shiftLawsOn_float_int", "shift_invariant_float_int", "shift_invariant_float_int_erased", "beatmap_shift_invariant_float_int", "slider_samples_shift_witness",
        "slider_samples_shift_false", "shift_invariant_float_int_statement_false", "shift_invariant_on", "shift_invariant_on_erased", "finish_rel_on","sorted_perm", "sorted_nondecreasing", "sorted_stable", "postProcessBreaks_length", "orNewCombo_only_sets",
                         "skipBreaks_spec", "skipBreaks_stops", "precisionAdjusted_form", "slider_finalized", "applyNodeSamples_length",
                         "finalizeObjects_times", "apply_default_sample", "apply_file_sample", "clampVolume_range",
                         # Props/C15Map.lean
                         "first_after_break_aux", "first_after_break_new_combo", "pairwise_of_consecutive",
                         "first_after_break_unconditional_false", "first_after_break_new_combo_decoded",
                         "apply_idempotent", "apply_fixed_iff", "apply_fixed_of_resolved", "apply_resolves", "apply_absorbs",
                         "postProcessBreaks_pointwise", "finalizeObject_sim", "finalizeObjects_pointwise", "finalize_perm",
                         "finalize_length_times",
                         # Lemmas/ShiftLaws.lean (searches / lookups / adds / flush commute with + k under ShiftLaws)
                         "searchKey_map", "lookupChecked_map", "lookupSaturating_map", "insertOrReplace_map",
                         "timingPointAt_shift", "difficultyPointAt_shift", "effectPointAt_shift", "samplePointAt_shift", "lookup_shift",
                         "addTiming_shift", "addDifficulty_shift", "addEffect_shift", "addSample_shift", "flushInto_shift",
                         # Props/C15Shift.lean (finalisers)
                         "sort_shift", "skipBreaks_shift", "postProcessBreaks_shift", "applyNodeSamples_shift",
                         "finalizeObject_shift", "finalizeObjects_shift", "tp_finish_rel", "tp_finish_shift", "finish_rel",
                         "finish_shift", "beatmap_finish_shift", "zShiftLaws", "zSorted",
                         # Props/C15ShiftLines.lean (line parsers, fold)
                         "maybeFlush_rel", "applyTpLine_rel", "parseTpRaw_shift", "tp_parse_line_shift", "ev_parse_line_shift",
                         "parseHeader_shift", "buildSpinner_shift", "buildHold_shift", "buildSlider_shift", "ho_parse_line_shift",
                         "parse_line_shift", "step_shift", "fold_shift", "shift_invariant_partial", "beatmap_step_shift",
                         "beatmap_fold_shift", "beatmap_finish_rel", "beatmap_shift_invariant_partial", "shift_invariant_Z", "zBody_shift",
                         # Props/C15Velocity.lean (worded formula, exact rationals)
                         "sClamp", "inv_clamp_osu", "inv_clamp_taiko", "clampedSV_of_range", "precisionAdjusted_rat",
                         "velocity_worded", "difficultyPoint_new_range", "slider_finalized_worded",
                         # Props/C15Ieee.lean: the order hypotheses of first_after_break_new_combo discharged for IEEE doubles
                         "le_lt_ieee", "le_trans_ieee", "first_after_break_new_combo_float", "pairwise_of_consecutive_float",
                         "pairwise_of_consecutive_le_float", "first_after_break_new_combo_decoded_float"]
    partial_theorems = {
        "only_first_after_break_forced_float / postProcessBreaks_flags": "Props/C15ComboOnly.lean, Props/C15ComboOnlyAny.lean (sixth session, wave 12): the CONVERSE of the break clause — every object other "
            "than the first after a break keeps the new-combo flag of its line (what the harness oracle checks since seed C15-r). postProcessBreaks_flags: the result has the same length, every object keeps "
            "everything but the flag, a hold note is untouched, and the flag is `flag || (forced ∧ ¬hold)` where `forced` holds exactly when the break under the cursor ended before the object; "
            "forced_consumed_by_hold (a hold note after a break takes the pending force: the next object keeps its flag — the seeded defect's shape); changed_flag_cursor; only_first_after_break_forced: a changed "
            "flag is false → true on a non-hold object that is the FIRST object after some break, for any listing of the breaks and any order of the objects, under the single order law ChainLaw — a theorem of "
            "IEEE comparisons (chain_ieee, NaN included), so only_first_after_break_forced_float has no hypothesis. Every [Scalar F]; full strength",
        "first_after_break_new_combo": "proved under the hypothesis that the breaks are listed in non-decreasing end-time order (pairwise ¬ b₂.end < b₁.end; "
            "pairwise_of_consecutive derives it from the consecutive form) and one order fact about `<` on the values involved (x ≤ y < z → x < z on a set N containing "
            "all break ends and object starts — taken as a hypothesis in the generic form, instantiated on the integer toy scalar): for EVERY break the first "
            "object after it that is not a hold has new_combo = true, at the level of post_process_breaks and of the decoded HitObjects. For the driver's Float the order fact is now a theorem with N := the "
            "non-NaN values (Props/C15Ieee.lean: le_lt_ieee, le_trans_ieee from the IEEE order theory of Lemmas/FloatModelCompare.lean — Lean 4.33's Float is a structure over the logical model Float.Model and `<` "
            "reduces in the kernel), so first_after_break_new_combo_float / first_after_break_new_combo_decoded_float hold for IEEE doubles with only the hypotheses the property needs: break ends and object "
            "starts are not NaN (parsed times never are: C11.floatParse_not_nan) and the breaks are in non-decreasing end-time order (pairwise_of_consecutive_float; pairwise_of_consecutive_le_float from the "
            "natural reading b₁.end <= b₂.end of consecutive breaks). Without the order hypothesis "
            "the clause is false: first_after_break_unconditional_false proves the negation on breaks (7464,8164),(16954,17054),(3902,3902) with an object at 4601 "
            "(finding F14), so on unordered breaks the clause is evaluated by the oracle and classified as the known finding",
        "finalize_perm": "the decoded list is related position by position (ObjSim) to the stably sorted parsed list: same start time, same kind and line-level fields, "
            "new-combo only raised, slider velocity / node samples (same count) and per-sample defaults changed; that the changed values are the documented ones is "
            "slider_finalized / apply_default_sample, not restated here",
        "shift_invariant_float_int_erased / shift_invariant_float_int / beatmap_shift_invariant_float_int (the shift clause on IEEE DOUBLES, integer times)":
            "sixth session: Lemmas/FloatIntExact.lean (add_int_exact_float / sub_int_exact_float: Float.ofInt a ± Float.ofInt b = Float.ofInt (a ± b) below 2^53; lt_ofInt / le_ofInt / eq_ofInt / "
            "totalKey_lt_ofInt: comparisons and the total_cmp key of Float.ofInt values are those of the integers; isNaN_ofInt), Lemmas/ShiftLawsOn.lean (the shift laws restricted to a set S of times, "
            "membership carried as explicit hypotheses CPIn / PendingIn / ObjIn because no bounded set is closed under +; lookup_shift_on, add*_shift_on, flushInto_shift_on), Props/C15ShiftOn.lean, "
            "Props/C15ShiftLinesOn.lean, Props/C15IeeeShift.lean: shiftLawsOn_float_int - for |k| < 2^51 the laws HOLD of the driver's Float on IntTime = {Float.ofInt z : |z| < 2^51}, with no hypothesis "
            "about the arithmetic; hence for files whose time fields are such integers and whose derived lookup times stay in range (ObjIn: start, start + 5, start + duration, start + duration + 5 for "
            "circles / spinners / holds) shifting by k shifts all control points, lookups, object times, the sort order, forced new combos, breaks, and leaves slider velocity, curve, error outcomes and "
            "every circle / spinner / hold entirely unchanged: without sliders the finalised map is exactly the shifted one (shift_invariant_float_int, shift_invariant_float_int_finish, "
            "beatmap_shift_invariant_float_int); with sliders everything except each slider's node samples and samples (shift_invariant_float_int_erased). THE REMAINING CLAUSE IS FALSE in IEEE doubles "
            "and is refuted in the kernel: slider_samples_shift_witness / slider_samples_shift_false / shift_invariant_float_int_statement_false - a slider at 1000 with duration 1 - 2^-45 ms and a sample "
            "point at 1006 resolves volume 30, shifted by -1000 it resolves volume 100, because fl(1000 + d) = 1001 and fl(0 + d) = d (add_right_comm_nonint_false). Replayed on the real crate by the "
            "`decshift` oracle: finding F24 (corpus/C15/f24.case)",
        "shift_invariant": "proved as a LAW-DEPENDENT theorem, not for IEEE floats. Hypothesis structure ShiftLaws F k (Lemmas/ShiftLaws.lean): x ↦ x + k is strictly monotone "
            "for the total_cmp key and for IEEE <, keeps NaN-ness, (a+k)−(b+k) = a−b, (a+k)+d = (a+d)+k. Under it: (1) finish_shift / finish_rel / beatmap_finish_shift — the "
            "finalisers commute with adding k to every stored time (stable sort, post_process_breaks, timing / difficulty / sample point lookups via lookup_shift, node and object "
            "sample defaults, the flush of the pending control-point group); velocities, durations, samples, flags and the error outcome are unchanged; (2) parse_line_shift "
            "(tp_/ev_/ho_parse_line_shift) — timing-point, [Events] and hit-object lines that differ only in time fields parsing (model parser, not reasoned about) to t and t+k "
            "give related state updates and the same accept/reject result; spinner/hold durations are end−start and hence unshifted; (3) shift_invariant_partial / "
            "beatmap_shift_invariant_partial — fold over any list of (section, line) pairs from the initial state, then finish. Instantiated for every k on the exact integer scalar "
            "Z (zShiftLaws, shift_invariant_Z) with worked examples on real text lines (zBody_shift). NOT proved: shift_invariant_statement for the Float instance (would need "
            "t + k exact for all times involved and exactness of every derived sum — IEEE rounding reasoning on fractional times; e.g. −0 + 0 changes the total_cmp key, which is a kernel-checked refutation: "
            "Rosu.IeeeFalse.shiftLaws_zero_float_false : ¬ ShiftLaws Float 0 in Props/IeeeFalse.lean, audited under C02 — so even for k = 0 the theorems under ShiftLaws are vacuous on the IEEE instance), and the step from decimal text "
            "to 'this field parses to t + k' (number codec), and the framing loop (lines are taken as already tagged with their section). That regime is evaluated on the "
            "implementation by decoding pairs of files whose times differ by a whole number of milliseconds",
        "velocity_worded_err_float (the velocity formula on IEEE DOUBLES)":
            "sixth session, Props/C15IeeeVelocity.lean over Lemmas/FloatErrMul.lean (the standard model of IEEE multiplication and division for Lean's logical doubles: mul_err_float / div_err_float, "
            "|delta| <= 2^-53 in the normal range, absolute bound max(2^-53 |exact|, 2^-1075) everywhere; division at the full half-ulp bound) and Lemmas/FloatErrRange.lean: for slider multiplier in [0.4, 3.6], beat length in "
            "[6, 60000] and slider-velocity multiplier in [0.1, 10] (the decoded ranges) the velocity the finaliser stores, velocityF = (100 as f32 as f64) * SM / precision_adjusted_beat_len(sv, bl, mode), is finite and "
            "|v - 100 * SM * sv' / bl| <= 6 * 2^-53 * (100 * SM * sv' / bl) with sv' the clamped multiplier (velocity_worded_err_float; velocity_factors_float gives the five rounding factors; finiteness, no overflow / underflow and "
            "the sign test are DERIVED from the ranges). Exact equality is false in IEEE: velocity_not_exact_float (osu!, SM 2.7, beat length 333.33, sv 1.5: relative error 2.70 * 2^-53, kernel-evaluated), so 'equals' in the property holds up to six "
            "half-ulps and not bit for bit",
        "velocity/duration": "slider_finalized is the closed form as the code evaluates it (IEEE, any Scalar). velocity_worded / slider_finalized_worded prove, in exact rational "
            "arithmetic (Rat instance of Lemmas/ToyRat.lean) and for a positive active multiplier, that it equals the worded formula velocity = 100·SM·clamp(sv)/beat_len with "
            "clamp(sv) = clamp(sv, 0.01, 10) (osu!/catch) or clamp(sv, 0.1, 10) (taiko/mania), duration = spans·distance/velocity; difficultyPoint_new_range + clampedSV_of_range: "
            "a multiplier stored by DifficultyPoint::new is in [0.1, 10] where the clamp is the identity. For IEEE the two forms differ by rounding; checked within 4 ulp by the oracle",
    }
    level_text = ("Lean 4 theorems over the model of From<HitObjectsState> for HitObjects: the sort is a permutation, non-decreasing in start time and stable (core mergeSort lemmas over "
                  "the total_cmp key); break processing only sets new-combo flags and its pointer walk is characterised exactly; a finalised slider stores velocity = 100·SM / "
                  "precision-adjusted beat length with the per-mode clamp of the SV multiplier, duration = spans·dist/velocity, node samples resolved at node time + 5 ms and object "
                  "samples at end + 5 ms; SamplePoint::apply takes volume 0 / unspecified bank / custom index 0 from the point and gives file samples the fixed treatment; start times "
                  "and object count are untouched. Props/C15Map.lean adds the user-level clauses: with breaks listed in end-time order the first non-hold object after EACH break has "
                  "new_combo = true (for IEEE doubles with the order fact discharged: first_after_break_new_combo_float, Props/C15Ieee.lean; and the negation of the unconditional clause on a concrete witness: F14); SamplePoint::apply is idempotent, its fixed points are characterised "
                  "exactly, and a sample resolved against a point with positive volume / non-zero custom index is a fixed point of every sample point (why decode∘encode∘decode is "
                  "stable on samples); the decoded object list is position by position the stably sorted parsed list up to new-combo / velocity / sample defaults (finalize_perm). "
                  "Shift invariance is proved under an explicit law structure on the scalar (ShiftLaws: + k monotone for total_cmp and <, cancels in differences, commutes with adding a "
                  "duration) at three levels — control-point lookups/adds, the finalisers (finish_shift), the line parsers and their fold (shift_invariant_partial) — and holds "
                  "outright on the exact integer scalar; it is not a theorem about IEEE floats (ShiftLaws Float 0 is refuted in the kernel, Props/IeeeFalse.lean). The velocity closed form equals the worded formula in exact rational arithmetic "
                  "(velocity_worded). Model tied to the code by the whole-file `dec` differential (all fields by bits); the property is re-derived on the implementation "
                  "from its own pre-finalisation state (harness `c15`) and by decoding time-shifted pairs of files (`decshift`).")
    technique = "Lean 4 proof (mergeSort stability, pointer-walk invariant, closed forms; law-dependent shift invariance with an exact integer instance; worded velocity formula over Rat) + whole-file differential + closed-form / shift oracles on the implementation"
    trusted_base = [
        "Lean 4.33.0 kernel; axioms ⊆ {propext, Classical.choice, Quot.sound} per #print axioms",
        "hand-written models Model/{Finalize,Curve,ControlPoints,Decoders}.lean tied to /repo by the `dec` differential of this run",
        "Rust std: slice::sort_by is a stable sort (modelled by core List.mergeSort, proved stable)",
        "the *_float theorems are about Lean 4.33's logical float model Float.Model (Float is a structure over it, not opaque); that the compiled @[extern] C operations agree with that model is part of Lean's own "
        "trusted code base and is compared with Rust bit for bit (codec requests fop64 / fop32, casts; every `dec` request of this run)",
    ]
    assumptions = ["shifted pairs use integer times and integer shifts (the property's domain); all sums stay far below 2^53"]
    nontrivial_rule = "generated maps with sorted/unsorted objects, breaks around objects, control points around object times; non-trivial = at least one slider or break present"

    def gen(self, rng, tier):
        cases = []
        n = 1500 if tier == "quick" else 50000
        for _ in range(n):
            ls = gen_map(rng, hostile=rng.choice([0, 0, 0.1]), chronological=rng.random() < 0.6)
            data = "\n".join(ls).encode()
            cases.append(Case("dec " + hexs(data), prop=False, tags=("dec",)))
            cases.append(Case("c15 " + hexs(data), corr=False, tags=("closed-form",)))
        # many tied start times in unsorted files (a non-stable sort only shows beyond ~20 elements)
        for _ in range(150 if tier == "quick" else 5000):
            k = rng.randint(21, 80)
            times = [rng.choice([0, 1000, 2000, 3000, 1000.5]) for _ in range(rng.randint(2, 5))]
            ls = ["osu file format v14", "", "[General]", f"Mode: {rng.randint(0, 3)}", "", "[TimingPoints]", "0,500,4,2,7,60,1,0", "", "[HitObjects]"]
            for i in range(k):
                t = rng.choice(times)
                kind = rng.choice(["c", "c", "c", "n", "s"])
                if kind == "c":
                    ls.append(f"{i},192,{t},1,0,{rng.choice(['0:0:0:0:', '0:0:3:0:', '1:2:5:0:', '0:0:0:40:'])}")
                elif kind == "n":
                    ls.append(f"256,192,{t},12,0,{t + 500},0:0:2:0:")
                else:
                    ls.append(f"{i},100,{t},2,0,L|{i + 50}:100,1,50")
            data = "\n".join(ls).encode()
            cases.append(Case("dec " + hexs(data), prop=False, tags=("ties-dec",)))
            cases.append(Case("c15 " + hexs(data), corr=False, tags=("ties",)))
        for f, d in bundled()[: (8 if tier == "quick" else 1000)]:
            cases.append(Case("c15 " + hexs(d), corr=False, tags=("bundled",)))
        m = 400 if tier == "quick" else 20000
        for _ in range(m):
            seed = rng.getrandbits(48)
            k = rng.choice([1, -1, 5, 1000, -1000, 123456, -999999, 1000000, -1000000, rng.randint(-10**6, 10**6)])
            import random as _r
            a = gen_map(_r.Random(seed), hostile=0, chronological=True, tshift=0, integer_times=True, alien=False)
            b = gen_map(_r.Random(seed), hostile=0, chronological=True, tshift=k, integer_times=True, alien=False)
            cases.append(Case(f"decshift {k} {hexs(chr(10).join(a).encode())} {hexs(chr(10).join(b).encode())}", tags=("shift",)))
        # finding F24: a slider whose end (start + duration, duration a hair below a whole number) rounds differently under the shift,
        # with a sample point exactly 5 ms behind the rounded end
        for _ in range(12 if tier == "quick" else 400):
            t0 = rng.choice([1000, 1000, 2000, 4096, 100000, rng.randint(1, 10 ** 6)])
            k = rng.choice([-t0, -t0, 1000 - t0, rng.randint(-10 ** 6, 10 ** 6)])
            L = rng.choice(["0.99999999999995", "0.9999999999999", "1.99999999999995", "0.5", "1"])
            def f(sh):
                return chr(10).join(["osu file format v14", "", "[General]", "Mode: 0", "", "[Difficulty]", "SliderMultiplier:1", "", "[TimingPoints]",
                                     f"{t0 - 1000 + sh},100,4,1,0,100,1,0", f"{t0 + (2 if L.startswith('1.9') else 1) + 5 + sh},-100,4,2,0,30,0,0", "", "[HitObjects]",
                                     f"100,100,{t0 + sh},2,0,L|103:100,1,{L}", ""])
            cases.append(Case(f"decshift {k} {hexs(f(0).encode())} {hexs(f(k).encode())}", tags=("shift-slider-end-rounding",)))
        return cases

    def py_oracle(self, case, impl_out):
        t = case.line.split()
        if t[0] != "decshift":
            return None
        k = int(t[1])
        parts = impl_out.split(" ## ")
        if len(parts) != 2 or not parts[0].startswith("ok") or not parts[1].startswith("ok"):
            return "FAIL decode error"
        A, B = parts
        # everything except times must be identical; times must differ by exactly k
        ta = TIME_RE.findall(A[A.index("H["):])
        tb = TIME_RE.findall(B[B.index("H["):])
        if TIME_RE.sub("", A[A.index("H["):]) != TIME_RE.sub("", B[B.index("H["):]):
            why = slider_node_rounding(A, B, k)
            return "FAIL objects differ beyond their times" + (f" explained=slider-node-time-rounding {why}" if why else "")
        for (ka, va), (kb, vb) in zip(ta, tb):
            fa, fb = bits_to_f(va), bits_to_f(vb)
            want = fa + k if ka == "t" else fa
            if fb != want:
                return f"FAIL object {ka}: {fa} -> {fb}, shift {k}"
        # control points: T[...] entries time:...
        def cps(s):
            seg = s[s.index("T["):s.index("] C[")]
            out = []
            for grp in re.findall(r"(tp|dp|ep|sp)=(\S+)", seg):
                if grp[1] == "-":
                    continue
                for item in grp[1].split(","):
                    f = item.split(":")
                    out.append((grp[0], bits_to_f(f[0]), tuple(f[1:])))
            return out
        ca, cb = cps(A), cps(B)
        if len(ca) != len(cb):
            return f"FAIL control point count {len(ca)} vs {len(cb)}"
        for (ga, fa, ra), (gb, fb, rb) in zip(ca, cb):
            if ga != gb or ra != rb or fb != fa + k:
                return f"FAIL control point {ga} at {fa} -> {gb} at {fb} {ra} {rb}"
        # breaks
        va = A[A.index("V["):A.index("] T[")]
        vb = B[B.index("V["):B.index("] T[")]
        ba = [tuple(bits_to_f(x) for x in p.split(":")) for p in re.search(r"br=(\S+)", va).group(1).split(",") if p != "-"]
        bb = [tuple(bits_to_f(x) for x in p.split(":")) for p in re.search(r"br=(\S+)", vb).group(1).split(",") if p != "-"]
        if [(s + k, e + k) for s, e in ba] != bb:
            return "FAIL breaks not shifted"
        for tag in ("G[", "E[", "M[", "D[", "C["):
            ea = A[A.index(tag):].split("] ")[0]
            eb = B[B.index(tag):].split("] ")[0]
            if tag == "E[":
                ea = re.sub(r"bm=\S+", "", ea)
                eb = re.sub(r"bm=\S+", "", eb)
            if tag == "G[":
                ea = re.sub(r"pt=\S+", "", ea)
                eb = re.sub(r"pt=\S+", "", eb)
            if ea != eb:
                return f"FAIL section {tag} changed under shift"
        return "OK"

    def known(self, case, out, findings):
        for f in findings:
            if f.get("predicate") == "breaks-not-in-end-time-order" and "explained=breaks-not-in-end-time-order" in out:
                return f["id"]
            if f.get("predicate") == "slider-node-time-rounding" and "explained=slider-node-time-rounding" in out:
                return f["id"]
        return None

    def is_nontrivial(self, case, impl_out):
        return " | S " in impl_out or "br=4" in impl_out or "br=c" in impl_out


PROP = C15()
