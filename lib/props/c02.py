from ..filegen import bundled, small_bundled, mutate_lines
from ..gen import hexs
from ..osugen import gen_map
from ..runner import Case, Property

EXPLAINED = {
    "mode-record-after-timing-or-object-lines": "F15",
    "file-name-contains-double-slash": "F16",
    "repeated-point-at-segment-start": "F17",
    "node-sample-file-name": "F18",
    "computed-length-above-parse-limit": "F20",
    "sample-file-name-ends-with-white-space": "F21",
    "control-points-within-epsilon": "F22",
    "end-time-rounding": "F25",
    "end-time-above-parse-limit": "F26",
}


class C02(Property):
    id = "C02"
    lean_module = "RosuModel.Props.C02All"   # imports Props/C02Slider.lean, Props/C02Timing.lean, Props/C02Codec.lean (which import Props/C02.lean), Props/C02File.lean, Props/C02Decoded.lean, Props/C02CodecIeee.lean (all in namespace Rosu.C02) and Props/IeeeFalse.lean (namespace Rosu.IeeeFalse)
    theorem_modules = ['RosuModel.Props.C02All', 'RosuModel.Props.C02CodecIeee', ('RosuModel.Props.IeeeFalse', 'Rosu.IeeeFalse'), 'RosuModel.Props.C02DecodedIeee',
                       'RosuModel.Props.C02FinalParts', 'RosuModel.Props.C02Final', 'RosuModel.Props.C02FinalDecoded', 'RosuModel.Props.C02FinalMania', 'RosuModel.Props.C02FinalToy',
                       'RosuModel.Props.C02FinalUnordered', ('RosuModel.Lemmas.RtTimelineDsv', 'Rosu.RtTiming'),
                       'RosuModel.Props.C02FinalCurves', 'RosuModel.Props.C02FinalScroll', 'RosuModel.Props.C02FinalScrollToy', 'RosuModel.Props.C02FinalScrollExact', 'RosuModel.Props.C02IeeeTiming',
                       'RosuModel.Props.C02IeeeTiming2', ('RosuModel.Lemmas.FloatDivAntiPos', 'Rosu.FAM'), 'RosuModel.Props.C02Capstone', 'RosuModel.Props.C02CapstoneToy', 'RosuModel.Props.C02CapstoneToyRt', 'RosuModel.Props.C02CapstoneFalse']   # files whose top-level theorems are all audited
    namespace = "Rosu.C02"
    design_ref = "5.2"
    required_theorems = [
        "sv_roundtrip_mono_float", "scroll_roundtrip_mono_float", "sv_drift_direction_float", "sv_orbit_up_float", "sv_orbit_down_float", "sv_no_cycle_float",
        "sv_roundtrip_stable_float_partial", "sv_roundtrip_stable_critical_float", "sv_roundtrip_stable_ends_float", "sv_orbit_witnesses_float",
        "roundtrip_decoded_capstone", "roundtrip_statement_full_on_domain", "exactLaws_zc", "cap_domain", "cap_roundtrip", "cap_roundtrip_total",
        "roundtrip_statement_full_false", "f16_roundtrip_fails", "f16_other_fields", "f16_not_in_domain",
        "sv_reread_err_float", "sv_roundtrip_err_float", "scroll_roundtrip_err_float", "sv_roundtrip_not_exact_float", "svInverse_iff_float", "sv_redundancy_flips_float",
        "decoded_scroll_timeline", "decoded_scrollDrivesSv", "roundtrip_objects_decoded_scroll_partial", "unordered_scroll_counterexample", "mode_change_counterexample",
        "same_fields_same_curve", "finish_curves", "roundtrip_curves_partial", "roundtrip_curves_decoded_partial",
        "sort_chronological_id", "postProcessBreaks_idempotent", "postProcessBreaks_eq_zip", "finalize_reads_timeline_only", "decoded_finalized", "roundtrip_objects_rep_core",
        "roundtrip_objects_rep_partial", "roundtrip_objects_rep_scroll_partial", "roundtrip_objects_rep_modes_partial", "scroll_hypothesis_exact", "unordered_not_finalized", "toyMapF_roundtrip_objects","trim_cons_space", "kvSplit_kvLine", "kv_line_roundtrip", "int_display_parse", "int_display_clean",
                         "metadata_block_roundtrip", "colours_block_roundtrip", "colours_block_roundtrip_decoded",
                         "editor_block_roundtrip", "difficulty_block_roundtrip", "general_block_roundtrip", "events_block_roundtrip",
                         "laws_satisfiable", "records_roundtrip", "circle_rt", "spinner_rt", "hold_rt", "samples_bank_info_rt", "samples_rt",
                         "path_string_roundtrip", "path_string_roundtrip_fresh", "slider_rt", "slider_rt_exact", "decodedNodes_get",
                         "node_names_banks", "node_samples_rt", "slider_laws_satisfiable", "hitobjects_block_rt",
                         "timing_line_rt", "inherited_line_rt", "redundant_group_no_effect", "timing_laws_satisfiable", "timing_block_redecoded",
                         "timing_rt", "timing_rt_laws_satisfiable", "timing_roundtrip_file", "sample_timeline_hyps",
                         "parseBits_printBits_f64", "parseBits_printBits_f32", "parseBits_printBits", "printBits_clean", "printBits_ne_nil",
                         "parseDecimal_renderDecimal", "roundRat_of_inInterval", "roundRat_spec", "roundRat_eq_iff", "shortestDigits_inInterval",
                         "codecLaws_float", "codecLaws_float32", "editor_block_roundtrip_ieee", "difficulty_block_roundtrip_ieee",
                         "events_block_roundtrip_ieee", "printBits_intBits_f64", "printBits_of_int_value", "intPrintLaw_float",
                         "general_block_roundtrip_ieee",
                         # Props/C02CodecIeee.lean: the runtime hypotheses discharged (Lean 4.33: Float is a structure over Float.Model)
                         "floatBitsLaw", "float32BitsLaw", "floatOfIntLaw", "float_ofInt_bits", "codecLaws_float_ieee", "codecLaws_float32_ieee",
                         "intPrintLaw_float_ieee", "editor_block_roundtrip_ieee'", "difficulty_block_roundtrip_ieee'",
                         "events_block_roundtrip_ieee'", "general_block_roundtrip_ieee'",
                         "roundtrip_rep_partial", "roundtrip_rep_counts", "toyMap_timeline_hyps",
                         "records_roundtrip_decoded", "records_roundtrip_decoded_of_limitRep"]
    partial_theorems = {
        "sv_no_cycle_float / sv_roundtrip_stable_float_partial": "Props/C02IeeeTiming2.lean, Lemmas/FloatDivAntiPos.lean (sixth session, wave 10): does the slider-velocity drift of decode → encode → decode stop after one "
            "round? A search over 2.2·10^9 random doubles of [0.1, 10] and ±3·10^6 neighbours of 40 critical points found NO value that moves in a second round (8.5 % move in the first, by one ulp). PROVED: the "
            "round trip is monotone (sv_roundtrip_mono_float, scroll_roundtrip_mono_float, from the anti-monotonicity of a/· for positive a), the drift keeps its direction (sv_drift_direction_float), the orbit "
            "under repeated round trips is monotone (sv_orbit_up_float / _down_float) and NEVER RETURNS (sv_no_cycle_float) — so within the finitely many doubles of the range it is eventually constant: the "
            "drift does stop; idempotence itself under the side condition BeatStable (the re-written beat length is the same double: sv_roundtrip_stable_float_partial), kernel-checked at 16 critical points "
            "with neighbours, at both ends of the range, and on six drifting values through five rounds. NOT proved: idempotence for every value (sv_roundtrip_stable_float_statement; needs 'uniqueness of "
            "rounding', absent from the error-bound layer; proof plan in the file)",
        "roundtrip_decoded_capstone": "Props/C02Capstone.lean (sixth session, wave 6): ONE theorem about decoded maps that composes every piece — for a file `bs` that decodes and finishes to `m`, with "
            "`DecodedDomain RF bs st m` (one named field per exclusion: chronological objects, LogGood timing lines (F15), NoDoubleSlash (F16), ObjResidualF17 per object (F17/F20/F21), CollectedTimesInLimit (F26), "
            "PathStable, TimelineHyps) and an encode `t`, the bytes of `t` decode to a single state whose every finish `m2` satisfies `PreservedEq m m2` (six record sections, colours, timing points, slider "
            "velocity / scroll speed / kiai at EVERY time, object count, per-object ObjPreserved, equal computed curves) in all four modes. PARTIAL in one respect only: the arithmetic enters through the bundle "
            "`ExactLaws F P RF RP`, four of whose fields (eps, group, near, dur) are exact-arithmetic laws refuted for Float (IeeeFalse.*, durLawsZ_float_false, F25/F26), so the capstone is a theorem of the exact "
            "instance (`exactLaws_zc`, non-vacuous: cap_domain / cap_roundtrip_total on a decoded taiko file) and the IEEE side stays with the per-clause *_float theorems. The statement without the domain "
            "(`roundtrip_statement_full`) is REFUTED in the kernel: roundtrip_statement_full_false on the F16 file, with f16_other_fields showing noDoubleSlash is the only field that file violates",
        "editor_block_roundtrip / difficulty_block_roundtrip / general_block_roundtrip / events_block_roundtrip / records_roundtrip":
            "law-dependent: proved for every number codec satisfying CodecLaws (parse(print x) = x on the representable values; printed numbers are non-empty and made of "
            "number characters only) and, for AudioLeadIn, IntPrintLaw (integral values print like integers). The laws are shown satisfiable by the toy codec of Lemmas/ToyCodec.lean "
            "(laws_satisfiable) AND are now theorems for the model's real IEEE codec at the bit level (Props/C02Codec.lean, Lemmas/FloatCodecLaws*.lean): parseBits (printBits b) = some b "
            "for every non-NaN binary32 / binary64 bit pattern (parseBits_printBits_f32 / _f64: signs, zeros, infinities, subnormals, normals; via roundRat_of_inInterval / roundRat_spec — correct rounding, "
            "ties to even, underflow to 0, overflow to infinity: roundRat f x = b iff x lies in the rounding interval of b — and shortestDigits_inInterval), printBits_clean, printBits_ne_nil. For the driver's Float / Float32 instances this gives CodecLaws on the non-NaN values "
            "(codecLaws_float / codecLaws_float32, and editor_ / difficulty_ / events_block_roundtrip_ieee) from ONE hypothesis each, FloatBitsLaw / Float32BitsLaw "
            "(ofBits (toBits x) = x and toBits x is not a NaN pattern, for non-NaN x). These hypotheses are now THEOREMS (Props/C02CodecIeee.lean): in Lean 4.33 Float / Float32 are structures "
            "over the logical model Float.Model and ofBits / toBits / isNaN unfold in the kernel; Lemmas/FloatModelBits.lean proves the pack / unpack theory of that model (FM.float_ofBits_toBits, "
            "FM.float_not_nan_pattern and the Float32 twins), giving floatBitsLaw : FloatBitsLaw and float32BitsLaw : Float32BitsLaw, hence codecLaws_float_ieee / codecLaws_float32_ieee "
            "(CodecLaws for the driver's instances on the non-NaN values, no hypothesis) and editor_ / difficulty_ / events_block_roundtrip_ieee' (the section round trips with no bit-cast hypothesis left). "
            "IntPrintLaw (AudioLeadIn) is proved at the bit level too: every integer z with |z| < 2^53 prints as intDigits z "
            "(printBits_intBits_f64, where intBits fmt64 z is the pattern roundRat / parseBits assigns to z; printBits_of_int_value for any integer-valued pattern), and IntPrintLaw Float "
            "(intPrintLaw_float, general_block_roundtrip_ieee) follows from FloatOfIntLaw (Float.ofInt z has that pattern on the i32 range), which is now a theorem as well: float_ofInt_bits "
            "(Lemmas/FloatModelOfInt.lean: Float.ofInt z is exact in the model for |z| < 2^53 and has the pattern intBits fmt64 z), floatOfIntLaw, intPrintLaw_float_ieee, "
            "general_block_roundtrip_ieee' — no hypothesis. These are theorems about Lean's logical float model; that the compiled @[extern] C operations agree with it is part of Lean's own "
            "trusted code base and is exercised against Rust bit for bit (codec requests fop64 / fop32 and the casts of lib/codecgen.py, and every whole-model request). Still NOT proved: that shortestDigits returns the shortest / closest digits and never "
            "reaches its exact-expansion fallback (irrelevant for the round trip, relevant only for agreement with Rust); and that Rust's own Display/FromStr equal printBits/parseBits "
            "(recorded assumption, compared on >10^6 values per run by lib/codecgen.py). metadata_block_roundtrip and "
            "colours_block_roundtrip need no law (integers: int_display_parse is proved of the model's own i32/u32/u8 codec)",
        "records_roundtrip": "file level for the six record sections only (format version, general on the preserved view, editor, metadata with positive ids, difficulty, background/breaks, "
            "colours with alpha 255): the re-decoded Beatmap has these fields equal to the original's. It assumes of the [TimingPoints] and [HitObjects] blocks only their shape "
            "(LF-terminated lines that are neither headers nor skipped: RtFile.ListBlockShape) — whatever those lines do, they do not touch the record fields",
        "records_roundtrip_decoded / records_roundtrip_decoded_of_limitRep":
            "records_roundtrip for every DECODED map (the property's own quantifier): decode any bytes (any encoding, hostile content) to m, encode, decode again. The assumption RepRecords "
            "is discharged by the `Decoded` invariant (C04.decoded_inv, Lemmas/DecodedInv*.lean — no codec law, only closed facts about the decoder's constants, ConstFacts). Residual "
            "hypotheses, each genuinely needed: the codec laws (CodecLaws, IntPrintLaw); FloatsRep — the codec represents the map's float values (or the single law LimitRep: everything "
            "within the parse limit is representable; a theorem for the toy codec); NoDoubleSlash — neither file name contains `//` (finding F16: the real code fails `rt` exactly there, "
            "replayed: `AudioFilename: a\\\\b`, `AudioFilename: a/\\b`, `0,0,\"a\\\\\\\\b.png\",0,0`, `0,0,\"a/\\b.png\",0,0` → explained=file-name-contains-double-slash); and, as in "
            "records_roundtrip, the shape of the two list blocks. The conclusion is sharper than records_roundtrip's: m2.colors = m.colors (a decoded map has alpha 255 everywhere). "
            "Non-vacuity: C04.decodedSample_* (a hostile file decoded, finalised, encoded in the kernel on the toy codec)",
        "circle_rt / spinner_rt / hold_rt": "law-dependent, one line at a time (any decoder state): the line written for a circle / spinner / hold note decodes to the same kind of object with the "
            "same start time, position (integral coordinates; a spinner's position is not carried), combo data (new_combo or-ed with the decoder's forcing rule) and duration. The duration "
            "goes through an arithmetic inverse (max(end − start, 0) resp. max(start, end) − start), taken as a hypothesis on the two values — exact in exact arithmetic, not proved for IEEE. "
            "The samples come back as convert_sound_type of the same hit-sound byte and the rebuilt bank info (samples_bank_info_rt, no law needed); samples_rt shows that this "
            "reproduces names and banks for sample lists in the decoder's own shape (Normal-with-bank or custom file first, then finish/whistle/clap sharing a specified addition bank) — "
            "that every decoded map's lists have this shape is not proved here",
        "path_string_roundtrip": "law-dependent (CodecLaws for f32 + SliderRt.CoordLaws: an integral in-range f32 coordinate printed with Display and read with f64's FromStr truncates to the "
            "same integer, and its text does not start with an ASCII letter; both shown satisfiable by the toy codec, slider_laws_satisfiable). Proved for every control-point list in the decidable "
            "class SliderRt.RepPath: first point = origin and typed; every other point with representable integral absolute coordinates within ±131072 and (pos + p) − pos = p (a hypothesis on "
            "the values, exact for integers below 2^24); types well-formed (a degree only on B-splines, positive, ≤ i32::MAX); a perfect-curve point followed by exactly one untyped point and "
            "then a typed point or the untyped last point, not collinear as is_linear computes it (any other shape is decoded as Bezier/linear — never produced by the decoder); an untyped "
            "point may repeat its predecessor's position only as the last point, directly before a typed point (positions identical), or inside a Catmull segment after an untyped point; a "
            "typed point that the encoder may write implicitly (same type as the previous typed point, not perfect, followed by an untyped point) must not be Catmull (consecutive Catmull "
            "segments: excluded by the property text), must equal itself under == (no NaN) and must NOT repeat its predecessor's position (finding F17). Every exclusion was replayed on the "
            "real code: F17 shape fails as recorded; the index-0 relative [o(C), o, p] (from `C|100:100|100:100|200:100` at 100,100) also fails on the real code — the same finding F17 (a typed FIRST point repeated by "
            "the second one; the oracle's predicate counts it on main); all shapes inside the class that were tried round-trip",
        "slider_rt / slider_rt_exact": "law-dependent, one line at a time, any decoder state: the slider line decodes to a slider with the same start time, position (integral), combo data "
            "(new_combo or-ed with the forcing rule), control points (appended to the state's curve_points, which is empty in every reachable state — slider_rt_exact takes that as a "
            "hypothesis), repeat count (0..8999), the written length as the decoder stores it (max(len,0), absent below f64::EPSILON; slider_rt_exact: an expected length d with max(d,0)=d "
            "and |d| ≥ EPSILON comes back exactly — hypotheses on the value; when the map has no expected length the computed curve length is written and comes back as Some(length): the "
            "oracle's none ≡ some(natural length) reading), repeat_count + 2 node sample lists and velocity 1 (set later by the map-level processing). node_samples_rt: names and banks of a node "
            "list in the decoder's own shape (Normal with a bank, then finish/whistle/clap sharing a bank) come back; a node's custom file name is not written (finding F18). The written "
            "length must be representable and within ±131072 — a forced hypothesis and a real defect: replayed on the code, a slider without a length field whose computed curve is longer "
            "than 131072 (`0,0,1000,2,0,L|131072:131072|-131072:-131072|131072:131072,1`) is written with that length and the line is rejected on re-read (object lost): finding F20, "
            "kept as the explicit hypothesis RepSlider.distRep",
        "hitobjects_block_rt": "law-dependent; conditional on every object of the map being representable (SliderRt.RepObject = RepCircle / RepSlider / RepSpinner / RepHold): the [HitObjects] "
            "block read back from any decoder state appends one object per line, same kinds, same start times, same order, path buffer left empty; what else comes back per object is "
            "circle_rt / slider_rt / spinner_rt / hold_rt",
        "timing_line_rt / inherited_line_rt / timing_block_redecoded":
            "law-dependent (CodecLaws), line level resp. file level. timing_line_rt: the 1-line of a stored timing point (sorted collection, beat length inside the clamp [6, 60000]) is "
            "accepted in any state and applied as a timing change whose TimingPoint IS that point (time, beat length, signature, omit-first-bar-line). inherited_line_rt: a 0-line is applied "
            "as a non-timing line at the group's time with the slider velocity (scroll speed in taiko/mania) and kiai flag in effect there and the sample fields written — the velocity goes "
            "through the arithmetic inverse 100/−(−100/v) = v, taken as a hypothesis (exact in exact arithmetic; the documented ≤4 ulp drift for IEEE). timing_block_redecoded: re-decoding "
            "the encoded file leaves as control points exactly what the decoder's state machine (applyTpLine, C12) builds from the values written — for maps satisfying "
            "RtTiming.RepTimingMap (see C04; a decoded map can violate it only through collected sample points at non-representable computed times)",
        "redundant_group_no_effect":
            "exact arithmetic only (RtTiming.EpsLaws: |a−b| < EPSILON iff a = b; instance: the integer toy scalar ZC with eps = 1): from a group's time up to the next control point the true "
            "properties equal last_props after that group's iteration, whether its inherited line was written or suppressed. For IEEE doubles the law fails for non-finite values, for the two zeros and for "
            "distinct values closer than 2.2e-16 (possible below 2.0): there a suppressed line can change the effective velocity by less than EPSILON — not modelled. That EpsLaws is false of the "
            "driver's Float is itself a kernel-checked theorem (Props/IeeeFalse.lean, namespace Rosu.IeeeFalse: epsLaws_float_false on +0.0 / -0.0, epsLaws_refl_float_false on +inf), "
            "so this theorem is vacuous on the IEEE instance",
        "timing_rt / timing_roundtrip_file":
            "layer 5 of DESIGN 5.2, proved in EXACT ARITHMETIC only: under RtTiming.EpsLaws (|a−b| < EPSILON iff a = b), GroupLaws (the decoder's grouping test |t−u| >= EPSILON likewise) and "
            "TimelineHyps (sorted collection; numerators >= 1; timing points with non-negative beat length inside [6, 60000]; every slider velocity — scroll speed in taiko/mania — and the "
            "default 1 with −100/v < 0, 100/−(−100/v) = v and inside its clamp) — all satisfiable on the integer toy scalar ZC (timing_rt_laws_satisfiable, sample_timeline_hyps on "
            "C04.sampleMap) — the re-decoded map has the same timing points (time, beat length, signature, omit-first-bar-line, in order) and at every time the same effective slider "
            "velocity (difficulty_point_at; in taiko/mania the scroll speed of effect_point_at) and kiai flag. timing_roundtrip_file adds the codec laws and RepRecords / RepTimingMap and goes "
            "through encode, UTF-8 bytes, reader, framing, Beatmap decoder and finalisation. NOT covered: IEEE doubles (the laws fail: 100/(100/v) may be off by an ulp, values closer than "
            "2.2e-16 exist below 2.0, inf−inf is NaN, +0.0 and −0.0 are closer than EPSILON and different) — that is the ≤4 ulp slider-velocity drift the `rt` oracle measures. The failure is "
            "proved, not only said: Rosu.IeeeFalse.epsLaws_float_false and groupLaws_float_false (Props/IeeeFalse.lean) refute EpsLaws Float and GroupLaws Float in the kernel, so timing_rt / "
            "timing_roundtrip_file are statements about exact arithmetic and vacuous on the IEEE instance (GroupLaws.same_refl alone is true of Float: C12.sameGroup_self_float). Also not covered: sample points (not part of the preserved view); the difficulty-"
            "point velocity in taiko/mania and the scroll speed elsewhere (the format carries one of the two)",
        "roundtrip_rep_partial / roundtrip_rep_counts":
            "the three lines of proof composed (Props/C02File.lean) into ONE statement about ONE decode of encode m, for maps satisfying RepMap (Lemmas/RepMap.lean = RtFile.RepRecords + "
            "RtTiming.RepTimingMap + every hit object SliderRt.RepObject) under MapLaws (CodecLaws for both float types, IntPrintLaw, SliderRt.CoordLaws) and, for the timing part, the "
            "exact-arithmetic laws EpsLaws / GroupLaws and TimelineHyps of the map's control points — all satisfiable together: C04.toyMap (toy codec; mania, two timing points, inherited "
            "lines with scroll speeds 2 and 4 and kiai, a circle, a slider with a two-segment path, a spinner, a hold note). On the driver's Float / Float32 the codec part of MapLaws is now a theorem "
            "(codecLaws_float_ieee, codecLaws_float32_ieee, intPrintLaw_float_ieee; CoordLaws is not instantiated for Float32), but EpsLaws Float and GroupLaws Float are refuted in the kernel "
            "(Rosu.IeeeFalse.epsLaws_float_false, groupLaws_float_false): the timing part of this theorem is about exact arithmetic and vacuous on the IEEE instance. "
            "No shape assumption on the list blocks is left. Conclusion: "
            "reading the UTF-8 bytes of the text back succeeds; the decoder state has the map's record fields (preserved view) and, BEFORE map-level processing, hit objects that are position "
            "by position what the line format carries of the map's (SliderRt.ObjsBack: same count and order; start times; circle: position, combo offset, new_combo or-ed with the forcing "
            "rule `first object or after a spinner`; slider: position, combo data, control points, repeat count, the written length as stored, node sample lists, velocity 1; spinner: "
            "duration, new_combo, centre; hold: column, duration; samples as convert_sound_type rebuilds them); and whenever finalisation succeeds the re-decoded Beatmap has the map's "
            "format version, general (preserved view), editor, metadata (preserved view), difficulty, events, colours (alpha 255), the map's timing points and at every time its effective "
            "slider velocity (scroll speed in taiko/mania) and kiai flag, and hit objects equal to finalizeObjects ∘ postProcessBreaks ∘ sortByStartTime of exactly those pushed objects with "
            "the map's mode, slider multiplier and breaks and the re-decoded control points. PARTIAL: what is missing for the full property is listed under `roundtrip`",
        "roundtrip_objects_rep_partial / roundtrip_objects_rep_scroll_partial / roundtrip_objects_rep_modes_partial (step (a): map-level processing of the re-decoded objects)":
            "Props/C02Final*.lean, Lemmas/RtTimelineDsv.lean (sixth session). Unconditional building blocks, every Scalar: sort_chronological_id (the stable sort is the identity on a list that is "
            "already chronological for the sort's own comparison), postProcessBreaks_eq_zip (break processing reads the objects only through their start times) and postProcessBreaks_idempotent, "
            "finalizeObjects_view / finalize_reads_timeline_only (the finaliser reads the control points only through timing_point_at(start).beat_len and difficulty_point_at(start).slider_velocity - in all "
            "four modes; the mode enters through the clamp of get_precision_adjusted_beat_len only), decoded_finalized (every DECODED map whose pushed objects are chronological satisfies `Finalized`: "
            "chronological, fixed by break processing, every slider velocity is the one the finaliser computes from the map's own control points, forced new combos present, combo offsets only with "
            "new_combo, node lists = repeats + 2; invariant CoreInv carried through the framing driver for every byte string), decoded_finalized_unordered. Composition, under exactly the hypotheses of "
            "roundtrip_rep_partial (MapLaws, EpsLaws, GroupLaws, TimelineHyps, RepMap) plus Finalized m: in osu! / catch the re-decoded map has as many hit objects as m and they agree pairwise on the "
            "preserved view ObjPreserved (start times, kinds, positions, combo flags and offsets, control points, repeat counts, velocities, spinner / hold durations, node counts) - "
            "roundtrip_objects_rep_partial; in taiko / mania the same under ScrollDrivesSv m (at every slider start the map's slider-velocity multiplier is clamp(scroll speed, 0.1, 10)) and the closed fact "
            "clamp(1, 0.1, 10) = 1, and scroll_hypothesis_exact shows that hypothesis is EQUIVALENT to the re-decoded difficulty points answering like the map's at slider starts (the encoder writes the "
            "scroll speed into the velocity field there: difficulty_from_field_file), so nothing weaker will do; roundtrip_objects_rep_modes_partial joins the modes. Non-vacuity: toyMapF (C04.toyMap with "
            "the velocity the finaliser computes; toyMap itself is NOT Finalized: toyMap_not_finalized), all hypotheses kernel-evaluated, toyMapF_roundtrip_objects. Proved false without its hypothesis: "
            "decoded_finalized without the chronological order (unordered_not_finalized: spinner at 1000 listed before circles at 100 and 50 - after the sort a plain circle follows the spinner without "
            "new_combo, and a re-decode would force it: on non-chronological input the round trip does change combo flags, which is why the property quantifies over chronological inputs). "
            "PARTIAL because RepMap is false of decoded maps in general (F17 F18 F20), EpsLaws / GroupLaws are exact-arithmetic laws, and ScrollDrivesSv is not proved of decoded taiko / mania maps "
            "(difficulty and effect points are suppressed as redundant independently)",
        "decoded_scrollDrivesSv / roundtrip_objects_decoded_scroll_partial / roundtrip_curves_partial (gaps (d) and (e))":
            "sixth session, Props/C02FinalScroll*.lean, Props/C02FinalCurves.lean. (d) For [TimingPoints] lines that are chronological and parsed in ONE mode (LogGood, on the ghost log tpLogBytes of the accepted "
            "timing lines with the mode in force when each was applied), under EpsLaws / GroupLaws and ScrollClampLaws (clamp(1, 0.1, 10) = 1, clamp(clamp(x, 0.01, 10), 0.1, 10) = clamp(x, 0.1, 10); instances: toy, every exact "
            "scalar): decoded_scroll_timeline - in a decoded taiko / mania map, at EVERY time u, difficulty_point_at(u).slider_velocity = clamp(effect_point_at(u).scroll_speed, 0.1, 10) (invariant ScrollInv through applyTpLine and the "
            "framing driver); hence decoded_scrollDrivesSv, and roundtrip_objects_decoded_scroll_partial removes BOTH the scroll hypothesis and Finalized from roundtrip_objects_rep_scroll_partial for decoded maps. Both extra hypotheses "
            "are necessary, kernel-evaluated: unordered_scroll_counterexample / scroll_timeline_unordered_false (lines at 10 then 5: the kiai line stores only an effect point, the later-listed earlier line a difficulty point that stays "
            "active at 10) and mode_change_counterexample (F15). (e) same_fields_same_curve (no law: equal mode, control points and expected length give equal curves on any well-formed buffers, from C18), finalize_curves_fresh / "
            "finish_curves (every decoded map: the curves the finaliser computes on its one threaded buffer set are the curves on fresh buffers), natural_length_same_curve (NearLaw: a slider without requested length, written with its "
            "computed length, reads back to the same curve), roundtrip_curves_partial / roundtrip_curves_decoded_partial: the re-decoded sliders' computed curves equal the original's, all four modes, under PathStable (path mode = map mode - "
            "F15 otherwise - and stored lengths in normal form). Non-vacuity: toyScroll_timeline (a mania file given as bytes), toyMapF_roundtrip_curves",
        "sv_roundtrip_err_float / scroll_roundtrip_err_float (the timing clause on IEEE DOUBLES: what replaces the oracle's '<= 4 ulp')":
            "sixth session, Props/C02IeeeTiming.lean over Lemmas/FloatErrMul.lean. beatLenWritten sv = -100 / sv (the encoder), speedRead b = 100 / -b (the decoder), the decimal text in between exact "
            "(beatLen_text_exact, from float_parse_print); difficultyPoint_roundtrip links them to the model by rfl. For every stored slider velocity in [0.1, 10]: the written beat length is negative and finite, and the value "
            "read back - after the decoder's clamp - satisfies |sv' - sv| <= ((1+u)/(1-u) - 1) sv <= 2.0000001 * 2^-53 * sv (sv_roundtrip_err_float, sv_roundtrip_err_const_float; two roundings), stays inside the clamp "
            "(sv_roundtrip_within_float), and two round trips stay within (1+bound)^2 - 1; the same for the scroll speed in [0.01, 10] (scroll_roundtrip_err_float). Exact equality is FALSE, kernel-evaluated: "
            "sv_roundtrip_not_exact_float (2.75 comes back one ulp below), 1.31 one ulp above; svInverse_iff_float / svInverse_false_float: the hypothesis SvInverse of TimelineHyps is exactly 'no drift' and fails for 2.75. "
            "NOT proved: that the drift stops after one round (sv_roundtrip_idempotent_float_statement; kernel-checked on ten values, no counterexample in 10^7 random values) and the timeline statement with 'equal' replaced by 'close' "
            "(timing_rt_close_float_statement) - with a purely relative bound it is false for hand-built collections: sv_redundancy_flips_float (0.19 and its successor are apart by more than EPSILON before and less after the round trip: "
            "the second point is dropped, 7 ulps), scroll_redundancy_flips_float (127 ulps)",
        "roundtrip": "NOT a theorem as a whole (only `def roundtrip_statement`, `def hitobjects_roundtrip_statement`, `def roundtrip_rep_statement`, `def roundtrip_objects_statement : Prop`). Step (a) - the map-level "
            "processing of the re-decoded objects against the original map's objects - is now proved for representable finalized maps (entry above). Still missing: sample defaults from the re-decoded "
            "sample points (outside the preserved view); (b) that a DECODED map satisfies RepMap — false in general: F17 (typed point "
            "repeated at a segment start), F18 (node sample file names), F20 (computed length above the limit), sample points collected at non-finite computed times; (c) the timing round "
            "trip for IEEE doubles (EpsLaws / GroupLaws fail there — kernel-checked refutations in Props/IeeeFalse.lean — : the ≤4 ulp slider-velocity drift through 100/(100/sv)); (d) and (e) are now proved for chronological single-mode timing lines resp. under PathStable (entry above). These are evaluated on the implementation by the `rt` oracle "
            "(preserved view compared field by field, floats by bits, curves included, ≤4 ulp only for slider velocity) and on the model by the three-way `rt` correspondence "
            "(M1, text, M2 all identical between model and code)",
    }
    level_text = ("Lean 4 theorems over the decoder and encoder models: line level (a self-trimmed value, empty included, comes back from the end-trimmed `key: value` line; the integer codec "
                  "is its own inverse), section level for all six record sections (the block encode_<section> writes, run through parse_<section> from the decoder's initial state, is accepted "
                  "line by line and gives the section back on the preserved view: all ten metadata fields incl. positive ids; combo and custom colours with alpha 255; editor; difficulty "
                  "inside the clamps; general with the encoder's SampleSet / CountdownOffset / SpecialStyle / flag rules; background file and breaks), and file level for those sections "
                  "(records_roundtrip: encode, UTF-8 bytes, reader, framing, Beatmap decoder, finalisation; records_roundtrip_decoded: the same for every map OBTAINED BY DECODING — the representability "
                  "assumption is discharged by the `Decoded` invariant, leaving the codec laws, representability of the float values and the F16 exclusion), and line level for circles, spinners and hold notes (circle_rt, spinner_rt, "
                  "hold_rt, samples_bank_info_rt, samples_rt) and sliders (path_string_roundtrip over the decidable class RepPath, slider_rt, slider_rt_exact, node_samples_rt). "
                  "For timing points: line level (timing_line_rt: a timing point's line comes back as that point; inherited_line_rt: an inherited line "
                  "comes back as the velocity / kiai / sample fields in effect), the encoder's redundancy suppression loses nothing under exact arithmetic (redundant_group_no_effect), and file level "
                  "timing_block_redecoded (the re-decoded control points are the decoder's state machine run over exactly the values written), and the timing-point round trip itself in exact "
                  "arithmetic (timing_rt, timing_roundtrip_file: same timing points, same effective slider velocity / scroll speed and kiai at every time — encoder group loop and redundancy "
                  "suppression against the decoder's pending groups, precedence and redundancy checks). Everything that prints floats is proved for every "
                  "lawful number codec; the model's own IEEE codec is proved lawful at the bit level (parse(print b) = b for every non-NaN f32/f64 pattern; printed numbers clean and non-empty) "
                  "and the driver's Float/Float32 instances are lawful with no hypothesis left (codecLaws_float_ieee, codecLaws_float32_ieee, intPrintLaw_float_ieee: in Lean 4.33 Float is a structure over the "
                  "logical model Float.Model, so the bit-cast and Float.ofInt facts are theorems — floatBitsLaw, float32BitsLaw, floatOfIntLaw). The exact-arithmetic timing laws EpsLaws / GroupLaws are "
                  "refuted for Float in the kernel (Props/IeeeFalse.lean): the timing round trip is a statement about exact arithmetic only. "
                  "File level, all parts in one statement about one decode (roundtrip_rep_partial): for a map satisfying RepMap, under the codec laws and exact timing arithmetic, the "
                  "re-decoded map has the map's record fields, timing points and effective velocity / kiai timelines, and its hit objects are the map-level processing of objects that are, line by line, "
                  "what the format carries of the map's objects (kinds, times, positions, combo data, control points, repeat counts, lengths). Not theorems: the map-level processing itself, and that a "
                  "decoded map satisfies RepMap (false in general: F17, F18, F20). Model of decoder and encoder compared three ways on every case (decoded map, encoded text character for character, re-decoded map); "
                  "the property itself — preserved(decode(encode(decode x))) = preserved(decode x) for chronological inputs — is evaluated on the real code over the structured generator "
                  "(all sections, four modes, versions 3..128, all object kinds, multi-segment paths, same-time timing groups, hostile-but-accepted numerics), field-level mutations of the "
                  "bundled maps and the bundled maps themselves.")
    technique = "Lean 4 proof (line, section, block and file level round trips incl. the composed file-level statement for representable maps; law-dependent where floats are printed) + three-way correspondence + implementation-level round-trip oracle"
    trusted_base = [
        "Lean 4.33.0 kernel; axioms ⊆ {propext, Classical.choice, Quot.sound} per #print axioms",
        "hand-written decode + encode models tied to /repo by the `rt` differential of this run",
        "number codec: the model's printBits/parseBits are proved mutually inverse on non-NaN patterns; that they equal Rust's Display/FromStr is tested (lib/codecgen.py), not proved; "
        "FloatBitsLaw / Float32BitsLaw (bit casts) and FloatOfIntLaw (Float.ofInt on the i32 range) are theorems of Lean's logical float model Float.Model (floatBitsLaw, float32BitsLaw, floatOfIntLaw in Props/C02CodecIeee.lean), no longer hypotheses",
        "a theorem about Float / Float32 is a theorem about Lean 4.33's logical model Float.Model; that the compiled @[extern] C operations agree with that model is part of Lean's own trusted code base "
        "(compiler / runtime) and is additionally compared with Rust bit for bit: by the codec differential (lib/codecgen.py: requests fop64 / fop32 <add|sub|mul|div|sqrt|abs|neg|cmp|minmax> on operand pairs, "
        "castf32f64, castf64f32, castf64i32, castf32i32, ceilf64, ceilf32, usizef64) and by every whole-model request of this run (`rt`)",
    ]
    assumptions = ["domain check (chronological object and accepted timing lines) is made on the implementation's own pre-sort objects and parser log",
                   "slider velocity (carried only through 100/(100/sv)) may drift by ≤ 4 ulp; reported in the OK line, larger drift fails"]
    nontrivial_rule = "chronological .osu texts; non-trivial = at least one hit object and one timing point survive the round trip"

    def gen(self, rng, tier):
        cases = []
        n = 1500 if tier == "quick" else 60000
        for _ in range(n):
            ls = gen_map(rng, hostile=rng.choice([0, 0, 0.1, 0.2]), chronological=True)
            cases.append(Case("rt " + hexs("\n".join(ls).encode()), tags=("grammar",)))
        for f, d in (small_bundled() if tier == "quick" else bundled()):
            cases.append(Case("rt " + hexs(d), tags=("bundled",)))
            for _ in range(3 if tier == "quick" else 20):
                cases.append(Case("rt " + hexs(mutate_lines(rng, d)), tags=("bundled-mutated",)))
        return cases

    def known(self, case, out, findings):
        if "explained=" not in out:
            return None
        tags = out.split("explained=")[1].split()[0].split("+")
        ids = {f["id"] for f in findings}
        for t in tags:
            fid = EXPLAINED.get(t)
            if fid and fid in ids:
                return fid
        return None

    def is_nontrivial(self, case, impl_out):
        return impl_out.startswith("ok") and " | " in impl_out and "tp=-" not in impl_out.split(" ## ")[-1]


PROP = C02()
