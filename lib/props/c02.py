from ..filegen import bundled, small_bundled, mutate_lines
from ..gen import hexs
from ..osugen import gen_map
from ..runner import Case, Property

EXPLAINED = {
    "mode-record-after-timing-or-object-lines": "F15",
    "file-name-contains-double-slash": "F16",
    "repeated-point-at-segment-start": "F17",
    "node-sample-file-name": "F18",
}


class C02(Property):
    id = "C02"
    lean_module = "RosuModel.Props.C02"
    namespace = "Rosu.C02"
    design_ref = "5.2"
    required_theorems = ["trim_cons_space", "kvSplit_kvLine"]
    partial_theorems = {
        "roundtrip": "proved so far: the line-level inverse for key/value framing (kvSplit_kvLine: the value text, further colons and `//` included, is recovered up to trim). "
                     "The section-level and map-level round trips (layers 2–6 of DESIGN 5.2) are not yet theorems; they are evaluated on the implementation by the `rt` oracle "
                     "(preserved view compared field by field, floats by bits, curves included, ≤4 ulp only for slider velocity) and on the model by the three-way `rt` correspondence "
                     "(M1, text, M2 all identical between model and code)",
    }
    level_text = ("Model of decoder and encoder compared three ways on every case (decoded map, encoded text character for character, re-decoded map); line-level inverse lemma in Lean. "
                  "The property itself — preserved(decode(encode(decode x))) = preserved(decode x) for chronological inputs — is evaluated on the real code over the structured generator "
                  "(all sections, four modes, versions 3..128, all object kinds, multi-segment paths, same-time timing groups, hostile-but-accepted numerics), field-level mutations of the "
                  "bundled maps and the bundled maps themselves.")
    technique = "Lean 4 model of decoder+encoder with three-way correspondence; line-level inverse lemma; implementation-level round-trip oracle"
    trusted_base = [
        "Lean 4.33.0 kernel; axioms ⊆ {propext, Classical.choice, Quot.sound} per #print axioms",
        "hand-written decode + encode models tied to /repo by the `rt` differential of this run",
    ]
    assumptions = ["domain check (chronological object and accepted timing lines) is made on the implementation's own pre-sort objects and parser log",
                   "slider velocity (carried only through 100/(100/sv)) may drift by ≤ 4 ulp; reported in the OK line, larger drift fails"]
    nontrivial_rule = "chronological .osu texts; non-trivial = at least one hit object and one timing point survive the round trip"

    def gen(self, rng, tier):
        cases = []
        n = 1500 if tier == "quick" else 60000
        for _ in range(n):
            ls = gen_map(rng, hostile=rng.choice([0, 0, 0.1, 0.2]), chronological=True)
            cases.append(Case("rt " + hexs("\n".join(ls).encode()), tags=("grammar",)))
        for f, d in (small_bundled() if tier == "quick" else bundled()):
            cases.append(Case("rt " + hexs(d), tags=("bundled",)))
            for _ in range(3 if tier == "quick" else 20):
                cases.append(Case("rt " + hexs(mutate_lines(rng, d)), tags=("bundled-mutated",)))
        return cases

    def known(self, case, out, findings):
        if "explained=" not in out:
            return None
        tags = out.split("explained=")[1].split()[0].split("+")
        ids = {f["id"] for f in findings}
        for t in tags:
            fid = EXPLAINED.get(t)
            if fid and fid in ids:
                return fid
        return None

    def is_nontrivial(self, case, impl_out):
        return impl_out.startswith("ok") and " | " in impl_out and "tp=-" not in impl_out.split(" ## ")[-1]


PROP = C02()
