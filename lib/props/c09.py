import os

from .. import core
from ..gen import bundled_files, encodings, hexs
from ..readergen import ENCODINGS, ERROR_KINDS, chunk_random, gen_text, with_intr
from ..runner import Case, Property

SYNTH_MAPS = [
    "osu file format v14\n\n[General]\nAudioFilename: a.mp3\nMode: 0\nEpilepsyWarning: 1\n\n[Editor]\nBookmarks: 1,2\n\n[Metadata]\nTitle:t\nBeatmapID:5\n\n"
    "[Events]\n0,0,\"bg.jpg\",0,0\nVideo,0,\"v.mp4\"\n2,100,900\n\n[TimingPoints]\n0,400,3,2,1,60,1,9\n500,-50,4,1,0,100,0,1\n\n[Colours]\nCombo1 : 1,2,3\nSliderBorder : 4,5,6\n\n"
    "[HitObjects]\n100,100,1000,6,0,B3|150:150|200:100|250:150,1,160\n10,20,1500,2,2,B|30:40|B|50:60|70:80|L|90:10,2,120,2|0|8,1:2|0:0|3:1,1:0:0:0:\n"
    "50,50,2000,2,0,P|60:80|90:50,1,70\n50,50,2500,2,0,C|60:80|90:50|120:90,1,90\n256,192,3000,12,4,3500,0:0:0:0:hit.wav\n64,192,4000,1,8,1:2:3:40:\n",
    "osu file format v14\n\n[General]\nMode: 3\nSpecialStyle: 1\n\n[Difficulty]\nCircleSize:4\n\n[TimingPoints]\n0,300,4,1,0,100,1,0\n100,-25,4,1,0,100,0,1\n200,-2000,4,1,0,100,0,0\n\n"
    "[HitObjects]\n64,192,1000,128,0,1500:0:0:0:0:\n192,192,1200,1,2,0:0:0:0:\n320,192,1300,2,0,B4|330:192|340:192|350:192|360:192,1,50\n",
    # every optional [General] / [Editor] / [Metadata] line present at once (lines written only when a rarely set flag / value is there:
    # seed C09-v dropped the result of writing one of them), in two modes
    "osu file format v14\n\n[General]\nAudioFilename: a.mp3\nAudioLeadIn: 500\nPreviewTime: 1200\nCountdown: 2\nSampleSet: Drum\nStackLeniency: 0.3\nMode: 1\nLetterboxInBreaks: 1\n"
    "EpilepsyWarning: 1\nCountdownOffset: 2\nWidescreenStoryboard: 1\nSamplesMatchPlaybackRate: 1\n\n[Editor]\nBookmarks: 100,200,300\nDistanceSpacing: 1.5\nBeatDivisor: 8\nGridSize: 16\n"
    "TimelineZoom: 2.5\n\n[Metadata]\nTitle:t\nTitleUnicode:tu\nArtist:a\nArtistUnicode:au\nCreator:c\nVersion:v\nSource:s\nTags:x y\nBeatmapID:5\nBeatmapSetID:6\n\n"
    "[Events]\n0,0,\"bg.jpg\",0,0\n2,100,900\n\n[TimingPoints]\n0,400,4,1,0,100,1,0\n\n[HitObjects]\n64,64,1000,1,0,0:0:0:0:\n",
    "osu file format v14\n\n[General]\nMode: 3\nSpecialStyle: 1\nSamplesMatchPlaybackRate: 1\nCountdown: 3\n\n[Difficulty]\nCircleSize:7\n\n[TimingPoints]\n0,300,4,1,0,100,1,0\n\n"
    "[HitObjects]\n64,192,1000,128,0,1500:0:0:0:0:\n",
]
# on the write side every error kind is a fatal fault alike (only `Interrupted` is retried): also the kinds a consumer that hung up
# produces (seed C09-r: BrokenPipe from the final flush swallowed)
WRITE_KINDS = ERROR_KINDS + ["BrokenPipe", "ConnectionReset", "ConnectionAborted", "NotFound", "InvalidInput", "Unsupported", "OutOfMemory", "WriteZero", "InvalidData"]
WRITE_FAULTS = ["f" + k for k in ERROR_KINDS] + ["z"]


class C09(Property):
    id = "C09"
    lean_module = "RosuModel.Props.C09Full"   # imports Props/C09.lean and Props/C09Encode.lean; both in namespace Rosu.C09
    theorem_modules = ["RosuModel.Props.C09", "RosuModel.Props.C09Encode"]   # files whose top-level theorems are all audited
    namespace = "Rosu.C09"
    design_ref = "5.9"
    level_text = (
        "Lean 4 theorems, unbounded. Read side, over the model of src/reader/decoder.rs + decode.rs for every DecodeBeatmap implementation "
        "and every delivery schedule: if the schedule contains a fatal error, decode returns the FIRST such error — wherever it sits, "
        "even after the last byte, under any chunking and interruptions (read_fault_surfaces; ok_means_no_fault: never Ok with a partial map); "
        "Interrupted is not a fault (interrupted_not_a_fault); conversely every error of decode is the reader's first fatal error, at FULL "
        "strength (decode_err_only_from_reader; decode_fails_iff_reader_fails) — FF FE 0A, which failed with UnexpectedEof before the repair "
        "of read_line (former finding F6, fixed in a74dea1), is kept as an example that now decodes; a reader fault of kind UnexpectedEof right "
        "after a UTF-16LE 0x0A byte is still surfaced (next_byte, not read_exact). Write side, over Model/Writer.lean "
        "(std's write_all loop on a writer described by budgets / Interrupted / Ok(0) / errors; encode = its write_all calls then flush): "
        "a fatal event behind a budget smaller than the output is returned (Ok(0) as WriteZero), exactly the budgeted prefix was written and "
        "flush is not attempted (write_fault_surfaces); otherwise every byte is written whatever the short writes and interruptions and the "
        "result is flush's (short_writes_transparent, flush_checked); the accepted bytes are always a prefix (written_prefix); the cut into "
        "write_all calls is irrelevant (call_boundaries_irrelevant). Composed with the MODELLED ENCODER (Props/C09Encode.lean, Model/Encode.lean: "
        "the text Beatmap::encode writes, compared with the real encoder character for character by the enc / rt / edit families): for every map the "
        "encoder finishes on, every writer schedule and every cut of the text's UTF-8 bytes into write_all calls, a reached fault is the result of "
        "encoding the map with exactly the bytes in front of it accepted and no flush (encode_map_fault_surfaces); without a reached fault the whole text "
        "is written and the result is flush's (encode_map_complete); Ok is returned exactly when no fault is reached and flush succeeds "
        "(encode_map_ok_iff); what the writer holds is always a prefix of the map's text (encode_map_written_prefix). Tied to the code on every run: an injecting BufRead drives the real "
        "decoder at every byte offset of the small bundled files (sampled for large) with five error kinds; an injecting Write is compared "
        "with the writer model under std's write_all, and drives the real Beatmap::encode on bundled maps at every output offset, checked "
        "against the statement and against a replay of its own write calls.")
    technique = "Lean 4 proof (first-fault characterisation of the reader; budget characterisation of write_all) + fault-injection differential run"
    required_theorems = [
        "read_fault_surfaces", "ok_means_no_fault", "interrupted_not_a_fault", "decode_err_only_from_reader",
        "decode_fails_iff_reader_fails", "write_fault_surfaces", "short_writes_transparent",
        "flush_checked", "written_prefix", "call_boundaries_irrelevant",
        "encode_map_fault_surfaces", "encode_map_complete", "encode_map_ok_iff", "encode_map_written_prefix", "encode_map_panic",
    ]
    partial_theorems = {
        "encode_map_fault_surfaces / encode_map_complete / encode_map_ok_iff":
            "stated for every cut `calls` of the text's UTF-8 bytes into write_all calls (calls.flatten = utf8Encode text): that the real Beatmap::encode "
            "issues such a cut followed by one flush, and that its text is the model's, is checked on the implementation per case (replay of its recorded "
            "write calls; enc correspondence), not proved; when the encoder itself fails (the model's panic outcome: the f64::clamp assertion of "
            "SliderEventsIter::new, see C01) there is no I/O result (encode_map_panic) - earlier sections may already have reached the writer then",
    }
    trusted_base = [
        "Lean 4.33.0 kernel",
        "axioms: at most propext, Classical.choice, Quot.sound (audited per theorem with #print axioms)",
        "hand-written models Model/{Reader,Framing,Writer,Encode}.lean tied to /repo and to std by the differential run of this check",
        "std: BufRead::read_until, Read::read_exact, Write::write_all (retry on Interrupted, Ok(0) -> WriteZero, short writes continue), "
        "Write::write_fmt reaching the writer only through write_all — modelled per documentation, exercised on every run",
        "the injecting BufRead / Write implementations in the harness",
    ]
    assumptions = [
        "theorems are about the Lean models; compared with the implementation only on the fault placements of this run",
        "quick tier: every byte offset of bundled files up to 1 KiB (one of the five error kinds per offset, rotating), sampled offsets above; "
        "thorough tier: all five kinds at every offset of the small files",
        "a writer is described by budgets: every run of a real writer (the sequence of its write results) is such a schedule",
        "panics: the harness runs every request under catch_unwind; a PANIC line is a failure of the property",
    ]
    nontrivial_rule = ("read: fatal error of five kinds at byte offsets of bundled/generated files under chunking and interruptions, fault-free "
                       "schedules with interruptions; write: error / Ok(0) / short writes / Interrupted at output offsets of the real encoder "
                       "and of synthetic call lists, failing flush; non-trivial = the fault was reached (read: always)")

    def gen(self, rng, tier):
        quick = tier == "quick"
        cases = []
        rot = 0

        def fault_at(data, k, kind, tag, rechunk=False):
            a, b = data[:k], data[k:]
            if rechunk:
                toks = chunk_random(a, rng) + ["f" + kind] + chunk_random(b, rng)
                if rng.random() < 0.5:
                    toks = with_intr(toks, rng)
            else:
                toks = (["c" + a.hex()] if a else []) + ["f" + kind] + (["c" + b.hex()] if b else [])
            cases.append(Case("faultsched " + " ".join(toks), tags=("read", tag, "kind-" + kind)))

        # ---- read side -------------------------------------------------------------------------
        # from_path on files that open but cannot be read (the file system itself is the faulty reader)
        for what in ("mem", "dir", "full"):
            cases.append(Case("pathfault " + what, corr=False, tags=("read", "from_path-unreadable")))
        for f in bundled_files():
            data = open(f, "rb").read()
            small = len(data) <= 1024
            if small:
                offs = range(len(data) + 1)
            else:
                n = 96 if quick else 2000
                offs = sorted(set([0, 1, 2, 3, len(data) - 1, len(data)] + [rng.randrange(len(data) + 1) for _ in range(n)]))
                if len(data) > 50000 and quick:
                    offs = offs[:6] + rng.sample(offs[6:], 12)
            for k in offs:
                kinds = ERROR_KINDS if (not quick and small) else [ERROR_KINDS[rot % 5]]
                rot += 1
                for kind in kinds:
                    fault_at(data, k, kind, "bundled-small-every-offset" if small else "bundled-sampled-offset",
                             rechunk=(not small and rng.random() < 0.5))
        for _ in range(60 if quick else 1500):
            text, _ = gen_text(rng)
            enc = rng.choice(ENCODINGS)
            data = encodings(text)[enc]
            for k in range(len(data) + 1):
                fault_at(data, k, ERROR_KINDS[rot % 5], "generated-" + enc, rechunk=rng.random() < 0.3)
                rot += 1
        for _ in range(300 if quick else 5000):
            text, _ = gen_text(rng)
            data = encodings(text)[rng.choice(ENCODINGS)]
            toks = chunk_random(data, rng)
            # several faults: the first one wins; faults after the end are still reached
            for _ in range(rng.choice([1, 2, 3])):
                toks.insert(rng.randrange(len(toks) + 1), "f" + rng.choice(ERROR_KINDS))
            if rng.random() < 0.6:
                toks = with_intr(toks, rng)
            cases.append(Case("faultsched " + " ".join(toks), tags=("read", "multi-fault")))
        for _ in range(500 if quick else 8000):
            text, _ = gen_text(rng)
            enc = rng.choice(ENCODINGS)
            data = encodings(text)[enc]
            if enc == "utf16le" and rng.random() < 0.2 and data.endswith(b"\n\x00"):
                data = data[:-1]          # cut after the low byte of the last line feed (F6)
            toks = with_intr(chunk_random(data, rng, first_min=3), rng)
            cases.append(Case("faultsched " + " ".join(toks), tags=("read", "fault-free+intr", enc)))
        for line in ["faultsched fOther", "faultsched i fTimedOut", "faultsched c- fWouldBlock", "faultsched cfffe0a",
                     "faultsched cfffe0a fPermissionDenied", "faultsched cfffe i c0a", "faultsched cfffe41 c0a i",
                     "faultsched c5b fOther c47", "faultsched cefbbbf fUnexpectedEof", "faultsched cfffe0a00 fUnexpectedEof",
                     # pins of the repaired read_line / read_bom: UnexpectedEof injected right after an LE 0x0A byte is surfaced,
                     # end of input there is not an error, faults while the BOM prefix is being collected
                     "faultsched cfffe41000a fUnexpectedEof c00", "faultsched cfffe41000a fUnexpectedEof", "faultsched cfffe c4100 c0a fUnexpectedEof c00 c4200",
                     "faultsched cfffe41000a i fOther c00", "faultsched cfffe41000a", "faultsched cfffe410a0a", "faultsched cfffe0a41",
                     "faultsched cff fTimedOut cfe", "faultsched cef cbb fWouldBlock cbf", "faultsched c5b c47 fOther", "faultsched cfeff000a fPermissionDenied",
                     "faultsched cfeff0a fUnexpectedEof c41000a"]:
            cases.append(Case(line, tags=("read", "corner")))
        # the first bytes arrive one or two at a time WITH interruptions between them (before three bytes - a whole BOM - are collected):
        # what was already taken must not be lost when the poll is retried (seed C09-s: the retry restarted the BOM probe from scratch)
        for _ in range(80 if quick else 2500):
            text, _ = gen_text(rng)
            enc = rng.choice(ENCODINGS)
            data = encodings(text)[enc]
            if len(data) < 4:
                continue
            toks, pos = [], 0
            while pos < min(len(data), rng.choice([3, 4, 6])):
                n = rng.choice([1, 1, 2])
                toks.append("c" + data[pos:pos + n].hex())
                pos += n
                if rng.random() < 0.7:
                    toks += ["i"] * rng.choice([1, 1, 2])
            toks += chunk_random(data[pos:], rng) if pos < len(data) else []
            if rng.random() < 0.5:
                toks = ["i"] + toks
            cases.append(Case("faultsched " + " ".join(toks), tags=("read", "short-first-chunks+intr", enc)))
        # an end-of-input indication (a read of 0 bytes) FOLLOWED by transient interruptions, for inputs shorter than a BOM and longer ones:
        # every poll of the source retries `Interrupted`, also one made after an empty buffer was seen (seed C09-q: the BOM probe re-polls)
        shorts = [b"", b"\n", b"\r\n", b"[", b"ab", b"\xef\xbb", b"\xff\xfe", b"\xfe\xff", b"o", b"\xef", b"[General]\nMode: 1\n", "\ufeffosu file format v9\n".encode()]
        for data in shorts:
            for k in (1, 2, 5):
                for tail in ([], ["c-"], ["c-", "i"], ["fOther"], ["c5b4d657461646174615d0a"]):
                    for split in (False, True):
                        chunks = ([("c" + bytes([x]).hex()) for x in data] if split else (["c" + data.hex()] if data else []))
                        # `e` = one poll answered with "no more bytes"; the model's schedules have no such event, so these are judged on the
                        # implementation only (with and without the interruptions the outcome must be the same)
                        if any(t.startswith("f") or (t.startswith("c") and t != "c-") for t in tail):
                            continue
                        tail = ["e" if t == "c-" else t for t in tail]
                        toks = chunks + ["e"] + ["i"] * k + tail
                        cases.append(Case("faultsched " + " ".join(toks), corr=False, tags=("read", "interrupted-after-eof")))
                        cases.append(Case("faultsched " + " ".join(["i"] * k + chunks + ["i", "e", "i"] + tail), corr=False, tags=("read", "interrupted-after-eof")))

        # ---- write side ------------------------------------------------------------------------
        names = [os.path.basename(f).replace(" ", "+") for f in bundled_files()]
        # small synthetic maps with the constructs no small bundled map has (B-spline with an explicit degree, multi-segment and
        # perfect / Catmull paths, per-node banks and sounds, custom sample file, hold note, custom colours, video + background,
        # bookmarks, breaks, kiai / omit-first-bar-line, taiko scroll speeds): every output byte of the encoder is a fault position
        # in the quick tier too (seed C09-l: the result of writing one byte - the `B` in front of a degree - dropped)
        names += ["hex:" + hexs(t.encode()) for t in SYNTH_MAPS]
        info = core.run_impl(["enccalls " + n for n in names])
        real_calls = []
        for name, o in zip(names, info):
            if o == "none" or o.startswith(("PANIC", "CRASH", "bad")):
                continue
            parts = o.split()
            total = int(parts[0])
            calls = parts[1:]
            small = total <= 1200
            if small:
                offs = list(range(total + 1))
                if len(real_calls) < (6 if quick else 40):
                    real_calls.append((total, calls))
            else:
                offs = sorted(set([0, 1, total - 1, total] + [rng.randrange(total + 1) for _ in range(40 if quick else 1500)]))
                if total > 50000 and quick:
                    offs = offs[:2] + rng.sample(offs, 8)
            for k in offs:
                ev = WRITE_FAULTS[rot % 6] if rot % 3 else "f" + WRITE_KINDS[(rot // 3) % len(WRITE_KINDS)]
                rot += 1
                style = rng.random()
                if style < 0.5:
                    evs = [f"a{k}", ev]
                else:      # the same budget as short writes with interruptions
                    evs, left = [], k
                    while left > 0:
                        n = min(left, rng.choice([1, 2, 3, 7, 50, 400]))
                        evs.append(f"a{n}")
                        left -= n
                        if rng.random() < 0.2:
                            evs.append("i")
                    evs.append(ev)
                flush = "ok" if rng.random() < 0.8 else rng.choice(WRITE_KINDS)
                cases.append(Case(f"encfault {name} {flush} / " + " ".join(evs), corr=False,
                                  tags=("write", "encode-small-every-offset" if small else "encode-sampled-offset", "ev-" + ev)))
            # no fatal event: short writes + interruptions only, flush ok / failing
            for _ in range(8):
                evs = []
                for _ in range(rng.choice([0, 5, 50])):
                    evs.append(rng.choice(["a1", "a2", "a3", "a17", "a300", "i", "a0"]))
                flush = rng.choice(["ok", "ok"] + WRITE_KINDS)
                cases.append(Case(f"encfault {name} {flush} / " + " ".join(evs), corr=False,
                                  tags=("write", "encode-no-fault", "flush-" + ("ok" if flush == "ok" else "err"))))

        def rand_events(total):
            evs, budget = [], 0
            for _ in range(rng.choice([0, 1, 2, 4, 8, 16])):
                r = rng.random()
                if r < 0.6:
                    n = rng.choice([0, 1, 1, 2, 3, 5, 8, max(1, total // 2), total, total + 1])
                    evs.append(f"a{n}")
                elif r < 0.8:
                    evs.append("i")
                else:
                    evs.append(rng.choice(WRITE_FAULTS))
            return evs

        # the writer model against std's write_all: the real encoder's call lists …
        for total, calls in real_calls:
            for _ in range(40 if quick else 300):
                k = rng.randrange(total + 2)
                evs = rng.choice([[f"a{k}", rng.choice(WRITE_FAULTS)], rand_events(total)])
                flush = rng.choice(["ok", "ok", "ok"] + ERROR_KINDS)
                cases.append(Case(f"writesched {flush} " + " ".join(calls) + " / " + " ".join(evs), tags=("write", "write_all-real-calls")))
        # … and synthetic ones (empty calls included)
        for _ in range(4000 if quick else 100000):
            calls = []
            for _ in range(rng.choice([0, 1, 2, 3, 5, 9])):
                n = rng.choice([0, 1, 1, 2, 3, 6, 20])
                calls.append(hexs(bytes(rng.randrange(256) for _ in range(n))))
            total = sum(0 if c == "-" else len(c) // 2 for c in calls)
            flush = rng.choice(["ok", "ok", "ok"] + ERROR_KINDS)
            cases.append(Case(f"writesched {flush} " + " ".join(calls) + " / " + " ".join(rand_events(total)),
                              tags=("write", "write_all-synthetic")))
        return cases

    def is_nontrivial(self, case, impl_out):
        return impl_out.startswith("err") or case.line.startswith("encfault")

    def known(self, case, out, findings):
        # F6 is fixed (a74dea1): a fixed entry suppresses nothing — if the failure returns it is a violation.
        return None


PROP = C09()
