import itertools
import re
import struct

from ..codecgen import codec_cases
from ..gen import hexs
from ..runner import Case, Property

INTS = ["0", "1", "-1", "2", "2147483647", "2147483648", "-2147483647", "-2147483648", "+5", "007", " 12 ", "1.5", "abc", "", "1e3", "１", "- 1"]
FLOATS = ["0", "1.4", "0.4", "3.6", "0.39999999999999997", "0.4000000000000001", "3.6000000000000005", "3.5999999999999996",
          "0.5", "8", "8.000000000000002", "0.49999999999999994", "-1", "1e9", "2147483647", "2147483648", "2147483647.5",
          "2147483520", "2147483583", "2147483584", "-2147483649", "nan", "NaN", "inf", "-inf", "abc", "", " 2.5 ", "1e400",
          "1e-400", ".5", "5.", "+3", "-0", "0.1", "9.3", "10", "1,5"]
STRINGS = ["abc", "Re:Zero", "a//b", " padded ", "", "[General]", "osu file format v9", "ユニコード", "x: y: z", "\"q\"",
           "C:\\Music\\a.mp3", "a\\\\b", "tab\tin", "trailing:", ":lead", "a // c"]

KEYS = {
    "editor": [("Bookmarks", "bm"), ("DistanceSpacing", "f"), ("BeatDivisor", "i"), ("GridSize", "i"), ("TimelineZoom", "f")],
    "metadata": [("Title", "s"), ("TitleUnicode", "s"), ("Artist", "s"), ("ArtistUnicode", "s"), ("Creator", "s"),
                 ("Version", "s"), ("Source", "s"), ("Tags", "s"), ("BeatmapID", "i"), ("BeatmapSetID", "i")],
    "difficulty": [("HPDrainRate", "f"), ("CircleSize", "f"), ("OverallDifficulty", "f"), ("ApproachRate", "f"),
                   ("SliderMultiplier", "f"), ("SliderTickRate", "f")],
}
BOOKMARKS = ["1,2,3", "", "1", "1,,2", "1, 2", "x,5,2147483648,-7,+3", "-2147483648", "5 // c", "1,2:3"]
FORMS = ["{k}:{v}", "{k}: {v}", " {k} : {v} ", "{k}:{v} // c", "{k}:{v}:extra",
         # "the trimmed text": Rust's str::trim removes every Unicode White_Space character, not only the ASCII ones - ideographic
         # space, no-break space, vertical tab, NEL, em space around the key and in front of the value (seed C11-k)
         "{k}:\u3000{v}", "{k}:\u00a0{v}", "{k}:\x0b{v}", "{k}\u3000: {v}", "\u2003{k}\u00a0:\u0085{v}", "{k}:\u2028{v}\u2029"]
ODD_LINES = ["", "NoColon", ":", ":v", "Unknown: 1", "title: x", "Title", "Title:", "//Title: x", " // c", "Title : a : b"]

EVENT_LINES = [
    # file-name fields made of quote characters only / one-sided quotes (seed C01-k: slicing between the quotes)
    '0,0,"', '0,0,""', '0,0,"""', 'Video,0,"', '4,0,0,"', '0,0,"a', '0,0,a"', '1,0,"', 'Sprite,a,b,"', '0,0," "',
    '0,0,"bg.jpg",0,0', 'Background,0,bg2.png', '0,0,"C:\\\\dir\\\\bg.jpg"', '0,0,', '0,0', '0', '',
    'Video,0,"v.MP4"', '1,0,vid.avi', '1,0,pic.png', '1,0,ab', '1,0,abc', '1,0,"x.Mp4"', '1,0,x.m4v', '1,0,ビデオ.mp4',
    '1,0,é', '1,0,aé', '1,0,ビ', '1,0,x.mpg // c', '1,0,"a.flv', 'Video,0,file.wmvx',
    # names whose last three BYTES start inside a multi-byte character
    'Video,0,"ムービーv2"', '1,0,vidéos', '1,0,clip😀', '1,0,x😀y', 'Video,0,"日本語"', '1,0,ab\u00e9',
    '4,Background,Centre,"sb.png",320,240', 'Sprite,a,b', 'Sprite,a,b,', '4,0,0,second.png', '4,x,y,"q\\\\r.png"',
    '2,100,200', '2,200,100', 'Break,1e3,nan', '2,abc,5', '2,5,abc', '2,1', '2, 10 , 20 ', '2,-0,0', '2,0,-0', '2,2147483648,5',
    '2,5,2147483648', '2,inf,5', '2,1,2,3', '2,100,200 // brk',
    '3,100,1,2,3', 'Colour,1,2', '5,0,0,"s.wav"', 'Sample,1,2', '6,a,b', 'Animation,1,2', '7,1,2', 'background,0,x.png',
    ' 0,0,x.png', '0 ,0,x.png', ',,,', '0,0,"quoted"name"', '0,0,""', '0,0,a\\b',
    # storyboard elements spelled by name, with a usable file name, and their (indented) command lines
    'Sprite,Background,Centre,"SB\\bg.png",320,240', 'Sprite,Foreground,TopLeft,fg.png,0,0', 'Animation,Fail,Centre,"anim.png",320,240,4,100,LoopForever',
    'Sample,100,0,"s.wav",80', ' F,0,0,1000,0,1', '_M,0,0,1000,320,240,100,100', '  S,0,500,,1.5', ' L,0,3',
    # nested directories written with single Windows separators, runs of separators of every length, mixed with `/` (seed C11-o: a one-pass rewrite
    # of clean_filename whose "previous was a backslash" flag survives ordinary characters)
    '0,0,"sb\\bg\\image.jpg",0,0'.replace('\\\\', '\\'), '0,0,"a\\b\\c\\d.jpg"'.replace('\\\\', '\\'), 'Video,0,"sb\\bg\\image.png"'.replace('\\\\', '\\'),
    'Sprite,Background,Centre,"x\\y\\z.png",1,1'.replace('\\\\', '\\'), '0,0,a\\\\b\\c\\\\\\d\\e.jpg', '0,0,"\\a\\"', '0,0,a/b\\c/d\\e.png'.replace('\\\\', '\\'),
]
COLOR_LINES = [
    "Combo1 : 1,2,3", "Combo2: 255,255,255,0", "Combo1: 256,0,0", "Combo: 1,2", "Combo9: 1,2,3,4,5", "SliderBorder: 1,2,3",
    "SliderBorder: 4,5,6", "SliderTrackOverride : 0,+5, 7 ", ": 1,2,3", "abc", "Combo1: -1,2,3", "Name: 1 ,2, 3 // c",
    # a custom colour whose name looks like a section header (indented, so it is a record; the encoder writes the name at the
    # start of a line: seed C04-l), names with brackets and colons
    " [Events]: 1,2,3", " [General] : 4,5,6", "\t[HitObjects]: 7,8,9", " [Colours]x: 1,1,1", " x[Events]: 2,2,2", " [Nope]: 3,3,3",
    "ComboX:1,2,3", "combo1: 1,2,3", "Combo1: 1,2,3,", "Combo1: 1,2,3,x", "Combo1: 1,,3", "Other: 9,9,9", "Other : 8,8,8,8",
    "Combo3:001,002,003", "A:1,2,3:4", "Combo4: 1.0,2,3", "", "Combo5: 1,2,3 //", "  Spaced Name  : 7,7,7",
]


def valpool(kind):
    return {"i": INTS, "f": FLOATS, "s": STRINGS, "bm": BOOKMARKS}[kind]


# ---- an independent reference for [General] lines (written from the format rules, not from the model) ----------------
_INT_RE = re.compile(r"[+-]?[0-9]+\Z")
_FLT_RE = re.compile(r"[+-]?(?:[0-9]+\.?[0-9]*(?:[eE][+-]?[0-9]+)?|\.[0-9]+(?:[eE][+-]?[0-9]+)?|inf|infinity|nan)\Z", re.I)
_WS = " \t\n\x0b\x0c\r\x85\xa0\u1680\u2000\u2001\u2002\u2003\u2004\u2005\u2006\u2007\u2008\u2009\u200a\u2028\u2029\u202f\u205f\u3000"
_I32MAX = 2147483647


def _ref_i32(v):
    v = v.strip(_WS)
    if not _INT_RE.match(v):
        return None
    n = int(v)
    return n if -_I32MAX <= n <= _I32MAX else None


def _ref_f32_bits(v):
    v = v.strip(_WS)
    if not _FLT_RE.match(v):
        return None
    x = float(v)
    if x != x:
        return None
    try:
        y = struct.unpack(">f", struct.pack(">f", x))[0]
    except OverflowError:
        return None
    # the limit is compared in f32: (2^31 - 1) as f32 = 2^31
    if y < -2147483648.0 or y > 2147483648.0:
        return None
    # double rounding (decimal -> f64 -> f32) differs from Rust's direct decimal -> f32 only for long decimals: not judged
    if len(v.lstrip("+-").replace(".", "").split("e")[0].split("E")[0]) > 9:
        return "unjudged"
    return format(struct.unpack(">I", struct.pack(">f", x))[0], "x")


def general_reference(lines):
    """state after the lines, and per line whether it is accepted; None where the reference does not judge"""
    st = {"audio": "-", "lead": "0", "preview": "-1", "bank": "0", "vol": "100", "stack": "3f333333", "mode": "0",
          "flags": ["0"] * 5, "countdown": "1", "offset": "0"}
    res = []
    flags = ["LetterboxInBreaks", "SpecialStyle", "WidescreenStoryboard", "EpilepsyWarning", "SamplesMatchPlaybackRate"]
    banks = {"0": "0", "1": "1", "2": "2", "3": "3", "None": "0", "Normal": "1", "Soft": "2", "Drum": "3"}
    cds = {"0": "0", "1": "1", "2": "2", "3": "3", "None": "0", "Normal": "1", "Half speed": "2", "Double speed": "3"}
    for l in lines:
        i = l.find("//")
        if i >= 0:
            l = l[:i]
        k, _, v = l.partition(":")
        k, v = k.strip(_WS), v.strip(_WS)
        ok = True
        if k == "AudioFilename":
            st["audio"] = v.replace("\\", "/").encode().hex() or "-"
        elif k in ("AudioLeadIn", "PreviewTime", "SampleVolume", "CountdownOffset") or k in flags:
            n = _ref_i32(v)
            if n is None:
                ok = False
            elif k == "AudioLeadIn":
                st["lead"] = format(struct.unpack(">Q", struct.pack(">d", float(n)))[0], "x")
            elif k == "PreviewTime":
                st["preview"] = str(n)
            elif k == "SampleVolume":
                st["vol"] = str(n)
            elif k == "CountdownOffset":
                st["offset"] = str(n)
            else:
                st["flags"][flags.index(k)] = "1" if n == 1 else "0"
        elif k == "SampleSet":
            if v in banks:
                st["bank"] = banks[v]
            else:
                ok = False
        elif k == "Countdown":
            if v in cds:
                st["countdown"] = cds[v]
            else:
                ok = False
        elif k == "Mode":
            if v in ("0", "1", "2", "3"):
                st["mode"] = v
            else:
                ok = False
        elif k == "StackLeniency":
            b = _ref_f32_bits(v)
            if b == "unjudged":
                return None
            if b is None:
                ok = False
            else:
                st["stack"] = b
        res.append(ok)
    return res, st


class C11(Property):
    id = "C11"
    lean_module = "RosuModel.Props.C11Full"    # imports Props/C11Tables.lean (→ Props/C11General.lean → Props/C11.lean) and Props/C11Ieee.lean; all in namespace Rosu.C11
    theorem_modules = ['RosuModel.Props.C11Tables', 'RosuModel.Props.C11Ieee']   # files whose top-level theorems are all audited
    namespace = "Rosu.C11"
    design_ref = "5.11"
    required_theorems = ["value_is_after_first_colon", "no_colon_no_value", "editor_reject_no_effect", "metadata_reject_no_effect",
                         "difficulty_reject_no_effect", "events_reject_no_effect", "colors_reject_no_effect",
                         "editor_unknown_key_noop", "metadata_unknown_key_noop", "difficulty_unknown_key_noop",
                         "last_valid_wins_generic", "title_last_wins", "clamp_within", "slider_multiplier_clamped",
                         "slider_tick_rate_clamped", "ar_follows_od_until_set", "has_ar_monotone", "floatParse_not_nan",
                         "break_appended", "max_not_before", "breaks_prefix", "background_overwrites", "sprite_only_fills_empty",
                         "video_rule", "color_alpha_ignored", "custom_colour_one_per_name", "combo_prefix_appends",
                         # [General] (Props/C11General.lean)
                         "generalKey_parse_eq", "general_reject_no_effect", "general_unknown_key_noop", "i32Parse_range",
                         "flag_record", "flag_value", "flag_true_iff", "flag_invalid_rejected", "flag_get_set", "flag_set_frame",
                         "mode_values", "mode_record", "countdown_values", "countdown_record", "sample_set_values", "sample_set_record",
                         "audio_filename_record", "audio_filename_standardised", "audio_lead_in_integral", "audio_lead_in_accepted",
                         "general_mode_last_valid_wins", "general_preview_time_last_valid_wins",
                         # [Metadata] as a table (section_eq_table) and what follows from it
                         "metadata_eq_table", "metadata_invalid_value_noop", "metadataTable_frame", "metadata_frame",
                         "metadata_sets_own_field",
                         # [General] as a table
                         "general_eq_table", "general_step_cases",
                         # Props/C11Tables.lean: the remaining sections as tables / cases, and what follows from them
                         "applyRule_reject", "tableRule_invalid", "tableRule_unknown", "tableRule_frame", "tableRule_update",
                         "lastValid_eq_lastSome",
                         "bookmarks_skip_invalid", "editor_eq_table", "editor_invalid_value_noop", "editorTable_frame", "editor_frame",
                         "editor_field_step", "editor_last_valid_wins",
                         "difficulty_eq_table", "difficulty_invalid_value_noop", "difficultyTable_frame", "difficulty_frame",
                         "has_ar_step", "difficulty_field_step", "difficulty_last_valid_wins", "approach_rate_step",
                         "approach_rate_last_valid_wins",
                         "colours_eq_table", "color_parse_spec", "color_components_u8", "setCustomColor_lookup",
                         "colours_invalid_value_noop", "colours_frame",
                         "events_eq_cases", "event_type_values", "events_invalid_noop", "events_frame", "events_break_record",
                         "metadata_field_step", "metadata_last_valid_wins",
                         "generalTable_frame", "general_frame", "general_invalid_value_noop", "general_field_step",
                         "general_last_valid_wins",
                         # Props/C11Ieee.lean: the order hypotheses discharged for the driver's Float / Float32
                         "clamp_within_ieee", "max_not_before_ieee", "clamp_within_float", "clamp_within_float32", "max_not_before_float",
                         "max_not_before_float32", "slider_multiplier_within_float", "slider_tick_rate_within_float",
                         "slider_multiplier_between_float", "slider_tick_rate_between_float", "break_never_negative_float"]
    partial_theorems = {
        "clamp_within / max_not_before": "the generic forms take two order facts about `<` (irreflexive, asymmetric) as hypotheses. For the driver's Float / Float32 these are now theorems "
                                        "(Props/C11Ieee.lean): in Lean 4.33 Float is a structure over the logical model Float.Model and `<` reduces in the kernel; Lemmas/FloatModelCompare.lean "
                                        "(class FMO.IeeeOrd, instances for Float and Float32, FMO.lt_irrefl / FMO.lt_asymm) discharges both, giving clamp_within_ieee / max_not_before_ieee and "
                                        "clamp_within_float(32) / max_not_before_float(32) with no order hypothesis. The two [Difficulty] ranges are evaluated on the actual literals (`decide +kernel`): "
                                        "slider_multiplier_within_float / slider_tick_rate_within_float (never below 0.4 / 0.5, never above 3.6 / 8, for every x incl. NaN) and, for the value of an accepted "
                                        "record (floatParse never returns NaN), slider_multiplier_between_float / slider_tick_rate_between_float in the ordinary sense lo <= y <= hi; "
                                        "break_never_negative_float: start <= max(start, end) and the stored end is not NaN, for parsed IEEE doubles. These are statements about Lean's logical float "
                                        "model; the compiled operations are compared with Rust by the codec differential of this check (fop64 / fop32 cmp, minmax)",
    }
    level_text = ("Lean 4 theorems over the model of the record-section parsers (Editor, Metadata, Difficulty, Events, Colours; KeyValue): value = trimmed "
                  "text after the first colon (any further colons kept); rejected record ⇒ state unchanged, unknown key ⇒ accepted no-op; last valid "
                  "occurrence wins (generic fold lemma); slider multiplier / tick rate stored as clamp(v,0.4,3.6) / clamp(v,0.5,8) with the clamp bound fact (for the driver's IEEE doubles with no order hypothesis and in the ordinary sense: slider_multiplier_between_float, slider_tick_rate_between_float); "
                  "AR = OD until an ApproachRate record is accepted (invariant over every line sequence); background/video/sprite precedence; break end = max(start,end) (IEEE doubles: break_never_negative_float), "
                  "breaks only appended; colour alpha ignored, one custom colour per name, Combo* appends. Model tied to the code by the key × value-class matrix "
                  "(all keys × value classes × line forms, pairs, random sequences) compared field-by-field (floats by bits); an independent table-driven Rust reference "
                  "is evaluated against the real parsers for the failing-input search. [General] (Props/C11General.lean): rejected ⇒ unchanged, unknown key ⇒ accepted no-op; "
                  "each of the five flags is set to true iff the value parses (i32 within ±(2^31−1)) to exactly 1, to false for every other in-range integer, and an invalid "
                  "value rejects the record; Mode accepts exactly 0..3, Countdown / SampleSet the numbers 0..3 and their four names; AudioFilename only has backslashes turned "
                  "into slashes; AudioLeadIn is an i32 then converted; last valid Mode / PreviewTime wins; the whole section equals an explicit fourteen-row key ↦ conversion+setter table "
                  "(general_eq_table). [Metadata] is proved equal to an explicit key ↦ conversion+setter "
                  "table (section_eq_table), from which invalid-value no-op and the frame property (a record changes at most its own field) are derived. "
                  "Props/C11Tables.lean: the same section = table statement for [Editor] (editor_eq_table: Bookmarks = comma items read by i32::from_str, invalid items skipped, never "
                  "rejected; two floats, two integers) and [Difficulty] (difficulty_eq_table: six floats, slider multiplier / tick rate clamped, OverallDifficulty also sets the approach "
                  "rate until an ApproachRate record was accepted); [Colours] as one rule (colours_eq_table: the value is converted first — three or four trimmed u8 components, alpha "
                  "always 255 (color_parse_spec) — then a Combo… key appends and any other key sets / overrides the custom colour of that name (setCustomColor_lookup)); [Events] by "
                  "record kind (events_eq_cases: background overwrites, video counts as background iff its ≥3-byte name has no video extension, break appended with end = max(start,end), "
                  "sprite only fills an empty background, other kinds ignored, anything else rejected). From each table: invalid value ⇒ rejected and state unchanged, frame (a record "
                  "changes at most the field of its own key; the only exception is the stated OD→AR coupling), and last-valid-wins instantiated for every field of Editor, Difficulty, "
                  "General and Metadata by one key-indexed theorem per section (editor/difficulty/general/metadata_last_valid_wins), with the approach rate's coupled form "
                  "approach_rate_last_valid_wins (last valid ApproachRate if any, else last valid OverallDifficulty). These sections' parsers return state × ok in the model — "
                  "only [General] keeps an error kind, and its table (general_eq_table) states them.")
    technique = "Lean 4 proof (decision-logic theorems over the section parser model) + differential correspondence on a key × value-class matrix"
    trusted_base = [
        "Lean 4.33.0 kernel; axioms ⊆ {propext, Classical.choice, Quot.sound} per #print axioms",
        "hand-written model Model/{Text,Num,NumParse,ParseNum,KeyValue,Sections,General}.lean tied to /repo by this check's differential run",
        "Rust std: str::{split,trim,find,replace,trim_matches}, i32/u8/f32/f64 FromStr (model codec validated by the codec differential in this run)",
        "the *_float / *_float32 theorems are about Lean 4.33's logical float model Float.Model (Float is a structure over it, not opaque); that the compiled @[extern] C operations agree with that model is part of "
        "Lean's own trusted code base and is compared with Rust bit for bit by the codec differential of this run (fop64 / fop32 <add|sub|mul|div|sqrt|abs|neg|cmp|minmax>, the casts)",
    ]
    assumptions = [
        "number parsing/printing of the model is generic (Scalar); the IEEE instance is validated against Rust on the codec cases of this run",
        "float clamp/max facts: the generic theorems take explicit order laws; for the driver's Float / Float32 the laws are theorems (Props/C11Ieee.lean via Lemmas/FloatModelCompare.lean), so nothing is assumed there",
    ]
    nontrivial_rule = ("record lists built from every recognised key × value classes (valid, boundary, overflow, NaN/inf, empty, padded, "
                       "comment-suffixed, extra colons), unknown keys, duplicates; non-trivial = at least one line accepted and one field changed from default")

    def gen(self, rng, tier):
        cases = []

        def add(sec, lines, tag):
            cases.append(Case("sec " + sec + "".join(" " + hexs(l.encode()) for l in lines), tags=(sec, tag)))

        for sec, keys in KEYS.items():
            add(sec, [], "empty")
            for k, kind in keys:
                for v in valpool(kind):
                    for form in FORMS:
                        add(sec, [form.format(k=k, v=v)], "single")
                # last valid wins: pairs
                vals = valpool(kind)
                for a in vals[:12]:
                    for b in vals[:12]:
                        add(sec, [f"{k}: {a}", f"{k}: {b}"], "pair")
            for l in ODD_LINES:
                add(sec, [l], "odd")
        # approach rate follows overall difficulty until set
        for order in itertools.permutations(["OverallDifficulty: 7", "ApproachRate: 9", "OverallDifficulty: 3.5", "ApproachRate: x", "OverallDifficulty: nan"], 3):
            add("difficulty", list(order), "ar-od")
        for l in EVENT_LINES:
            add("events", [l], "single")
        for a in EVENT_LINES:
            for b in EVENT_LINES[:30]:
                add("events", [a, b], "pair")
        # file names over a small alphabet rich in separators and quotes, in every event kind that carries one
        for _ in range(300 if tier == "quick" else 3000):
            name = "".join(rng.choice('ab.\\\\\\//"" ') for _ in range(rng.randint(1, 12)))
            form = rng.choice(['0,0,{n},0,0', '0,0,"{n}"', 'Video,0,"{n}.png"', '1,0,{n}.mp4', 'Sprite,Background,Centre,"{n}",1,1', '4,0,0,{n}'])
            add("events", [form.format(n=name)], "separator-rich-file-name")
        for l in COLOR_LINES:
            add("colors", [l], "single")
        for a in COLOR_LINES:
            for b in COLOR_LINES:
                add("colors", [a, b], "pair")
        # [General]: the key x value matrix, and for every key a valid non-default record followed by every value of the pool
        # (an invalid value must leave the field as the first record set it; a valid one replaces it)
        from .c12 import GEN_KEYS, GEN_VALUES
        first = {"AudioFilename": "a.mp3", "AudioLeadIn": "250", "PreviewTime": "1234", "SampleSet": "Drum", "SampleVolume": "35", "StackLeniency": "0.25",
                 "Mode": "3", "LetterboxInBreaks": "1", "SpecialStyle": "1", "WidescreenStoryboard": "1", "EpilepsyWarning": "1",
                 "SamplesMatchPlaybackRate": "1", "Countdown": "2", "CountdownOffset": "7"}
        for k in GEN_KEYS:
            for v in GEN_VALUES:
                cases.append(Case("gen " + hexs(f"{k}: {v}".encode()), tags=("general-matrix",)))
                cases.append(Case("gen " + hexs(f"{k}: {first[k]}".encode()) + " " + hexs(f"{k}:{v}".encode()), tags=("general-then",)))
            for v2 in ("2", "1", "Soft", "0.9"):
                cases.append(Case("gen " + hexs(f"{k}: {first[k]}".encode()) + " " + hexs(f"{k}: bad".encode()) + " " + hexs(f"{k}: {v2}".encode()),
                                  tags=("general-then",)))
        n = 4000 if tier == "quick" else 120000
        for _ in range(n):
            sec = rng.choice(["editor", "metadata", "difficulty", "events", "colors"])
            k = rng.randint(1, 8)
            lines = []
            for _ in range(k):
                if sec in KEYS:
                    if rng.random() < 0.15:
                        lines.append(rng.choice(ODD_LINES))
                    else:
                        key, kind = rng.choice(KEYS[sec])
                        lines.append(rng.choice(FORMS).format(k=key, v=rng.choice(valpool(kind))))
                elif sec == "events":
                    lines.append(rng.choice(EVENT_LINES))
                else:
                    lines.append(rng.choice(COLOR_LINES))
            add(sec, lines, "random")
        cases += codec_cases(rng, 1500 if tier == "quick" else 40000)
        return cases

    def py_oracle(self, case, obs):
        if not case.line.startswith("gen ") or not obs.startswith("r="):
            return None
        lines = [bytes.fromhex(t).decode("utf-8", "replace") for t in case.line.split()[1:]]
        ref = general_reference(lines)
        if ref is None:
            return "SKIP long-decimal"
        res, st = ref
        f = dict(x.split("=", 1) for x in obs.split(" "))
        got = [r == "ok" for r in f["r"].split(",")]
        if got != res:
            return f"FAIL [General] lines accepted {got}, the format rules say {res}: {lines}"
        for k, want in (("audio", st["audio"]), ("lead", st["lead"]), ("preview", st["preview"]), ("bank", st["bank"]), ("vol", st["vol"]),
                        ("stack", st["stack"]), ("mode", st["mode"]), ("flags", "".join(st["flags"])), ("countdown", st["countdown"]), ("offset", st["offset"])):
            if f.get(k) != want:
                return f"FAIL [General] {k} is {f.get(k)}, the format rules give {want}: {lines}"
        return "OK"

    def is_nontrivial(self, case, impl_out):
        if case.line.startswith("gen "):
            return True
        return impl_out.startswith("ok=") and "1" in impl_out.split(" ")[0]


PROP = C11()
