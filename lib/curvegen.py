"""Seeded generators for the curve requests (C16-C19): control-point lists, requested lengths, progress values,
operation sequences. Every random choice comes from the `rng` handed in."""
import itertools
import math
import struct

MODES = [0, 1, 2, 3]
TYPES = ["C", "B", "L", "P"]
BOUND = 131072.0


def f32(x):
    return struct.unpack("<f", struct.pack("<f", x))[0]


def bits32(x):
    return "%x" % struct.unpack("<I", struct.pack("<f", x))[0]


def bits64(x):
    return "%x" % struct.unpack("<Q", struct.pack("<d", x))[0]


def from_bits64(h):
    return struct.unpack("<d", struct.pack("<Q", int(h, 16)))[0]


def from_bits32(h):
    return struct.unpack("<f", struct.pack("<I", int(h, 16)))[0]


def next_up(x, n=1):
    b = struct.unpack("<q", struct.pack("<d", x))[0]
    b += n if x >= 0 else -n
    return struct.unpack("<d", struct.pack("<q", b))[0]


def pt(x, y, t=None):
    return f"{bits32(x)}:{bits32(y)}:{t or '-'}"


def len_tok(L):
    return "-" if L is None else bits64(L)


def natural_len(points):
    """polyline length of the control polygon (a cheap stand-in for the curve's natural length when choosing L)."""
    s = 0.0
    for (x0, y0, _), (x1, y1, _) in zip(points, points[1:]):
        s += math.hypot(x1 - x0, y1 - y0)
    return s


def curve_line(cmd, mode, L, points, progress=None):
    s = f"{cmd} {mode} {len_tok(L)} " + " ".join(pt(x, y, t) for x, y, t in points)
    if progress is not None:
        s += " @ " + " ".join(bits64(q) for q in progress)
    return s


def coord(rng):
    k = rng.random()
    if k < 0.45:
        return float(rng.randint(-64, 576))
    if k < 0.75:
        return f32(rng.uniform(-512.0, 1024.0))
    if k < 0.85:
        return float(rng.randint(-3, 3))
    if k < 0.93:
        return f32(rng.uniform(-4096.0, 4096.0))
    if k < 0.97:
        return f32(rng.uniform(-BOUND, BOUND))
    return rng.choice([0.0, -0.0, 0.5, 1e-3, 131072.0, -131072.0, 1e-20, 256.25])


def layout(rng, n):
    """a path-type layout: first point typed (mostly), later typed points open new segments."""
    ts = [None] * n
    ts[0] = rng.choice(TYPES + ["B3"]) if rng.random() < 0.93 else None
    p_typed = rng.choice([0.0, 0.0, 0.15, 0.4, 1.0])
    for i in range(1, n):
        if rng.random() < p_typed:
            ts[i] = rng.choice(TYPES)
    return ts


def shape(rng, n):
    """n positions: generic, with duplicates, collinear, degenerate."""
    k = rng.random()
    pts = [(coord(rng), coord(rng)) for _ in range(n)]
    if k < 0.15 and n >= 2:      # consecutive duplicates
        for _ in range(rng.randint(1, 2)):
            i = rng.randrange(n - 1)
            pts[i + 1] = pts[i]
    elif k < 0.25 and n >= 2:    # collinear
        x0, y0 = pts[0]
        dx, dy = rng.choice([(1.0, 0.0), (0.0, 1.0), (1.0, 1.0), (3.0, -2.0), (0.5, 0.25)])
        for i in range(n):
            t = float(rng.randint(-40, 120))
            pts[i] = (f32(x0 + dx * t), f32(y0 + dy * t))
    elif k < 0.30:               # all equal
        pts = [pts[0]] * n
    elif k < 0.36 and n >= 2:    # last two equal
        pts[-1] = pts[-2]
    elif k < 0.42 and n >= 2:    # first two equal
        pts[1] = pts[0]
    elif k < 0.47 and n >= 3:    # near-collinear
        (x0, y0), (x1, y1) = pts[0], pts[1]
        for i in range(2, n):
            t = rng.uniform(-1.0, 3.0)
            pts[i] = (f32(x0 + (x1 - x0) * t), f32(y0 + (y1 - y0) * t + rng.choice([0.0, 1e-4, -1e-3, 0.01])))
    return pts


def flat_arc_pts(rng):
    """three points of a very flat circular arc: the middle point bulges at most ~0.3 px from the chord (so the arc needs
    only one or two sub-points) while the triangle's cross product stays far above f32::EPSILON."""
    ang = rng.uniform(0, 2 * math.pi)
    ux, uy = math.cos(ang), math.sin(ang)
    x0, y0 = rng.uniform(-100, 500), rng.uniform(-100, 400)
    chord = rng.choice([rng.uniform(2, 30), rng.uniform(30, 300), float(rng.randint(5, 120))])
    tm = rng.uniform(0.2, 0.8)
    bulge = rng.choice([0.01, 0.03, 0.05, 0.08, 0.1, 0.12, 0.2, 0.3]) * rng.choice([-1, 1])
    if rng.random() < 0.4:   # small integers, e.g. (0,0) (10,1) (21,2)
        k = rng.randint(5, 40)
        a = (0.0, 0.0)
        b = (float(k), float(rng.randint(0, 3)))
        c = (float(2 * k + rng.choice([-1, 1])), float(2 * int(b[1]) + rng.choice([0, 0, 1, -1])))
        ox, oy = float(rng.randint(0, 300)), float(rng.randint(0, 300))
        return [(a[0] + ox, a[1] + oy), (b[0] + ox, b[1] + oy), (c[0] + ox, c[1] + oy)]
    return [(f32(x0), f32(y0)),
            (f32(x0 + ux * chord * tm - uy * bulge), f32(y0 + uy * chord * tm + ux * bulge)),
            (f32(x0 + ux * chord), f32(y0 + uy * chord))]


def longway_arc_pts(rng):
    """three nearly collinear points inside [-4096, 4096]^2 whose middle point is NOT between the outer two along the circle's
    short side: the arc through them runs the long way round an enormous circle (700..1700 sub-points around the code's
    bail-out of 1000), which must fall back to a Bezier."""
    x = rng.uniform(800, 2800)
    r = math.exp(rng.uniform(math.log(9000), math.log(70000)))
    # circle through (-x,0), (x,0), (0,-h):  r = (x^2 + h^2) / (2h)  =>  h = r - sqrt(r^2 - x^2)
    h = r - math.sqrt(r * r - x * x)
    ang = rng.uniform(0, 2 * math.pi)
    ca, sa = math.cos(ang), math.sin(ang)
    ox, oy = rng.uniform(-1000, 1000), rng.uniform(-1000, 1000)
    tr = lambda px, py: (f32(ox + ca * px - sa * py), f32(oy + sa * px + ca * py))
    pts = [tr(-x, 0.0), tr(x, 0.0), tr(0.0, -h)]
    if rng.random() < 0.3:
        pts = [pts[0], pts[2], pts[1]]   # control: the short way (a small, ordinary arc)
    if max(abs(c) for p in pts for c in p) > 4096:
        return longway_arc_pts(rng)
    return pts


def rand_points(rng, nmax=12):
    k = rng.random()
    if k < 0.04:
        ps = flat_arc_pts(rng)
        return [(ps[0][0], ps[0][1], "P"), (ps[1][0], ps[1][1], None), (ps[2][0], ps[2][1], None)]
    if k < 0.06:
        ps = longway_arc_pts(rng)
        return [(ps[0][0], ps[0][1], "P"), (ps[1][0], ps[1][1], None), (ps[2][0], ps[2][1], None)]
    n = rng.choice([1, 2, 2, 3, 3, 3, 4, 4, 5, 6, 7, 8, 10, nmax])
    ps = shape(rng, n)
    ts = layout(rng, n)
    return [(x, y, t) for (x, y), t in zip(ps, ts)]


def len_classes(rng, points):
    """requested lengths around the natural length of the control polygon"""
    nat = natural_len(points)
    out = [("none", None), ("tiny", 1e-3), ("zero", 0.0), ("neg", -5.0), ("nan", float("nan")),
           ("inf", float("inf")), ("huge", 1e6)]
    if nat > 0:
        out += [("inside", nat * rng.uniform(0.05, 0.95)), ("beyond", nat * rng.uniform(1.01, 2.5)),
                ("polygon-exact", nat), ("polygon+ulp", next_up(nat)), ("polygon-ulp", next_up(nat, -1))]
    else:
        out += [("beyond", rng.uniform(0.5, 300.0))]
    return out


def grid_points(k):
    """exhaustive integer grid [-3,3]^2 paths of k points, first point fixed at the origin up to translation symmetry
    is NOT assumed: the first point ranges over a reduced set, the others over the whole grid."""
    rng_ = range(-3, 4)
    firsts = [(0, 0), (1, -2)]
    others = list(itertools.product(rng_, rng_))
    for f in firsts:
        for rest in itertools.product(others, repeat=k - 1):
            yield [f] + list(rest)


def progress_values(rng, lengths=None):
    qs = [0.0, 1.0, 0.5, -0.0, -1.0, 2.0, float("nan"), float("inf"), float("-inf"), 5e-324, 1e-310, 1.0 - 2 ** -53,
          1.0 + 2 ** -52, 0.25, 0.75, 1e-9]
    qs += [rng.random() for _ in range(6)]
    qs += [rng.uniform(-0.5, 1.5) for _ in range(2)]
    if lengths and lengths[-1] and lengths[-1] == lengths[-1] and abs(lengths[-1]) != float("inf"):
        d = lengths[-1]
        for l in rng.sample(lengths, min(len(lengths), 6)):
            if l == l:
                qs.append(l / d)
    return qs


# ---- helpers on observations (used by generators to aim L at the natural length, and by known()) ----

def parse_curve_obs(out):
    """'ok p=N x:y ... l=M b ...' -> (path [(x,y)], lengths [float]) or None"""
    toks = out.split()
    if len(toks) < 3 or toks[0] != "ok" or not toks[1].startswith("p="):
        return None
    n = int(toks[1][2:])
    path = []
    for t in toks[2:2 + n]:
        xs, ys = t.split(":")
        path.append((float("nan") if xs == "nan" else from_bits32(xs), float("nan") if ys == "nan" else from_bits32(ys)))
    m = int(toks[2 + n][2:])
    lens = [float("nan") if t == "nan" else from_bits64(t) for t in toks[3 + n:3 + n + m]]
    return path, lens


def seg_len32_is_zero(a, b):
    """does `(b - a).length()` evaluate to 0 in f32 arithmetic (equal points, or squares that underflow)?"""
    dx, dy = f32(b[0] - a[0]), f32(b[1] - a[1])
    return f32(f32(dx * dx) + f32(dy * dy)) == 0.0


def request_parts(line):
    """(cmd, mode, Ltok, [pt tokens], [progress tokens])"""
    toks = line.split()
    if toks and toks[0].startswith("limit="):   # per-request time limit of the harness, not part of the request
        toks = toks[1:]
    rest = toks[3:]
    if "@" in rest:
        k = rest.index("@")
        return toks[0], toks[1], toks[2], rest[:k], rest[k + 1:]
    return toks[0], toks[1], toks[2], rest, []


def nan_cut_predicate(line, run_impl):
    """F11: the end point was re-projected along a natural path segment whose f32 length is 0 (division by zero in
    `normalize`): the adjusted path's last point is non-finite, all earlier ones are a prefix of the natural path, and
    the natural segment at that index has zero computed length."""
    cmd, mode, ltok, pts, _ = request_parts(line)
    if ltok == "-":
        return False
    outs = run_impl([f"curve {mode} {ltok} " + " ".join(pts), f"curve {mode} - " + " ".join(pts)])
    adj, nat = parse_curve_obs(outs[0]), parse_curve_obs(outs[1])
    if not adj or not nat or len(adj[0]) < 2:
        return False
    k = len(adj[0]) - 1
    last = adj[0][k]
    if last[0] == last[0] and last[1] == last[1] and abs(last[0]) != float("inf") and abs(last[1]) != float("inf"):
        return False
    if k >= len(nat[0]):
        return False
    return seg_len32_is_zero(nat[0][k - 1], nat[0][k])


def natural_dists(run_impl, items):
    """items: [(mode, points)] -> natural dist per item (None when unavailable)"""
    lines = [curve_line("curve", m, None, pts) for m, pts in items]
    outs = run_impl(lines)
    res = []
    for o in outs:
        obs = parse_curve_obs(o)
        res.append(obs[1][-1] if obs and obs[1] else None)
    return res


def natural_lengths(run_impl, items):
    """items: [(mode, points)] -> the natural curve's list of cumulative lengths per item ([] when unavailable)"""
    lines = [curve_line("curve", m, None, pts) for m, pts in items]
    res = []
    for o in run_impl(lines):
        obs = parse_curve_obs(o)
        res.append(list(obs[1]) if obs and obs[1] else [])
    return res


def len_classes_nat(rng, nat, cums=()):
    """the requested-length classes of the C16 quantifier around the curve's natural length `nat`; `cums` = the natural
    curve's cumulative lengths: a requested length that is bit-for-bit the cumulative length at an inner vertex (in particular
    one that occurs twice: a zero-length segment) is a class of its own."""
    inner = [c for c in cums[1:-1] if c == c and 0 < c]
    dups = [c for c, d in zip(inner, inner[1:]) if c == d]
    extra = []
    if dups:
        extra.append(("cum-exact-duplicate", rng.choice(dups)))
    if inner:
        c = rng.choice(inner)
        extra += [("cum-exact", c), ("cum-exact+ulp", next_up(c)), ("cum-exact-ulp", next_up(c, -1))]
    out = extra + [("none", None), ("tiny", 1e-3), ("zero", 0.0), ("neg", -rng.uniform(0.1, 50.0)), ("nan", float("nan")),
           ("inf", float("inf")), ("huge", 1e6)]
    if nat is not None and nat == nat and 0 < nat < 1e30:
        out += [("inside", nat * rng.uniform(0.02, 0.98)), ("beyond", nat * rng.uniform(1.001, 3.0)),
                ("exact", nat), ("exact+1e-16", nat + 1e-16 if nat + 1e-16 != nat else next_up(nat)),
                ("exact-1e-16", nat - 1e-16 if nat - 1e-16 != nat else next_up(nat, -1)),
                ("exact+ulp", next_up(nat)), ("just-inside", nat * (1 - 1e-9))]
    else:
        out += [("beyond", rng.uniform(0.5, 300.0))]
    return out


def cut_overshoot_predicate(line, run_impl):
    """F12: osu! mode, Catmull: the cut falls into a simplified segment whose booked length (difference of its cumulative
    lengths, which includes the removed detail) exceeds its chord, and the cut point is placed at distance L - len_k from p_k
    along the chord's direction, beyond the segment's end."""
    import math
    cmd, mode, ltok, pts, _ = request_parts(line)
    if ltok == "-" or mode != "0" or not any(p.endswith(":C") for p in pts):
        return False
    outs = run_impl([f"curve {mode} {ltok} " + " ".join(pts), f"curve {mode} - " + " ".join(pts)])
    adj, nat = parse_curve_obs(outs[0]), parse_curve_obs(outs[1])
    if not adj or not nat or len(adj[0]) < 2 or len(adj[0]) > len(nat[0]):
        return False
    L = from_bits64(ltok)
    k = len(adj[0]) - 1
    a, b, q = nat[0][k - 1], nat[0][k], adj[0][k]
    chord = math.hypot(b[0] - a[0], b[1] - a[1])
    booked = nat[1][k] - nat[1][k - 1]
    placed = L - nat[1][k - 1]
    if not (L <= nat[1][-1] and booked > chord and placed > chord):
        return False
    got = math.hypot(q[0] - a[0], q[1] - a[1])
    return abs(got - placed) <= 1e-4 * (1 + abs(placed)) + 1e-5 * max(1.0, max(abs(c) for p in nat[0] for c in p))


def segments_of(pt_tokens):
    """[(kind letter, [(x, y)])] as calculate_path splits the control points"""
    pts = [(from_bits32(t.split(":")[0]), from_bits32(t.split(":")[1]), t.split(":")[2]) for t in pt_tokens]
    segs, start = [], 0
    for i, p in enumerate(pts):
        if p[2] == "-" and i < len(pts) - 1:
            continue
        if i > start:
            kind = pts[start][2]
            segs.append(("L" if kind == "-" else kind[0], [(q[0], q[1]) for q in pts[start:i + 1]]))
        start = i
    return segs


def bezier_beyond_f32_resolution_predicate(line):
    """F23: the request has a Bezier / B-spline segment (or a perfect-curve segment, which may fall back to one) with a finite
    coordinate of magnitude >= 2^22: there neighbouring f32 values are >= 0.5 apart, so a piece whose control points are f32
    neighbours keeps second differences of one ulp per coordinate (sqrt(2) * 0.5 > 2 * BEZIER_TOLERANCE) however often it is
    subdivided - the flattening loop of approximate_bspline has no other exit."""
    import math
    _, _, _, pts, _ = request_parts(line)
    for kind, vs in segments_of(pts):
        if kind not in ("B", "P"):
            continue
        cs = [abs(v) for p in vs for v in p]
        if all(math.isfinite(c) for c in cs) and max(cs) >= 2.0 ** 22:
            return True
    return False


def huge_bezier_points(rng):
    """F23 family: 3..9 control points of one Bezier segment, all within a few ulps of one another at a magnitude 2^23 .. 2^60
    (squares still finite in f32), y either 0 or at a comparable magnitude."""
    def step(x, n):
        b = struct.unpack("<i", struct.pack("<f", x))[0] + n
        return struct.unpack("<f", struct.pack("<i", b))[0]
    k = rng.randint(23, 60)
    base = f32(rng.uniform(1, 2) * 2.0 ** k) * rng.choice([1.0, -1.0])
    ybase = rng.choice([0.0, base, f32(base * 0.37)])
    n = rng.choice([3, 3, 4, 5, 6, 9])
    w = rng.choice([1, 2, 4])
    return [(step(base, rng.randint(-w, w)), step(ybase, rng.randint(-w, w)) if ybase else 0.0, "B" if j == 0 else None) for j in range(n)]


def ill_conditioned_arc_predicate(line, threshold=0.05):
    """F13: some three-point perfect-curve segment whose circumcircle is ill-conditioned in f32:
    2^-23 * scale^2 * extent / |cross| > threshold (an estimate, in pixels, of the f32 error of the centre; the threshold is half
    the arc tolerance 0.1; scale = largest |coordinate|, extent = longest side from the first point,
    cross = (b-a) x (c-a) evaluated in f64 on the f32 coordinates; exactly collinear points count as infinitely ill-conditioned
    when the code's own f32 collinearity test does not reject them)."""
    import math
    _, _, _, pts, _ = request_parts(line)
    for kind, vs in segments_of(pts):
        if kind != "P" or len(vs) != 3:
            continue
        a, b, c = vs
        cr = abs((b[0] - a[0]) * (c[1] - a[1]) - (b[1] - a[1]) * (c[0] - a[0]))
        scale = max(1.0, max(abs(v) for p in vs for v in p))
        ext = max(math.hypot(b[0] - a[0], b[1] - a[1]), math.hypot(c[0] - a[0], c[1] - a[1]))
        cond = float("inf") if cr == 0 else 2.0 ** -23 * scale * scale * ext / cr
        if cond > threshold:
            return True
    return False
