"""Seeded generators for the curve requests (C16-C19): control-point lists, requested lengths, progress values,
operation sequences. Every random choice comes from the `rng` handed in."""
import itertools
import math
import struct

MODES = [0, 1, 2, 3]
TYPES = ["C", "B", "L", "P"]
BOUND = 131072.0


def f32(x):
    return struct.unpack("<f", struct.pack("<f", x))[0]


def bits32(x):
    return "%x" % struct.unpack("<I", struct.pack("<f", x))[0]


def bits64(x):
    return "%x" % struct.unpack("<Q", struct.pack("<d", x))[0]


def from_bits64(h):
    return struct.unpack("<d", struct.pack("<Q", int(h, 16)))[0]


def from_bits32(h):
    return struct.unpack("<f", struct.pack("<I", int(h, 16)))[0]


def next_up(x, n=1):
    b = struct.unpack("<q", struct.pack("<d", x))[0]
    b += n if x >= 0 else -n
    return struct.unpack("<d", struct.pack("<q", b))[0]


def pt(x, y, t=None):
    return f"{bits32(x)}:{bits32(y)}:{t or '-'}"


def len_tok(L):
    return "-" if L is None else bits64(L)


def natural_len(points):
    """polyline length of the control polygon (a cheap stand-in for the curve's natural length when choosing L)."""
    s = 0.0
    for (x0, y0, _), (x1, y1, _) in zip(points, points[1:]):
        s += math.hypot(x1 - x0, y1 - y0)
    return s


def curve_line(cmd, mode, L, points, progress=None):
    s = f"{cmd} {mode} {len_tok(L)} " + " ".join(pt(x, y, t) for x, y, t in points)
    if progress is not None:
        s += " @ " + " ".join(bits64(q) for q in progress)
    return s


def coord(rng):
    k = rng.random()
    if k < 0.45:
        return float(rng.randint(-64, 576))
    if k < 0.75:
        return f32(rng.uniform(-512.0, 1024.0))
    if k < 0.85:
        return float(rng.randint(-3, 3))
    if k < 0.93:
        return f32(rng.uniform(-4096.0, 4096.0))
    if k < 0.97:
        return f32(rng.uniform(-BOUND, BOUND))
    return rng.choice([0.0, -0.0, 0.5, 1e-3, 131072.0, -131072.0, 1e-20, 256.25])


def layout(rng, n):
    """a path-type layout: first point typed (mostly), later typed points open new segments."""
    ts = [None] * n
    ts[0] = rng.choice(TYPES + ["B3"]) if rng.random() < 0.93 else None
    p_typed = rng.choice([0.0, 0.0, 0.15, 0.4, 1.0])
    for i in range(1, n):
        if rng.random() < p_typed:
            ts[i] = rng.choice(TYPES)
    return ts


def shape(rng, n):
    """n positions: generic, with duplicates, collinear, degenerate."""
    k = rng.random()
    pts = [(coord(rng), coord(rng)) for _ in range(n)]
    if k < 0.15 and n >= 2:      # consecutive duplicates
        for _ in range(rng.randint(1, 2)):
            i = rng.randrange(n - 1)
            pts[i + 1] = pts[i]
    elif k < 0.25 and n >= 2:    # collinear
        x0, y0 = pts[0]
        dx, dy = rng.choice([(1.0, 0.0), (0.0, 1.0), (1.0, 1.0), (3.0, -2.0), (0.5, 0.25)])
        for i in range(n):
            t = float(rng.randint(-40, 120))
            pts[i] = (f32(x0 + dx * t), f32(y0 + dy * t))
    elif k < 0.30:               # all equal
        pts = [pts[0]] * n
    elif k < 0.36 and n >= 2:    # last two equal
        pts[-1] = pts[-2]
    elif k < 0.42 and n >= 2:    # first two equal
        pts[1] = pts[0]
    elif k < 0.47 and n >= 3:    # near-collinear
        (x0, y0), (x1, y1) = pts[0], pts[1]
        for i in range(2, n):
            t = rng.uniform(-1.0, 3.0)
            pts[i] = (f32(x0 + (x1 - x0) * t), f32(y0 + (y1 - y0) * t + rng.choice([0.0, 1e-4, -1e-3, 0.01])))
    return pts


def rand_points(rng, nmax=12):
    n = rng.choice([1, 2, 2, 3, 3, 3, 4, 4, 5, 6, 7, 8, 10, nmax])
    ps = shape(rng, n)
    ts = layout(rng, n)
    return [(x, y, t) for (x, y), t in zip(ps, ts)]


def len_classes(rng, points):
    """requested lengths around the natural length of the control polygon"""
    nat = natural_len(points)
    out = [("none", None), ("tiny", 1e-3), ("zero", 0.0), ("neg", -5.0), ("nan", float("nan")),
           ("inf", float("inf")), ("huge", 1e6)]
    if nat > 0:
        out += [("inside", nat * rng.uniform(0.05, 0.95)), ("beyond", nat * rng.uniform(1.01, 2.5)),
                ("polygon-exact", nat), ("polygon+ulp", next_up(nat)), ("polygon-ulp", next_up(nat, -1))]
    else:
        out += [("beyond", rng.uniform(0.5, 300.0))]
    return out


def grid_points(k):
    """exhaustive integer grid [-3,3]^2 paths of k points, first point fixed at the origin up to translation symmetry
    is NOT assumed: the first point ranges over a reduced set, the others over the whole grid."""
    rng_ = range(-3, 4)
    firsts = [(0, 0), (1, -2)]
    others = list(itertools.product(rng_, rng_))
    for f in firsts:
        for rest in itertools.product(others, repeat=k - 1):
            yield [f] + list(rest)


def progress_values(rng, lengths=None):
    qs = [0.0, 1.0, 0.5, -0.0, -1.0, 2.0, float("nan"), float("inf"), float("-inf"), 5e-324, 1e-310, 1.0 - 2 ** -53,
          1.0 + 2 ** -52, 0.25, 0.75, 1e-9]
    qs += [rng.random() for _ in range(6)]
    qs += [rng.uniform(-0.5, 1.5) for _ in range(2)]
    if lengths and lengths[-1] and lengths[-1] == lengths[-1] and abs(lengths[-1]) != float("inf"):
        d = lengths[-1]
        for l in rng.sample(lengths, min(len(lengths), 6)):
            if l == l:
                qs.append(l / d)
    return qs
