#!/usr/bin/env python3
"""print the markdown table of seeded changes (DESIGN.md section 10) from seeded/*/meta.json + notes.md"""
import glob, json, os, re
ROOT = os.path.dirname(os.path.dirname(os.path.abspath(__file__)))
print("| seeded change | what it changes (from the author's notes) | caught by | first-run miss? |")
print("|---|---|---|---|")
for d in sorted(glob.glob(os.path.join(ROOT, "seeded", "*"))):
    m = json.load(open(os.path.join(d, "meta.json")))
    notes = open(os.path.join(d, "notes.md")).read() if os.path.exists(os.path.join(d, "notes.md")) else ""
    patch = open(os.path.join(d, "patch.diff")).read()
    files = sorted(set(re.findall(r"^\+\+\+ b/(\S+)", patch, flags=re.M)))
    first = next((l.strip("# ").strip() for l in notes.splitlines() if l.strip() and not l.startswith("```")), "")
    caught = ", ".join(f"{c} ({'input' if 'input' in (r['violation'] or [''])[0] else 'unproved'})" for c, r in m.get("checks", {}).items() if r["exit"] == 1) or "**none**"
    print(f"| {os.path.basename(d)} | {', '.join(files)} — {first[:140]} | {caught} | {'yes: ' + m['history'][:120] if m.get('history') else ''} |")
