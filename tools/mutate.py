#!/usr/bin/env python3
"""tools/mutate.py [--n N] [--jobs J] [--seed S] [--files glob…] — systematic small mutants of /repo/src against the checks.

A development aid, not a registered check: for a random sample of one-token mutation sites (comparison / arithmetic /
boolean operators, small integer literals, `min`/`max`, negations, deleted `clear()` / `push` statements) it applies the
mutant to a scratch worktree of /repo (never to /repo), requires that it compiles, records whether the crate's own test
suite notices it, and runs the quick checks of the properties the file belongs to (through VERIF_REPO). Survivors —
mutants that compile, pass the 68 baseline tests and raise no alarm — are the places where the generators / oracles are
blind or the mutant is equivalent; they are listed in .build/mutants/survivors.txt for triage by hand."""
import argparse
import concurrent.futures as cf
import glob
import hashlib
import json
import os
import random
import re
import shutil
import subprocess
import sys

VERIF = os.path.dirname(os.path.dirname(os.path.abspath(__file__)))
OUT = os.path.join(VERIF, ".build", "mutants")
ENV = dict(os.environ, CARGO_NET_OFFLINE="true")

CHECKS = [
    ("src/reader/", "C05 C08 C10 C09 C01"),
    ("src/decode.rs", "C05 C08 C09 C07 C01"),
    ("src/encode.rs", "C02 C04 C03 C09 C01"),
    ("src/beatmap.rs", "C07 C02 C01"),
    ("src/format_version.rs", "C05 C07"),
    ("src/section/general/", "C12 C11 C07 C02"),
    ("src/section/timing_points/decode.rs", "C12 C13 C06 C15 C02"),
    ("src/section/timing_points/", "C12 C13 C15 C02"),
    ("src/section/hit_objects/decode.rs", "C14 C06 C15 C02 C01"),
    ("src/section/hit_objects/hit_samples.rs", "C14 C15 C02"),
    ("src/section/hit_objects/slider/curve.rs", "C16 C17 C18 C19 C01"),
    ("src/section/hit_objects/slider/event.rs", "C20 C02"),
    ("src/section/hit_objects/slider/", "C18 C15 C14 C02"),
    ("src/section/hit_objects/", "C15 C14 C02 C01"),
    ("src/section/mod.rs", "C05 C07"),
    ("src/section/", "C11 C07 C06 C03 C02"),
    ("src/util/", "C11 C14 C16 C12 C05"),
]

OPS = [(" <= ", " < "), (" < ", " <= "), (" >= ", " > "), (" > ", " >= "), (" == ", " != "), (" != ", " == "),
       (" && ", " || "), (" || ", " && "), (" + ", " - "), (" - ", " + "), (" * ", " / "), (" / ", " * "),
       (" += ", " -= "), (" -= ", " += "), (".min(", ".max("), (".max(", ".min("), ("true", "false"), ("false", "true"),
       ("if !", "if "), (" - 1", " - 2"), (" + 1", " + 2"), ("saturating_sub", "wrapping_sub"), (" | ", " & "), (" & ", " | "),
       (" >> ", " << "), (".is_some()", ".is_none()"), (".is_none()", ".is_some()"), (".first()", ".last()"), (".last()", ".first()"),
       ("Ordering::Less", "Ordering::Greater"), ("Ordering::Greater", "Ordering::Less"), (".rev()", ""), ("..=", ".."), (" as f32", " as f64 as f32")]


def sites(path, rel):
    src = open(path).read().split("\n")
    out = []
    in_test = False
    depth_at_test = None
    for i, line in enumerate(src):
        s = line.strip()
        if s.startswith("#[cfg(test)]"):
            in_test = True
        if in_test:
            continue
        if not s or s.startswith("//") or s.startswith("#[") or s.startswith("use ") or s.startswith("///") or s.startswith("*"):
            continue
        code = line.split("//")[0]
        for a, b in OPS:
            for m in re.finditer(re.escape(a), code):
                # keep generics / lifetimes / arrows out of it
                if a.strip() in ("<", ">") and re.search(r"(->|<[A-Za-z_&']|::<|fn )", code):
                    continue
                out.append((rel, i, m.start(), a, b))
        for m in re.finditer(r"(?<![\w.])(\d{1,5})(?![\w.])", code):
            n = int(m.group(1))
            out.append((rel, i, m.start(), m.group(1), str(n + 1)))
        if re.match(r"^\s*[\w.\[\]]+\.(clear|push|push_back|push_front|pop|truncate|sort_by|dedup|extend_from_slice)\(.*\);\s*$", code) or \
                re.match(r"^\s*\*?[\w.\[\]]+ (\|=|=) [^=].*;\s*$", code):
            out.append((rel, i, 0, "<stmt>", "<deleted>"))
    return out


def checks_for(rel):
    for pre, cs in CHECKS:
        if rel.startswith(pre):
            return cs.split()
    return ["C01"]


def sh(cmd, cwd=None, env=None, timeout=900):
    try:
        p = subprocess.run(cmd, cwd=cwd, shell=True, capture_output=True, text=True, env=env or ENV, timeout=timeout)
        return p.returncode, p.stdout + p.stderr
    except subprocess.TimeoutExpired:
        return 124, "timeout"


def worker(args):
    k, muts = args
    wt = f"/tmp/mut-{k}"
    sh(f"git -C /repo worktree remove --force {wt}")
    rc, o = sh(f"git -C /repo worktree add --detach {wt} HEAD")
    if rc != 0:
        return [{"error": o[-300:]}]
    res = []
    env = dict(ENV, VERIF_REPO=wt)
    try:
        sh("cargo build --offline --tests", wt)      # warm the worktree's own target dir
        for rel, line, col, a, b in muts:
            path = os.path.join(wt, rel)
            src = open(path).read().split("\n")
            old = src[line]
            if a == "<stmt>":
                new = old[: len(old) - len(old.lstrip())] + "// mutant: statement deleted"
            else:
                new = old[:col] + b + old[col + len(a):]
            src[line] = new
            open(path, "w").write("\n".join(src))
            rec = {"file": rel, "line": line + 1, "from": a, "to": b, "old": old.strip(), "new": new.strip()}
            rc, o = sh("cargo check --offline --lib", wt, timeout=300)
            if rc != 0:
                rec["status"] = "does-not-compile"
            else:
                rc, o = sh("cargo test --offline --lib --tests", wt, timeout=600)
                rec["baseline_tests"] = "pass" if rc == 0 else "fail"
                if rc != 0:
                    rec["status"] = "killed-by-baseline-tests"
                else:
                    rec["checks"] = {}
                    rec["status"] = "survived"
                    for c in checks_for(rel):
                        rc, o = sh(f"./check {c}", VERIF, env, timeout=900)
                        viol = [l for l in o.splitlines() if l.startswith("VIOLATION")]
                        rec["checks"][c] = rc
                        if rc == 1 and viol:
                            rec["status"] = "caught"
                            rec["caught_by"] = c
                            rec["how"] = "unproved" if "no-failing-input-found" in viol[0] else "input"
                            break
                        if rc not in (0, 1):
                            rec["status"] = "check-error"
                            rec["log"] = o[-500:]
                            break
            src[line] = old
            open(path, "w").write("\n".join(src))
            res.append(rec)
            with open(os.path.join(OUT, f"results-{k}.jsonl"), "a") as f:
                f.write(json.dumps(rec) + "\n")
    finally:
        sh(f"git -C /repo worktree remove --force {wt}")
        shutil.rmtree(os.path.join(VERIF, ".build", "alt-" + hashlib.sha1(wt.encode()).hexdigest()[:10]), ignore_errors=True)
    return res


def main():
    ap = argparse.ArgumentParser()
    ap.add_argument("--n", type=int, default=120)
    ap.add_argument("--jobs", type=int, default=4)
    ap.add_argument("--seed", type=int, default=1)
    ap.add_argument("--files", nargs="*")
    a = ap.parse_args()
    os.makedirs(OUT, exist_ok=True)
    all_sites = []
    for path in sorted(glob.glob("/repo/src/**/*.rs", recursive=True)):
        rel = os.path.relpath(path, "/repo")
        if rel == "src/macros.rs":
            continue
        if a.files and not any(rel.startswith(f) or glob.fnmatch.fnmatch(rel, f) for f in a.files):
            continue
        all_sites += sites(path, rel)
    rng = random.Random(a.seed)
    rng.shuffle(all_sites)
    pick = all_sites[: a.n]
    print(f"{len(all_sites)} mutation sites, running {len(pick)} with {a.jobs} workers", flush=True)
    # one property's evidence file is shared: keep mutants of one file on one worker
    byfile = {}
    for m in pick:
        byfile.setdefault(checks_for(m[0])[0], []).append(m)
    groups = [[] for _ in range(a.jobs)]
    for i, (_, ms) in enumerate(sorted(byfile.items(), key=lambda kv: -len(kv[1]))):
        min(groups, key=len).extend(ms)
    allres = []
    with cf.ThreadPoolExecutor(a.jobs) as ex:
        for res in ex.map(worker, [(k, g) for k, g in enumerate(groups) if g]):
            allres += res
    tally = {}
    for r in allres:
        tally[r.get("status", "error")] = tally.get(r.get("status", "error"), 0) + 1
    print(tally)
    with open(os.path.join(OUT, "survivors.txt"), "a") as f:
        for r in allres:
            if r.get("status") == "survived":
                f.write(f"{r['file']}:{r['line']}  {r['from']!r} -> {r['to']!r}\n    {r['old']}\n    checks: {r['checks']}\n")
    print("survivors appended to", os.path.join(OUT, "survivors.txt"))


if __name__ == "__main__":
    main()
