#!/bin/sh
# tools/sweep.sh <seed>… — development aid: every quick check on the unchanged tree under other VERIF_SEED values,
# looking for alarms that are the machinery's fault (DESIGN 6.2). Meant for `vp run -- sh -c './setup.sh; tools/sweep.sh 31 32'`.
cd "$(dirname "$0")/.."
for s in "$@"; do
  for i in 01 02 03 04 05 06 07 08 09 10 11 12 13 14 15 16 17 18 19 20; do
    out=$(VERIF_SEED=$s ./check C$i 2>&1 | grep -E "^VIOLATION|^INFRA|ok —" | tail -1)
    echo "seed=$s C$i $out"
  done
done
