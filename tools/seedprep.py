#!/usr/bin/env python3
"""tools/seedprep.py <prefix> [ID…] — prepare a seeding round: for every property a scratch worktree of /repo at HEAD
(/tmp/<prefix>-<ID>), the property text (/tmp/<prefix>-<ID>-out/property.txt: title + statement only) and the prompt
for an independent sub-agent (prompt.txt) listing what earlier rounds already tried. Nothing from /verif's machinery
is copied there."""
import glob, json, os, subprocess, sys

VERIF = os.path.dirname(os.path.dirname(os.path.abspath(__file__)))
prefix = sys.argv[1]
props = {json.loads(l)["id"]: json.loads(l) for l in open(os.path.join(VERIF, "properties.jsonl"))}
ids = sys.argv[2:] or sorted(props)
for pid in ids:
    wt, out = f"/tmp/{prefix}-{pid}", f"/tmp/{prefix}-{pid}-out"
    subprocess.run(f"git -C /repo worktree remove --force {wt}", shell=True, capture_output=True)
    subprocess.run(f"git -C /repo worktree add --detach {wt} HEAD", shell=True, check=True, capture_output=True)
    os.makedirs(out, exist_ok=True)
    p = props[pid]
    open(f"{out}/property.txt", "w").write(f"{p['title']}\n\n{p['statement']}\n")
    tried = []
    for d in sorted(glob.glob(os.path.join(VERIF, "seeded", pid + "-*"))):
        files = sorted({l[6:].strip() for l in open(d + "/patch.diff") if l.startswith("+++ b/")})
        first = ""
        if os.path.exists(d + "/notes.md"):
            first = next((l.strip("# \n") for l in open(d + "/notes.md") if l.strip()), "")
        tried.append(f"- {', '.join(files)}: {first}")
    prompt = f"""You are a careful adversarial Rust engineer. A copy of the open-source crate MaxOhn/rosu-map (a library that decodes and encodes osu! `.osu` beatmap text files) is checked out as a scratch git worktree at {wt} . Work ONLY inside {wt} and {out} . Never touch /repo, /verif or any other directory. The machine is offline: use `cargo test --offline` / `cargo build --offline` / `cargo run --offline`.

A semantic property that users of the crate rely on is given in {out}/property.txt (read it first, then read the relevant source under {wt}/src to see what makes it hold).

ALREADY TRIED in earlier rounds (do NOT repeat these or close variants of them; choose different functions, different files where possible, and different mechanisms):
{chr(10).join(tried)}

YOUR TASK: produce TWO different, independent source changes ("mutation A" and "mutation B") to the crate, each of which
 1. BREAKS the property (there is a concrete input / sequence of calls on which the changed crate violates the property statement while the unchanged crate satisfies it),
 2. still compiles and still passes the crate's entire existing test suite unchanged (`cd {wt} && cargo test --offline` — all tests must pass with the change applied; do not edit or delete any test),
 3. is REALISTIC and SUBTLE: the kind of slip a maintainer could make in a refactor, a performance "optimisation", a clippy-driven clean-up, a dependency-free rewrite of a helper, or a port of an upstream change — touching only a few lines — and it must need something SPECIFIC to manifest: an unusual but legal input, a particular ordering or multi-step sequence, a boundary value, a particular combination of fields, a particular game mode or format version, a particular text encoding or delivery pattern — not something that ordinary use or the first obvious input would expose at once. The two mutations must be in different functions and exercise different mechanisms. This is the EIGHTH round. New directions to consider this time: (k) an INVARIANT established at one site and relied on at another (sortedness, non-emptiness, equal buffer lengths, 'already trimmed', 'already clamped', 'already within the parse limit', 'cache is empty or current') - break the establishing site for a rare input only, or add a new caller that skips it; (l) how numbers are WRITTEN (`Display` vs `{{:?}}` vs `{{:.n}}`, exponent notation for tiny or huge values, `-0`, integers written as floats, float-to-int casts before writing) against what the number parser accepts; (m) off-by-one in a format-version or count threshold (`< 5` vs `<= 5`, `>= 128`, `> 9000`, first / last element special cases); (n) two same-typed arguments or fields swapped in one rarely exercised place (x / y, start / end, normal / addition bank, kiai / omit-first-bar-line, path point / offset), (o) a conversion chosen by type inference that silently changed (`as u8`, `as f32`, `i32::from`, `try_from(..).unwrap_or_default()`). Seventh round (earlier rounds' list above; also tried in round six: Debug-quoted file names, read caps on long lines, BOM'd &str input, budgets of rejected lines, FromStr trimming, skipped line breaks, dropped write results, from_path via lossy UTF-8, ASCII-only trims, bracketed colour names, bitwise Pos equality, curve reuse between equal-shaped sliders, mode changes without cache invalidation). Also consider (g) faults visible only through an API path other than decoding bytes (`Beatmap::from(x)` conversions, `Default` impls, `Clone` / `PartialEq` / `Hash` impls, public constructors such as `SamplePoint::new`, `HitSampleInfo::new`, `PathType::new_from_str`, `SliderEventsIter::new` reuse, lookups on hand-built `ControlPoints`), (h) rarely executed but legal branches (format versions below 5 and from 128 up, B-spline degrees, mania hold notes without a colon, catch juice-stream events in the encoder, taiko / mania scroll speeds, `SpecialStyle`, `SamplesMatchPlaybackRate`, countdown variants, storyboard lines, custom sample file names with odd characters), (i) clean-up on ERROR paths (what a rejected line, a failed conversion or an early return leaves behind), (j) numeric corners of the text codec itself (`-0`, `+5`, `1e3`, `.5`, `5.`, `0x10`, `inf`, `NaN`, leading zeros, 40-digit decimals, exponents that overflow) on every kind of number field. Previous round: the obvious single-line slips, encode_to_path truncation, repeated and split sections, foreign keys, short-write sinks, stale scratch state between curves, negative custom sample indices, dropped `Interrupted` retries, buffers sized from file metadata, recursion on long preambles and near-equal (closer than EPSILON) values have all been tried. Also consider (e) faults that only show at SCALE or at the edge of a numeric format (inputs of hundreds of thousands of lines / tokens / control points, quadratic or recursive rewrites, values next to a power of two, subnormals, signed zeros, the largest / smallest accepted number, integer-valued floats beyond 2^24 / 2^53) and (f) faults in the interplay of two features that are each exercised alone (an encoding together with a delivery pattern and a section order; a game mode together with a path type and a format version; a cached value together with an accessor that should invalidate it). Prefer (a) TWO COOPERATING SITES that each look fine alone (a helper changed in a behaviour-preserving-looking way plus a caller that now relies on the old behaviour; a constant shared by encoder and decoder changed on one side; a `Default`/`Clone`/`PartialEq`/`From` impl that disagrees with the field it feeds), (b) HISTORY-dependent faults (state carried between lines, between sections that repeat, between successive calls on the same buffers / iterator / cache, only after a particular earlier operation), (c) faults behind a RARE BUT LEGAL input shape (one game mode, one format-version range, one path type, one sample kind, one text encoding combined with one delivery pattern, a boundary value of a limit or tolerance, signed zero, a subnormal, an empty list, exactly one element, very long input), and (d) public API entry points other than the usual `from_bytes` / `encode_to_string` (`from_path`, `encode_to_path`, `decode` on a custom `BufRead`, the specialised section decoders, `SliderPath` accessors, `BorrowedCurve`, `HitObject` / `HitObjectSlider` methods, control-point lookups, `SliderEventsIter` reuse).
For each mutation also write a small DEMONSTRATION: an integration test file (e.g. tests/seed_demo_a.rs) or a small example program that FAILS with the mutation applied and PASSES on the unmodified crate; it must use only the crate's public API.

Deliverables, written to {out}/ :
  a/patch.diff  — `git diff` of mutation A against the worktree's HEAD (source change only, NOT including the demo file)
  a/demo.rs     — the demonstration for A (say in a comment where it must be placed and how to run it)
  a/notes.md    — first line: a one-line title of the mutation; then which clause of the property it breaks, the concrete failing input, what exactly it needs in order to manifest, and the commands you ran with their results (tests pass with mutation; demo fails with mutation; demo passes without)
  b/…           — the same three files for mutation B
Procedure for each mutation: apply it, run the full test suite (must pass), add the demo, run the demo (must fail), save `git diff -- src > patch.diff`, then `git checkout -- src` and run the demo again on the clean source (must pass). Leave the worktree clean (no source modifications) when you finish; demo files may remain.
Final answer to me: a five-line summary per mutation (file/function changed, failing input, why the existing tests miss it).
"""
    open(f"{out}/prompt.txt", "w").write(prompt)
    print("prepared", pid)
