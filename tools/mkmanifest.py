#!/usr/bin/env python3
"""Regenerate MANIFEST.json's `checks` / `not_applicable` from lib/props/*.py."""
import importlib
import json
import os
import sys

ROOT = os.path.dirname(os.path.dirname(os.path.abspath(__file__)))
sys.path.insert(0, ROOT)
m = json.load(open(os.path.join(ROOT, "MANIFEST.json")))
props = [json.loads(l) for l in open(os.path.join(ROOT, "properties.jsonl"))]
checks, na = [], []
served = []
for p in props:
    pid = p["id"]
    try:
        mod = importlib.import_module(f"lib.props.{pid.lower()}")
    except ModuleNotFoundError:
        na.append({"property_id": pid, "reason": "check not built yet in this revision (planned in DESIGN.md section 5); not a statement that the technique cannot apply"})
        continue
    P = mod.PROP
    served.append(pid)
    partial = ""
    if P.partial_theorems:
        partial = " PARTIAL: " + "; ".join(f"{k}: {v}" for k, v in P.partial_theorems.items())
    checks.append({
        "property_id": pid,
        "quick_cmd": f"./check {pid} --tier quick",
        "thorough_cmd": f"./check {pid} --tier thorough",
        "evidence_file": f"/verif/evidence/{pid}.json",
        "replay_cmd_template": f"./check {pid} --replay {{path}}",
        "engine": "lean-model+harness",
        "level_claimed": {
            "category": "proof",
            "text": P.level_text + partial,
            "design_ref": "DESIGN.md section " + P.design_ref,
        },
        "level_note": "Trusted: " + "; ".join(P.trusted_base) + ". Assumed: " + "; ".join(P.assumptions),
        "technique": P.technique,
    })
m["checks"] = checks
m["not_applicable"] = na
for e in m["engines"]:
    e["serves_properties"] = served
json.dump(m, open(os.path.join(ROOT, "MANIFEST.json"), "w"), indent=1)
print("claimed:", served)
