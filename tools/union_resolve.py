#!/usr/bin/env python3
"""resolve git conflict markers by keeping both sides (for the files that only chain modules)"""
import re, sys
for p in sys.argv[1:]:
    s = open(p).read()
    s = re.sub(r"<<<<<<< [^\n]*\n(.*?)=======\n(.*?)>>>>>>> [^\n]*\n", lambda m: m.group(1) + m.group(2), s, flags=re.S)
    open(p, "w").write(s)
