#!/usr/bin/env python3
"""tools/seedrerun.py [seed-id …]   (default: every directory under seeded/)
Regression over the filed seeded changes: for each one, apply seeded/<id>/patch.diff to a scratch worktree of
/repo (never to /repo itself), run the checks listed in its meta.json `caught_by` against it through VERIF_REPO,
and report whether each still exits 1 with a VIOLATION line. Nothing under seeded/ is rewritten unless --update is given
(then the `checks` / `caught_by` entries of meta.json are replaced by what this run saw); --own adds the property's own check.
Exit status 0 iff every seeded change is still caught by every check that caught it when it was filed."""
import concurrent.futures as cf
import hashlib
import json
import os
import shutil
import subprocess
import sys

VERIF = os.path.dirname(os.path.dirname(os.path.abspath(__file__)))
OWN = "--own" in sys.argv        # also run the property's own check, whether or not it caught the change when filed
UPDATE = "--update" in sys.argv  # rewrite the `checks` / `caught_by` entries of meta.json with what this run saw
ids = [a for a in sys.argv[1:] if not a.startswith("--")] or sorted(os.listdir(os.path.join(VERIF, "seeded")))
JOBS = int(os.environ.get("SEED_JOBS", "4"))


def sh(cmd, cwd=None, env=None):
    p = subprocess.run(cmd, cwd=cwd, shell=True, capture_output=True, text=True, env=env)
    return p.returncode, p.stdout + p.stderr


def one(sid):
    d = os.path.join(VERIF, "seeded", sid)
    meta = json.load(open(os.path.join(d, "meta.json")))
    checks = meta.get("caught_by") or [meta["property"]]
    if OWN and meta["property"] not in checks:
        checks = [meta["property"]] + checks
    target = f"/tmp/seedrun-{sid}"
    sh(f"git -C /repo worktree remove --force {target}")
    rc, o = sh(f"git -C /repo worktree add --detach {target} HEAD")
    if rc != 0:
        return sid, {"error": o[-300:]}
    res = {}
    try:
        rc, o = sh(f"git -C {target} apply {d}/patch.diff")
        if rc != 0:
            return sid, {"error": "patch does not apply: " + o[-300:]}
        env = dict(os.environ, VERIF_REPO=target, CARGO_NET_OFFLINE="true")
        for c in checks:
            rc, o = sh(f"./check {c}", VERIF, env)
            viol = [l for l in o.splitlines() if l.startswith("VIOLATION")]
            res[c] = (rc, viol[0] if viol else "")
            if UPDATE:
                ent = {"exit": rc, "violation": viol[:1]}
                replay = viol[0].split("replay=")[1].split()[0] if viol else None
                if replay and os.path.exists(replay):
                    ent["replay_excerpt"] = open(replay).read()[:1500]
                meta.setdefault("checks", {})[c] = ent
        if UPDATE:
            meta["caught_by"] = [c for c, r in meta["checks"].items() if r["exit"] == 1]
            json.dump(meta, open(os.path.join(d, "meta.json"), "w"), indent=1)
    finally:
        sh(f"git -C /repo worktree remove --force {target}")
        shutil.rmtree(os.path.join(VERIF, ".build", "alt-" + hashlib.sha1(target.encode()).hexdigest()[:10]), ignore_errors=True)
    return sid, res


def group(sids):
    return [one(s) for s in sids]


# seeds of one property run one after the other (they share that property's evidence file); properties run in parallel
groups = {}
for s in ids:
    groups.setdefault(s.split("-")[0], []).append(s)
bad = 0
with cf.ThreadPoolExecutor(JOBS) as ex:
    for sid, res in (r for g in ex.map(group, groups.values()) for r in g):
        ok = "error" not in res and all(rc == 1 and v for rc, v in res.values())
        bad += not ok
        print(("caught " if ok else "MISSED ") + sid, {c: (r[0], "input" if "no-failing-input-found" not in r[1] else "unproved") if isinstance(r, tuple) else r for c, r in res.items()}, flush=True)
print(f"{len(ids) - bad}/{len(ids)} seeded changes still caught")
sys.exit(1 if bad else 0)
