#!/usr/bin/env python3
"""tools/coverage.py [tier] [ID…] — which lines of /repo/src do the checks' generated cases execute?

Not a registered check and not evidence for any property: a development aid that shows where the generators are blind
(a change to a line no case executes cannot be seen by the correspondence or by an oracle). Builds the harness with
`-C instrument-coverage` (nightly toolchain, offline) into .build/cov-target, replays the `impl` and `prop` requests of the
given properties' generators (default: all twenty, quick tier, VERIF_SEED) and prints, per source file of /repo/src, the
line coverage and the uncovered line ranges (written in full to .build/coverage/report.txt)."""
import glob
import importlib
import os
import random
import re
import subprocess
import sys

ROOT = os.path.dirname(os.path.dirname(os.path.abspath(__file__)))
sys.path.insert(0, ROOT)
from lib import core  # noqa: E402

tier = sys.argv[1] if len(sys.argv) > 1 else "quick"
ids = sys.argv[2:] or [f"C{i:02d}" for i in range(1, 21)]
seed = int(os.environ.get("VERIF_SEED", "1"))
OUT = os.path.join(core.BUILD, "coverage")
TARGET = os.path.join(core.BUILD, "cov-target")
os.makedirs(OUT, exist_ok=True)
for f in glob.glob(os.path.join(OUT, "*.profraw")):
    os.remove(f)
env = dict(core.ENV, RUSTFLAGS="-C instrument-coverage --cfg rosu_map_verif", CARGO_TARGET_DIR=TARGET)
subprocess.run(["cargo", "+nightly", "build", "--release", "--offline", "--target-dir", TARGET], cwd=core.HARNESS_SRC, env=env, check=True,
               capture_output=True)
binary = os.path.join(TARGET, "release", "rosu-verif-harness")
tools = glob.glob(os.path.expanduser("~/.rustup/toolchains/nightly-x86_64-unknown-linux-gnu/lib/rustlib/*/bin"))[0]
n = 0
for pid in ids:
    prop = importlib.import_module(f"lib.props.{pid.lower()}").PROP
    cases = prop.corpus() + prop.gen(random.Random(seed), tier)
    for mode, sel in (("impl", [c.line for c in cases if c.corr]), ("prop", [c.line for c in cases if c.prop])):
        # shards: a crash of one request must not lose the whole profile
        for k in range(0, len(sel), 20000):
            n += 1
            e = dict(core.ENV, LLVM_PROFILE_FILE=os.path.join(OUT, f"{pid}-{mode}-{k}-%p.profraw"))
            subprocess.run([binary, mode], input="\n".join(sel[k:k + 20000]) + "\n", text=True, capture_output=True, env=e)
    print(pid, len(cases), "cases", flush=True)
prof = os.path.join(OUT, "all.profdata")
subprocess.run([os.path.join(tools, "llvm-profdata"), "merge", "-sparse", "-o", prof] + glob.glob(os.path.join(OUT, "*.profraw")), check=True)
srcs = sorted(glob.glob(os.path.join(core.REPO, "src", "**", "*.rs"), recursive=True))
show = subprocess.run([os.path.join(tools, "llvm-cov"), "show", binary, f"-instr-profile={prof}", "--show-line-counts-or-regions=false",
                       "--show-instantiations=false"] + srcs, capture_output=True, text=True).stdout
report = []
cur, lines = None, {}
for l in show.splitlines():
    m = re.match(r"^(/\S+\.rs):$", l)
    if m:
        cur = m.group(1)
        lines[cur] = []
        continue
    m = re.match(r"^\s*(\d+)\|\s*([0-9.kMG]*)\|(.*)$", l)
    if m and cur:
        cnt = m.group(2)
        lines[cur].append((int(m.group(1)), None if cnt == "" else cnt, m.group(3)))
tot_c = tot_u = 0
for f in sorted(lines):
    ex = [(n_, c, t) for n_, c, t in lines[f] if c is not None]
    unc = [(n_, t) for n_, c, t in ex if c == "0"]
    # skip test modules
    tot_c += len(ex) - len(unc)
    tot_u += len(unc)
    rel = os.path.relpath(f, core.REPO)
    report.append(f"{rel}: {len(ex) - len(unc)}/{len(ex)} executable lines covered")
    for n_, t in unc:
        report.append(f"    {n_:5d}| {t}")
open(os.path.join(OUT, "report.txt"), "w").write("\n".join(report) + "\n")
print(f"covered {tot_c} of {tot_c + tot_u} executable lines of /repo/src; details in {os.path.join(OUT, 'report.txt')}")
for r in report:
    if not r.startswith("    "):
        print(r)
