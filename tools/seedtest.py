#!/usr/bin/env python3
"""tools/seedtest.py <ID> <variant> [check ids…]
Confirm a seeded breaking change (produced by an independent sub-agent in /tmp/seed-<ID>-out/<variant>/) in its
scratch worktree, then apply it to /repo, run the given checks (default: <ID>), undo it, and file it under seeded/."""
import json, os, shutil, subprocess, sys, time

ID, var = sys.argv[1], sys.argv[2]
checks = sys.argv[3:] or [ID]
PREFIX = os.environ.get("SEED_PREFIX", "seed")
NAME = {"seed": {"a": "a", "b": "b"}, "seed2": {"a": "c", "b": "d"}, "seed3": {"a": "e", "b": "f"}, "seed4": {"a": "g", "b": "h"}, "seed5": {"a": "i", "b": "j"}, "seed6": {"a": "k", "b": "l"}, "seed7": {"a": "m", "b": "n"}, "seed8": {"a": "o", "b": "p"}, "seed9": {"a": "q", "b": "r"}, "seed10": {"a": "s", "b": "t"}, "seed11": {"a": "u", "b": "v"}}[PREFIX][var]
wt = f"/tmp/{PREFIX}-{ID}"
out = f"/tmp/{PREFIX}-{ID}-out/{var}"
patch = f"{out}/patch.diff"
demo_src = f"{out}/demo.rs"
demo_name = f"seed_demo_{var}"
ENV = dict(os.environ, CARGO_NET_OFFLINE="true")


def sh(cmd, cwd=None):
    p = subprocess.run(cmd, cwd=cwd, shell=True, capture_output=True, text=True, env=ENV)
    return p.returncode, p.stdout + p.stderr


meta = {"property": ID, "variant": NAME, "round": PREFIX, "ran": []}
sh("git checkout -- src", wt)
sh("git clean -fdq", wt)   # demo files the author left behind must not run as part of "the existing suite"
shutil.copy(demo_src, f"{wt}/tests/{demo_name}.rs")
rc, o = sh(f"cargo test --offline --test {demo_name}", wt)
meta["demo_on_clean"] = "pass" if rc == 0 else "FAIL"
meta["ran"].append(f"clean: cargo test --offline --test {demo_name} -> rc {rc}")
rc, o = sh(f"git apply {patch}", wt)
assert rc == 0, o
os.rename(f"{wt}/tests/{demo_name}.rs", f"/tmp/{demo_name}_{ID}.rs")
rc, o = sh("cargo test --offline", wt)
meta["suite_with_change"] = "pass" if rc == 0 else "FAIL"
meta["ran"].append(f"changed: cargo test --offline (suite) -> rc {rc}")
os.rename(f"/tmp/{demo_name}_{ID}.rs", f"{wt}/tests/{demo_name}.rs")
rc, o = sh(f"cargo test --offline --test {demo_name}", wt)
meta["demo_with_change"] = "fail" if rc != 0 else "PASSES(!)"
meta["ran"].append(f"changed: cargo test --offline --test {demo_name} -> rc {rc}")
sh("git checkout -- src", wt)
confirmed = meta["demo_on_clean"] == "pass" and meta["suite_with_change"] == "pass" and meta["demo_with_change"] == "fail"
meta["confirmed"] = confirmed
print("confirmed:", confirmed, {k: meta[k] for k in ("demo_on_clean", "suite_with_change", "demo_with_change")})
ALT = os.environ.get("SEED_ALT")   # run against a scratch worktree of /repo instead of /repo itself
if confirmed:
    if ALT:
        target = f"/tmp/seedrun-{ID}-{var}"
        sh(f"git -C /repo worktree remove --force {target}")
        rc, o = sh(f"git -C /repo worktree add --detach {target} HEAD")
        assert rc == 0, o
        ENV["VERIF_REPO"] = target
    else:
        target = "/repo"
    rc, o = sh(f"git -C {target} status --porcelain")
    assert o.strip() == "", "repo not clean: " + o
    rc, o = sh(f"git -C {target} apply {patch}")
    assert rc == 0, o
    meta["checks"] = {}
    meta["applied_to"] = "scratch worktree of /repo (VERIF_REPO)" if ALT else "/repo"
    try:
        for c in checks:
            t = time.time()
            rc, o = sh(f"./check {c}", "/verif")
            viol = [l for l in o.splitlines() if l.startswith("VIOLATION")]
            meta["checks"][c] = {"exit": rc, "violation": viol[:1], "wall_s": round(time.time() - t, 1)}
            replay = viol[0].split("replay=")[1].split()[0] if viol else None
            if replay and os.path.exists(replay):
                meta["checks"][c]["replay_excerpt"] = open(replay).read()[:1500]
            print(c, "exit", rc, viol[:1])
    finally:
        if ALT:
            sh(f"git -C /repo worktree remove --force {target}")
            import hashlib
            shutil.rmtree("/verif/.build/alt-" + hashlib.sha1(target.encode()).hexdigest()[:10], ignore_errors=True)
        else:
            sh("git -C /repo checkout -- .")
    d = f"/verif/seeded/{ID}-{NAME}"
    os.makedirs(d, exist_ok=True)
    shutil.copy(patch, d + "/patch.diff")
    shutil.copy(demo_src, d + "/demo.rs")
    if os.path.exists(f"{out}/notes.md"):
        shutil.copy(f"{out}/notes.md", d + "/notes.md")
    meta["needs_to_manifest"] = "see notes.md"
    meta["caught_by"] = [c for c, r in meta["checks"].items() if r["exit"] == 1]
    json.dump(meta, open(d + "/meta.json", "w"), indent=1)
