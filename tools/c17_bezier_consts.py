#!/usr/bin/env python3
"""C17: coefficients of w_i - B(i/n) in the second differences, for flatPiece of n+1 control points.
Exact (fractions). Usage: c17_bezier_consts.py [nmax]"""
from fractions import Fraction as Fr
from math import comb
import sys

def subdivide(n):
    """rows = coefficient vectors (over the n+1 control points) of the merged (2n+1)-point polygon at t=1/2."""
    pts = [[Fr(int(i == k)) for k in range(n + 1)] for i in range(n + 1)]
    left, right = [], []
    cur = pts
    while True:
        left.append(cur[0]); right.append(cur[-1])
        if len(cur) == 1: break
        cur = [[(x + y) / 2 for x, y in zip(cur[i], cur[i + 1])] for i in range(len(cur) - 1)]
    return left + right[::-1][1:]

def pushed(n):
    m = subdivide(n)
    out = [m[0]]
    for i in range(1, n):
        out.append([(x + 2 * y + z) / 4 for x, y, z in zip(m[2 * i - 1], m[2 * i], m[2 * i + 1])])
    return out

def bern(n, s):
    return [comb(n, k) * (1 - s) ** (n - k) * s ** k for k in range(n + 1)]

def alphas(n):
    res = []
    w = pushed(n)
    for i in range(1, n):
        s = Fr(i, n)
        c = [x - y for x, y in zip(w[i], bern(n, s))]
        assert sum(c) == 0 and sum(k * ck for k, ck in enumerate(c)) == 0, (n, i)
        al = [c[0]]
        if n > 2: al.append(c[1] + 2 * al[0])
        for j in range(2, n - 1):
            al.append(c[j] + 2 * al[j - 1] - al[j - 2])
        # check
        chk = [Fr(0)] * (n + 1)
        for j, a in enumerate(al):
            chk[j] += a; chk[j + 1] -= 2 * a; chk[j + 2] += a
        assert chk == c
        res.append(al)
    return res

if __name__ == '__main__':
    nmax = int(sys.argv[1]) if len(sys.argv) > 1 else 8
    for n in range(3, nmax + 1):
        A = alphas(n)
        sums = [sum(abs(a) for a in al) for al in A]
        mx = max(sums)
        signs = all(a <= 0 for al in A for a in al)
        print(n, 'points', n + 1, 'max sum|alpha| =', mx, '~ %.6f' % float(mx), 'K=2*max =', 2 * mx,
              'allneg' if signs else 'mixed', 'argmax i =', sums.index(mx) + 1, '<=1/2' if mx <= Fr(1, 2) else 'EXCEEDS 1/2')
