#!/usr/bin/env python3
"""tools/bezsoak.py <seed> <n> — development aid (not a check, not evidence): looks for a Bezier segment WITHIN the decoder's
coordinate range (|x| <= 262144) on which the flattening loop of the real crate does not return (finding F23 lives beyond
2^22; C01's open obligation is that nothing of the kind exists in range). High degrees, coordinates next to the range's
edge, clusters a few ulps wide, long straight runs and zig-zags. Prints every request that exceeds its 5 s limit."""
import os, random, struct, subprocess, sys
sys.path.insert(0, os.path.dirname(os.path.dirname(os.path.abspath(__file__))))
from lib import curvegen as g

H = "/verif/.build/harness-target/release/rosu-verif-harness"
rng = random.Random(int(sys.argv[1]))
N = int(sys.argv[2])


def step(x, n):
    if x == 0.0:
        return 0.0
    b = struct.unpack("<i", struct.pack("<f", x))[0] + n
    return struct.unpack("<f", struct.pack("<i", b))[0]


def clampf(v):
    return max(-262144.0, min(262144.0, v))


batch, bad, done = [], 0, 0
for i in range(N):
    n = rng.choice([3, 4, 5, 8, 16, 33, 64, 101, 200, 400, 1000])
    cx = rng.choice([262143.0, 262144.0, 262016.0, 200000.5, 131072.0, -262144.0, -262143.0, 196608.0, 147456.25])
    cy = rng.choice([262143.0, 262144.0, 0.0, -262144.0, 131071.0, 0.015625])
    kind = rng.random()
    pts = []
    for j in range(n):
        if kind < 0.35:       # cluster a few ulps wide
            w = rng.choice([1, 2, 4, 16, 64])
            x, y = step(cx, rng.randint(-w, w)), step(cy, rng.randint(-w, w))
        elif kind < 0.6:      # integers around the edge
            k = rng.choice([1, 2, 5, 20, 100, 1000])
            x, y = cx + rng.randint(-k, k), cy + rng.randint(-k, k)
        elif kind < 0.8:      # zig-zag between two far points
            x, y = (cx, cy) if j % 2 == 0 else (-cx + rng.randint(-2, 2), -cy + rng.randint(-2, 2))
        else:                 # anything in range
            x, y = rng.uniform(-262144, 262144), rng.uniform(-262144, 262144)
        pts.append((g.f32(clampf(x)), g.f32(clampf(y)), "B" if j == 0 else None))
    batch.append("limit=5 " + g.curve_line("curve", rng.choice([0, 1]), None, pts))
    if len(batch) == 50 or i == N - 1:
        rest = batch
        while rest:
            p = subprocess.run([H, "impl"], input="\n".join(rest) + "\n", capture_output=True, text=True)
            out = p.stdout.split("\n")
            if out and out[-1] == "":
                out.pop()
            done += len(out)
            if len(out) >= len(rest):
                break
            k = len(out)
            if out and out[-1].startswith("TIMEOUT"):
                bad += 1
                print("NO RETURN WITHIN 5 s:", rest[k - 1], flush=True)
                rest = rest[k:]
            else:
                print("CRASH:", rest[k], flush=True)
                rest = rest[k + 1:]
        batch = []
        if (i + 1) % 1000 == 0:
            print(f"{i + 1} requests, {bad} without return", flush=True)
print(f"done: {N} requests, {bad} without return")
