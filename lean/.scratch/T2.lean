import RosuModel.Props.C02CapstoneToy
set_option maxRecDepth 100000
namespace Rosu.C02
open Rosu Encode EncodeLines C11 RtTiming Scalar FileRt SliderRt DecodedObj RtObjects

instance {α : Type} (key : α → Int) (l : List α) : Decidable (C13.SortedBy key l) := by unfold C13.SortedBy; infer_instance

open C13 in
theorem cap_timeline' : TimelineHyps capMap.general.mode capMap.controlPoints := by
  rw [cap_mode]
  have key : (SortedBy TimingPoint.key capMap.controlPoints.timingPoints ∧
      SortedBy DifficultyPoint.key capMap.controlPoints.difficultyPoints ∧
      SortedBy EffectPoint.key capMap.controlPoints.effectPoints ∧
      SortedBy SamplePoint.key capMap.controlPoints.samplePoints) ∧
      (∀ t ∈ capMap.controlPoints.timingPoints, 1 ≤ t.timeSignature.numerator) ∧
      (∀ t ∈ capMap.controlPoints.timingPoints,
        clamp t.beatLen (6 : ZC) (60000 : ZC) = t.beatLen ∧ lt t.beatLen (0 : ZC) = false) ∧
      ((1 : ZC) :: svSource .taiko capMap.controlPoints).all
          (fun v => decide (SvInverse v) && decide (clamp v (0.01 : ZC) (10 : ZC) = v)) = true := by decide +kernel
  obtain ⟨⟨s1, s2, s3, s4⟩, hsig, hbeat, hsv⟩ := key
  refine ⟨⟨s1, s2, s3, s4⟩, hsig, hbeat, fun v hv => ?_⟩
  have := List.all_eq_true.mp hsv v hv
  simp only [Bool.and_eq_true, decide_eq_true_eq] at this
  exact this

theorem cap_noDoubleSlash' : DecodedInv.NoDoubleSlash capMap := by
  have key : DecodedInv.hasDS capMap.general.audioFile = false ∧ DecodedInv.hasDS capMap.events.backgroundFile = false := by
    decide +kernel
  exact ⟨key.1, key.2⟩

/-- the re-decoded state finishes: the `∀ m2` of the capstone is not vacuous on the toy file. -/
theorem cap_redecode_finishes :
    (match encode capMap with
     | .ok t => (frame (beatmapDecoder : LineDecoder (BeatmapState ZC ZC)) ((textLines t).map trimEnd)).finish.toOption.isSome
     | .error _ => false) = true := by decide +kernel
end Rosu.C02
