import RosuModel.Props.C02CapstoneToy
set_option maxRecDepth 100000
namespace Rosu.C02
open Rosu Encode EncodeLines C11 RtTiming Scalar FileRt SliderRt DecodedObj RtObjects

theorem cap_pathStable' : PathStable capMap := by
  have key : capMap.hitObjects.all (pathStableB .taiko) = true := by decide +kernel
  intro h hh s hk
  have := List.all_eq_true.mp key h hh
  unfold pathStableB at this
  rw [hk] at this
  simp only [Bool.and_eq_true, decide_eq_true_eq] at this
  rw [cap_mode]
  constructor
  · exact this.1
  · intro d hd
    have h2 := this.2
    rw [hd] at h2
    exact of_decide_eq_true h2
end Rosu.C02
