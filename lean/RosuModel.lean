import RosuModel.Model.Text
import RosuModel.Model.Num
import RosuModel.Model.Utf
import RosuModel.Model.Reader
import RosuModel.Model.Framing
import RosuModel.Model.DriverCmds
import RosuModel.Props.C05
