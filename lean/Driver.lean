/-
  Driver.lean — line protocol between the correspondence harness and the model.
  One request per input line, one response line per request.
  Imports only Model/* (core Lean), so it links as a native executable.
-/
import RosuModel.Model.Text
import RosuModel.Model.Num
import RosuModel.Model.Utf
import RosuModel.Model.Reader
import RosuModel.Model.Framing
import RosuModel.Model.DriverCmds
open Rosu

partial def loop (h : IO.FS.Stream) (out : IO.FS.Stream) : IO Unit := do
  let line ← h.getLine
  if line.isEmpty then return ()
  let toks := (line.trimAscii.toString.splitOn " ").filter (· ≠ "")
  out.putStrLn (Rosu.dispatch toks)
  loop h out

def main : IO Unit := do
  let out ← IO.getStdout
  loop (← IO.getStdin) out
  out.flush
