/-
  Props/C03.lean — edits to a decoded map survive encode → decode.
  First layer: a metadata text value that is its own `trim` (no surrounding whitespace) and contains no
  line break comes back exactly from the line the encoder writes for it, whatever else it contains
  (colons, `//`, brackets, header-like or version-like text).
-/
import RosuModel.Props.C02
namespace Rosu.C03
open Rosu Encode

/-- a metadata text the format can represent: equal to its own trim, no line feed. -/
def RepresentableText (v : Str) : Prop := trim v = v ∧ '\n' ∉ v

theorem title_line_sets_title (st : Metadata) (v : Str) (hv : RepresentableText v) :
    parseMetadata st (str "Title" ++ str ": " ++ v) = ({ st with title := v }, true) := by
  unfold parseMetadata
  have hk : kvSplit (str "Title" ++ str ": " ++ v) = (str "Title", v) := by
    rw [C02.kvSplit_kvLine _ _ (by decide), hv.1]; rfl
  simp only [hk]
  rfl

theorem artist_line_sets_artist (st : Metadata) (v : Str) (hv : RepresentableText v) :
    parseMetadata st (str "Artist" ++ str ": " ++ v) = ({ st with artist := v }, true) := by
  unfold parseMetadata
  have hk : kvSplit (str "Artist" ++ str ": " ++ v) = (str "Artist", v) := by
    rw [C02.kvSplit_kvLine _ _ (by decide), hv.1]; rfl
  simp only [hk]
  rfl

example : RepresentableText (str "Re:Zero // [General] osu file format v9") := by
  constructor <;> decide

end Rosu.C03
