/-
  Props/C03.lean — edits to a decoded map survive encode → decode.

  An edit through the public fields replaces a section record `s` by some `ed s`. Proved here, per record section:
  if the edited record is representable, the block the encoder writes for it reads back as exactly the edited record
  (`edit_survives_*`), and any observation `g` the edit did not change reads as it does for the unedited record
  (`edit_frame_*`). For `[Metadata]` the two are also stated field by field (`edit_survives_metadata`,
  `edit_frame_metadata`: ten fields, any one edited, the other nine unchanged). `[Metadata]` and `[Colours]` need no
  hypothesis on numbers; `[Editor]`, `[Difficulty]`, `[General]`, `[Events]` hold for every lawful number codec.
  File level: `edit_survives_records`. The frame extended to the timing and hit-object views is in
  Props/C03Frame.lean (`edit_frame_objects`); `edit_frame_objects_statement` below is the older, hypothesis-free
  reading that is kept as a statement.
-/
import RosuModel.Props.C02
namespace Rosu.C03
open Rosu Encode EncodeLines C11

/-- a metadata text the format can represent: equal to its own trim, no line feed. -/
def RepresentableText (v : Str) : Prop := trim v = v ∧ '\n' ∉ v

theorem title_line_sets_title (st : Metadata) (v : Str) (hv : RepresentableText v) :
    parseMetadata st (str "Title" ++ str ": " ++ v) = ({ st with title := v }, true) := by
  unfold parseMetadata
  have hk : kvSplit (str "Title" ++ str ": " ++ v) = (str "Title", v) := by
    rw [C02.kvSplit_kvLine _ _ (by decide), hv.1]; rfl
  simp only [hk]
  rfl

theorem artist_line_sets_artist (st : Metadata) (v : Str) (hv : RepresentableText v) :
    parseMetadata st (str "Artist" ++ str ": " ++ v) = ({ st with artist := v }, true) := by
  unfold parseMetadata
  have hk : kvSplit (str "Artist" ++ str ": " ++ v) = (str "Artist", v) := by
    rw [C02.kvSplit_kvLine _ _ (by decide), hv.1]; rfl
  simp only [hk]
  rfl

example : RepresentableText (str "Re:Zero // [General] osu file format v9") := by
  constructor <;> decide

/-! ### [Metadata], field by field -/

/-- **edit_survives (metadata)**: after setting any one of the ten metadata fields of a representable record to a
representable value (any self-trimmed single-line text — colons, `//`, brackets, header- or version-like text, the
empty text; a positive `i32` id), the encoded block reads back with exactly that value in that field. -/
theorem edit_survives_metadata (d : Metadata) (hd : RtMetadata.RepMetadata d) (e : RtMetadata.MetaEdit) (he : e.Representable) :
    RtMetadata.getField e.field (RtMetadata.roundtrip (e.apply d)) = e.value :=
  RtMetadata.metadata_edit_survives d hd e he

/-- **edit_frame (metadata)**: … and each of the other nine fields reads exactly as in the round trip of the unedited record. -/
theorem edit_frame_metadata (d : Metadata) (hd : RtMetadata.RepMetadata d) (e : RtMetadata.MetaEdit) (he : e.Representable)
    (f : RtMetadata.MetaField) (hf : f ≠ e.field) :
    RtMetadata.getField f (RtMetadata.roundtrip (e.apply d)) = RtMetadata.getField f (RtMetadata.roundtrip d) :=
  RtMetadata.metadata_edit_frame d hd e he f hf

example : RtMetadata.getField .title (RtMetadata.roundtrip ((RtMetadata.MetaEdit.title (str "Re:Zero")).apply RtMetadata.sample)) =
    .inl (str "Re:Zero") :=
  edit_survives_metadata _ (by
    refine ⟨?_, ?_, ?_, ?_, ?_, ?_, ?_, ?_, ?_, ?_⟩ <;> first | decide | (constructor <;> decide)) (.title (str "Re:Zero"))
    (by constructor <;> decide)

/-! ### the other record sections: any edit to a representable record -/

/-- **[Colours]** an edit whose result is representable and opaque (alpha 255, as the property requires) reads back
exactly; observations the edit did not change (on the alpha-255 view) are unchanged. -/
theorem edit_survives_colours (c' : Colors) (h' : RtColours.RepColors c')
    (h1 : ∀ x ∈ c'.customComboColors, x.a = 255) (h2 : ∀ x ∈ c'.customColors, x.color.a = 255) :
    runSection parseColors Colors.default (RtColours.decodedLines c') = c' :=
  C02.colours_block_roundtrip_decoded c' h' h1 h2

theorem edit_frame_colours {α : Type} (c c' : Colors) (h : RtColours.RepColors c) (h' : RtColours.RepColors c')
    (g : Colors → α) (hg : g (RtColours.preservedColors c') = g (RtColours.preservedColors c)) :
    g (runSection parseColors Colors.default (RtColours.decodedLines c')) =
      g (runSection parseColors Colors.default (RtColours.decodedLines c)) := by
  rw [(C02.colours_block_roundtrip c h).2, (C02.colours_block_roundtrip c' h').2, hg]

section
variable {F P : Type} [Scalar F] [Scalar P] {RF : F → Prop} {RP : P → Prop}

/-- **[Editor]** bookmarks (any `i32` list), distance spacing, beat divisor, grid size, timeline zoom. -/
theorem edit_survives_editor (LF : CodecLaws F RF) (e' : Editor F) (h' : RtEditor.RepEditor RF e') :
    runSection parseEditor Editor.default (RtEditor.decodedLines e') = e' :=
  (C02.editor_block_roundtrip LF e' h').2

theorem edit_frame_editor {α : Type} (LF : CodecLaws F RF) (e e' : Editor F) (h : RtEditor.RepEditor RF e)
    (h' : RtEditor.RepEditor RF e') (g : Editor F → α) (hg : g e' = g e) :
    g (runSection parseEditor Editor.default (RtEditor.decodedLines e')) =
      g (runSection parseEditor Editor.default (RtEditor.decodedLines e)) := by
  rw [edit_survives_editor LF e h, edit_survives_editor LF e' h', hg]

/-- **[Difficulty]** the four `f32` values and the two clamped `f64` values (inside their clamps). -/
theorem edit_survives_difficulty (LF : CodecLaws F RF) (LP : CodecLaws P RP) (d' : Difficulty F P)
    (h' : RtDifficulty.RepDifficulty RF RP d') :
    (runSection parseDifficulty (DifficultyState.create : DifficultyState F P) (RtDifficulty.decodedLines d')).difficulty = d' :=
  (C02.difficulty_block_roundtrip LF LP d' h').2

theorem edit_frame_difficulty {α : Type} (LF : CodecLaws F RF) (LP : CodecLaws P RP) (d d' : Difficulty F P)
    (h : RtDifficulty.RepDifficulty RF RP d) (h' : RtDifficulty.RepDifficulty RF RP d') (g : Difficulty F P → α) (hg : g d' = g d) :
    g (runSection parseDifficulty (DifficultyState.create : DifficultyState F P) (RtDifficulty.decodedLines d')).difficulty =
      g (runSection parseDifficulty (DifficultyState.create : DifficultyState F P) (RtDifficulty.decodedLines d)).difficulty := by
  rw [edit_survives_difficulty LF LP d h, edit_survives_difficulty LF LP d' h', hg]

/-- **[Events]** background file and breaks. -/
theorem edit_survives_events (LF : CodecLaws F RF) (e' : Events F) (h' : RtEvents.RepEvents RF e') :
    runSection parseEvents (Events.default : Events F) (RtEvents.decodedLines e') = e' :=
  (C02.events_block_roundtrip LF e' h').2

theorem edit_frame_events {α : Type} (LF : CodecLaws F RF) (e e' : Events F) (h : RtEvents.RepEvents RF e)
    (h' : RtEvents.RepEvents RF e') (g : Events F → α) (hg : g e' = g e) :
    g (runSection parseEvents (Events.default : Events F) (RtEvents.decodedLines e')) =
      g (runSection parseEvents (Events.default : Events F) (RtEvents.decodedLines e)) := by
  rw [edit_survives_events LF e h, edit_survives_events LF e' h', hg]

/-- **[General]** audio file, lead-in, preview time, countdown, stack leniency, mode, flags, positive countdown
offset: the edited record reads back on the preserved view (ids ≤ 0 / `special_style` outside mania are not
representable edits, as in the property). -/
theorem edit_survives_general (LI : IntPrintLaw F) (LP : CodecLaws P RP) (g' : GeneralState F P) (ss : SampleBank)
    (h' : RtGeneral.RepGeneral RP g') :
    runSection RtGeneral.generalStep (GeneralState.default : GeneralState F P) (RtGeneral.decodedLines g' ss) =
      RtGeneral.preservedGeneral g' ss :=
  (C02.general_block_roundtrip LI LP g' ss h').2

theorem edit_frame_general {α : Type} (LI : IntPrintLaw F) (LP : CodecLaws P RP) (g g' : GeneralState F P) (ss ss' : SampleBank)
    (h : RtGeneral.RepGeneral RP g) (h' : RtGeneral.RepGeneral RP g') (obs : GeneralState F P → α)
    (hobs : obs (RtGeneral.preservedGeneral g' ss') = obs (RtGeneral.preservedGeneral g ss)) :
    obs (runSection RtGeneral.generalStep (GeneralState.default : GeneralState F P) (RtGeneral.decodedLines g' ss')) =
      obs (runSection RtGeneral.generalStep (GeneralState.default : GeneralState F P) (RtGeneral.decodedLines g ss)) := by
  rw [edit_survives_general LI LP g ss h, edit_survives_general LI LP g' ss' h', hobs]

/-- non-vacuity (toy codec): setting the preview time of the sample record. -/
def editedSample : GeneralState ZC ZC := { RtGeneral.sample with previewTime := -5 }

theorem editedSample_rep : RtGeneral.RepGeneral ZC.Rep editedSample :=
  ⟨RtGeneral.sample_rep.audioFile, RtGeneral.sample_rep.audioLeadIn, by decide, RtGeneral.sample_rep.stackLeniency, by decide⟩

example : (runSection RtGeneral.generalStep (GeneralState.default : GeneralState ZC ZC)
    (RtGeneral.decodedLines editedSample SampleBank.soft)).previewTime = -5 :=
  congrArg (·.previewTime) (edit_survives_general ZC.intPrintLaw ZC.laws editedSample SampleBank.soft editedSample_rep)

variable [Cvt P F] [Trig F] [Trig P]

/-- **edit_survives_records** — file level: whatever edits turned a decoded map into `m'`, if the record sections
of `m'` are representable then encoding `m'` and decoding the bytes again shows exactly the edited record fields
(preserved view), under the codec laws and the list-block shape assumption of C04. Together with
`C02.records_roundtrip` for the unedited map this is also the frame clause for the record fields. -/
theorem edit_survives_records (LF : CodecLaws F RF) (LP : CodecLaws P RP) (LI : IntPrintLaw F) (m' : Beatmap F P)
    (hm : RtFile.RepRecords RF RP m') (t : Str) (T H : List Str) (h : encode m' = .ok t)
    (hT : encodeTimingPoints m' = .ok (unlines (str "[TimingPoints]" :: T)))
    (hH : encodeHitObjects m' = .ok (unlines (str "[HitObjects]" :: H)))
    (sT : RtFile.ListBlockShape T) (sH : RtFile.ListBlockShape H) :
    ∃ st : BeatmapState F P, decodeBytes beatmapDecoder (utf8Encode t) = .ok st ∧
      RtFile.recView st = RtFile.preservedRecords m' :=
  RtFile.file_record_roundtrip LF LP LI m' hm t T H h hT hH sT sH

end

/-- the remainder of C03, not yet a theorem: an edit of a record field other than mode, slider multiplier and tick
rate leaves the re-decoded hit objects and timing points as they are without the edit. -/
def edit_frame_objects_statement : Prop :=
  ∀ (F P : Type) [Scalar F] [Scalar P] [Cvt P F] [Trig F] [Trig P] (RF : F → Prop) (RP : P → Prop),
    CodecLaws F RF → CodecLaws P RP →
    ∀ (m m' : Beatmap F P) (t t' : Str) (st st' : BeatmapState F P),
      m'.hitObjects.length = m.hitObjects.length → m'.general.mode = m.general.mode → m'.difficulty.sliderMultiplier = m.difficulty.sliderMultiplier →
      encode m = .ok t → encode m' = .ok t' →
      decodeBytes beatmapDecoder (utf8Encode t) = .ok st → decodeBytes beatmapDecoder (utf8Encode t') = .ok st' →
      st'.hitObjects.core.hitObjects.length = st.hitObjects.core.hitObjects.length

end Rosu.C03
