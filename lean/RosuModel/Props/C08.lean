/-
  Props/C08.lean — the decoded result depends on the bytes only, not on how they are delivered.
  Theorems only; the model is Model/Reader.lean + Model/Framing.lean, the shared
  characterisation of the reader is Lemmas/ReaderSpec.lean.
-/
import RosuModel.Lemmas.ReaderSpec
namespace Rosu.C08
open Rosu

variable {σ : Type}

/-- the schedule contains no fatal error. -/
def noFail : Sched → Bool
  | [] => true
  | .fail _ :: _ => false
  | .chunk _ :: s => noFail s
  | .intr :: s => noFail s

theorem noFail_firstFail {s : Sched} (h : noFail s = true) : Sched.firstFail s = none := by
  induction s with
  | nil => rfl
  | cons e s ih => cases e <;> simp_all [noFail, Sched.firstFail]

theorem noFail_pre {s : Sched} (h : noFail s = true) : Sched.pre s = Sched.bytes s := by
  induction s with
  | nil => rfl
  | cons e s ih => cases e <;> simp_all [noFail, Sched.pre, Sched.bytes]

/-! ### (a) `Interrupted` is transparent -/

/-- `read_bom` retries on `Interrupted`: same result, and the reader is left in the same state
up to `Interrupted` events. -/
theorem readBom_interrupted (s : Sched) :
    readBom (dropIntr s) = ((readBom s).1, dropIntr (readBom s).2) := readBom_dropIntr s

/-- `read_until` retries on `Interrupted`. -/
theorem readUntil_interrupted (s : Sched) (acc : List UInt8) :
    readUntil (dropIntr s) acc = ((readUntil s acc).1, dropIntr (readUntil s acc).2) :=
  readUntil_dropIntr s acc

/-- `next_byte` retries on `Interrupted`. -/
theorem nextByte_interrupted (s : Sched) :
    nextByte (dropIntr s) = ((nextByte s).1, dropIntr (nextByte s).2) := nextByte_dropIntr s

/-- all lines (and the error ending the reading, if any) are unchanged. -/
theorem readAll_interrupted (enc : Encoding) (s : Sched) :
    readAll enc (dropIntr s) = readAll enc s := by
  rw [readAll_eq_spec, readAll_eq_spec, pre_dropIntr, firstFail_dropIntr]

theorem decodeSched_dropIntr (D : LineDecoder σ) (s : Sched) :
    decodeSched D (dropIntr s) = decodeSched D s := by
  rw [decodeSched_spec, decodeSched_spec, pre_dropIntr, firstFail_dropIntr]

/-- **Transient interruptions do not change the outcome**: two schedules that differ only in
where (and how many) `Interrupted` results are reported decode identically — whether decoding
succeeds or ends in a fatal error. -/
theorem interrupted_transparent (D : LineDecoder σ) (s₁ s₂ : Sched)
    (h : dropIntr s₁ = dropIntr s₂) : decodeSched D s₁ = decodeSched D s₂ := by
  rw [← decodeSched_dropIntr D s₁, ← decodeSched_dropIntr D s₂, h]

theorem dropIntr_append (a b : Sched) : dropIntr (a ++ b) = dropIntr a ++ dropIntr b := by
  induction a with
  | nil => rfl
  | cons e a ih => cases e <;> simp [dropIntr, ih]

/-- inserting one `Interrupted` anywhere. -/
theorem insert_interrupted (D : LineDecoder σ) (a b : Sched) :
    decodeSched D (a ++ .intr :: b) = decodeSched D (a ++ b) :=
  interrupted_transparent D _ _ (by simp [dropIntr_append, dropIntr])

example : dropIntr [.intr, .chunk [1, 2], .intr, .intr, .fail .other] = dropIntr [.chunk [1, 2], .fail .other, .intr] := by
  rfl

/-! ### (b) chunking -/

/-- `read_until` over two delivery schedules that deliver the same bytes before the same first
fault: same result, and the readers are left with the same undelivered bytes and fault. -/
theorem read_until_chunks (s₁ s₂ : Sched) (acc : List UInt8)
    (hb : Sched.pre s₁ = Sched.pre s₂) (hf : Sched.firstFail s₁ = Sched.firstFail s₂) :
    (readUntil s₁ acc).1 = (readUntil s₂ acc).1 ∧
    (rdIsOk (readUntil s₁ acc).1 = true →
      Sched.pre (readUntil s₁ acc).2 = Sched.pre (readUntil s₂ acc).2 ∧
      Sched.firstFail (readUntil s₁ acc).2 = Sched.firstFail (readUntil s₂ acc).2) := by
  obtain ⟨a1, a2⟩ := readUntil_spec s₁ acc
  obtain ⟨b1, b2⟩ := readUntil_spec s₂ acc
  rw [hb, hf] at a1; rw [hb, hf] at a2
  refine ⟨a1.trans b1.symm, fun h => ?_⟩
  have h' : rdIsOk (readUntil s₂ acc).1 = true := by rw [b1, ← a1]; exact h
  obtain ⟨p1, f1⟩ := a2 h
  obtain ⟨p2, f2⟩ := b2 h'
  exact ⟨p1.trans p2.symm, f1.trans f2.symm⟩

/-- the lines read depend only on the bytes delivered before the first fault and on that fault. -/
theorem readAll_chunks (enc : Encoding) (s₁ s₂ : Sched)
    (hb : Sched.pre s₁ = Sched.pre s₂) (hf : Sched.firstFail s₁ = Sched.firstFail s₂) :
    readAll enc s₁ = readAll enc s₂ := by
  rw [readAll_eq_spec, readAll_eq_spec, hb, hf]

/-- **Splitting a chunk in two at any point changes nothing** (whatever follows, faults included). -/
theorem readAll_split (enc : Encoding) (a b : List UInt8) (s : Sched) :
    readAll enc (.chunk (a ++ b) :: s) = readAll enc (.chunk a :: .chunk b :: s) :=
  readAll_chunks enc _ _ (by simp [Sched.pre]) (by simp [Sched.firstFail])

/-- an empty chunk (a `fill_buf` that returns nothing new but is not end of input cannot happen
for a `BufRead`; the model tolerates it) changes nothing either. -/
theorem readAll_empty_chunk (enc : Encoding) (a b : Sched) :
    readAll enc (a ++ .chunk [] :: b) = readAll enc (a ++ b) := by
  apply readAll_chunks
  · induction a with
    | nil => simp [Sched.pre]
    | cons e a ih => cases e <;> simp_all [Sched.pre]
  · induction a with
    | nil => simp [Sched.firstFail]
    | cons e a ih => cases e <;> simp_all [Sched.firstFail]

/-- lifted by induction: any fault-free schedule reads like the single chunk of all its bytes. -/
theorem readAll_bytes (enc : Encoding) (s : Sched) (h : noFail s = true) :
    readAll enc s = readAll enc (Sched.ofBytes (Sched.bytes s)) := by
  apply readAll_chunks
  · rw [noFail_pre h]
    unfold Sched.ofBytes
    cases hb : (Sched.bytes s) <;> simp [Sched.pre]
  · rw [noFail_firstFail h]
    unfold Sched.ofBytes
    cases hb : (Sched.bytes s) <;> simp [Sched.firstFail]

/-- **BOM sniffing over any chunking**: `read_bom` collects the first three bytes however they are
delivered; same encoding, and the same bytes (leftover prefix first) and fault remain to be read. -/
theorem bom_any_chunking (s₁ s₂ : Sched)
    (hb : Sched.pre s₁ = Sched.pre s₂) (hf : Sched.firstFail s₁ = Sched.firstFail s₂) :
    (readBomPush s₁).1 = (readBomPush s₂).1 ∧
    (rdIsOk (readBomPush s₁).1 = true →
      Sched.pre (readBomPush s₁).2 = Sched.pre (readBomPush s₂).2 ∧
      Sched.firstFail (readBomPush s₁).2 = Sched.firstFail (readBomPush s₂).2) := by
  obtain ⟨a1, a2⟩ := readBomPush_spec s₁
  obtain ⟨b1, b2⟩ := readBomPush_spec s₂
  rw [hb, hf] at a1; rw [hb, hf] at a2
  refine ⟨a1.trans b1.symm, fun h => ?_⟩
  have h' : rdIsOk (readBomPush s₂).1 = true := by rw [b1, ← a1]; exact h
  obtain ⟨p1, f1⟩ := a2 h
  obtain ⟨p2, f2⟩ := b2 h'
  exact ⟨p1.trans p2.symm, f1.trans f2.symm⟩

/-- The general form, faults included: the outcome is determined by the bytes delivered before
the first fatal error and by that error — however the bytes are cut into chunks, down to single
bytes and including a first chunk shorter than a BOM. -/
theorem decode_prefix_determined (D : LineDecoder σ) (s₁ s₂ : Sched)
    (hb : Sched.pre s₁ = Sched.pre s₂) (hf : Sched.firstFail s₁ = Sched.firstFail s₂) :
    decodeSched D s₁ = decodeSched D s₂ := by
  rw [decodeSched_spec D s₁, decodeSched_spec D s₂, hb, hf]

/-- **C08.** For fault-free schedules the outcome is a function of the bytes alone. -/
theorem decode_schedule_irrelevant (D : LineDecoder σ) (s₁ s₂ : Sched)
    (n₁ : noFail s₁ = true) (n₂ : noFail s₂ = true) (hb : Sched.bytes s₁ = Sched.bytes s₂) :
    decodeSched D s₁ = decodeSched D s₂ :=
  decode_prefix_determined D s₁ s₂
    (by rw [noFail_pre n₁, noFail_pre n₂, hb]) (by rw [noFail_firstFail n₁, noFail_firstFail n₂])

/-- in particular every fault-free schedule decodes like `from_bytes` of its bytes. -/
theorem decode_schedule_eq_from_bytes (D : LineDecoder σ) (s : Sched) (n : noFail s = true) :
    decodeSched D s = decodeBytes D (Sched.bytes s) := by
  unfold decodeBytes
  apply decode_schedule_irrelevant D _ _ n
  · unfold Sched.ofBytes; cases Sched.bytes s <;> simp [noFail]
  · unfold Sched.ofBytes; cases hb : Sched.bytes s <;> simp [Sched.bytes]

/-- non-vacuity: single bytes, a one-byte first chunk, interruptions, empty chunks. -/
example :
    noFail [.chunk [0x5B], .intr, .chunk [0x47, 0x5D], .chunk [0x0A], .chunk [], .chunk [0x41]] = true ∧
    noFail [.intr, .chunk [], .chunk [0x5B, 0x47, 0x5D, 0x0A, 0x41]] = true ∧
    Sched.bytes [.chunk [0x5B], .intr, .chunk [0x47, 0x5D], .chunk [0x0A], .chunk [], .chunk [0x41]] =
      Sched.bytes [.intr, .chunk [], .chunk [0x5B, 0x47, 0x5D, 0x0A, 0x41]] := by decide

/-- the bytes of `[General]⏎A`. -/
def witnessBytes : List UInt8 := [0x5B, 0x47, 0x65, 0x6E, 0x65, 0x72, 0x61, 0x6C, 0x5D, 0x0A, 0x41]
def witness₁ : Sched := [.chunk [0x5B], .chunk [0x47, 0x65, 0x6E, 0x65, 0x72, 0x61, 0x6C, 0x5D, 0x0A, 0x41]]
def witness₂ : Sched := [.chunk witnessBytes]

def nCalls (r : Except IoKind Rec) : Nat :=
  match r with
  | .ok st => st.calls.length
  | .error _ => 0

/-- the schedules that separated the two deliveries before the repair of `read_bom` (former
finding F4: a first chunk of one or two bytes was consumed and lost) now agree. -/
example : nCalls (decodeSched recorder witness₁) = 1 ∧ nCalls (decodeSched recorder witness₂) = 1 := by
  decide

/-- a BOM split across chunks (`EF | BB BF`, `FF | FE`), a prefix that already contains a line feed. -/
example :
    nCalls (decodeSched recorder (.chunk [0xEF] :: .chunk [0xBB, 0xBF] :: witness₁)) = 1 ∧
    nCalls (decodeSched recorder [.chunk [0xFF], .chunk [0xFE], .chunk [0x5B], .chunk [0x00, 0x47],
      .chunk [0x00, 0x65, 0x00, 0x6E, 0x00, 0x65, 0x00, 0x72, 0x00, 0x61, 0x00, 0x6C, 0x00, 0x5D, 0x00],
      .chunk [0x0A], .chunk [0x00, 0x41, 0x00]]) = 1 ∧
    nCalls (decodeSched recorder [.chunk [0x0A], .chunk [0x5B], .chunk [0x47, 0x65, 0x6E, 0x65, 0x72, 0x61, 0x6C, 0x5D, 0x0A, 0x41]]) = 1 := by
  decide

/-! ### (c) entry points -/

/-- `from_bytes` (and `from_str`, which wraps the same `Cursor` around the string's bytes) is the
one-chunk schedule. -/
theorem from_bytes_one_chunk (D : LineDecoder σ) (bs : List UInt8) :
    decodeBytes D bs = decodeSched D (Sched.ofBytes bs) := rfl

theorem pre_chunksOfFuel (c f : Nat) (bs : List UInt8) (hc : 0 < c) (hf : bs.length ≤ f) :
    Sched.pre (chunksOfFuel c f bs) = bs ∧ Sched.firstFail (chunksOfFuel c f bs) = none := by
  induction f generalizing bs with
  | zero =>
    have : bs = [] := List.eq_nil_of_length_eq_zero (by omega)
    subst this; simp [chunksOfFuel, Sched.pre, Sched.firstFail]
  | succ n ih =>
    cases bs with
    | nil => simp [chunksOfFuel, Sched.pre, Sched.firstFail]
    | cons b r =>
      have hl : ((b :: r).drop c).length ≤ n := by
        simp only [List.length_drop, List.length_cons] at hf ⊢; omega
      obtain ⟨i1, i2⟩ := ih ((b :: r).drop c) hl
      simp only [chunksOfFuel, List.isEmpty_cons, Bool.false_eq_true, if_false, Sched.pre, Sched.firstFail,
        i1, i2, List.take_append_drop, and_self]

/-- **A `BufReader` of any capacity `c ≥ 1`** over the bytes delivers `c`-byte chunks; it decodes like
`from_bytes`. -/
theorem entry_points_agree (D : LineDecoder σ) (c : Nat) (bs : List UInt8) (hc : 1 ≤ c) :
    decodeSched D (Sched.chunksOf c bs) = decodeBytes D bs := by
  obtain ⟨p, f⟩ := pre_chunksOfFuel c bs.length bs (by omega) (Nat.le_refl _)
  apply decode_prefix_determined
  · rw [show Sched.chunksOf c bs = chunksOfFuel c bs.length bs from rfl, p]
    unfold Sched.ofBytes; cases bs <;> simp [Sched.pre]
  · rw [show Sched.chunksOf c bs = chunksOfFuel c bs.length bs from rfl, f]
    unfold Sched.ofBytes; cases bs <;> simp [Sched.firstFail]

/-- capacities one and two (former finding F4, `BufReader::with_capacity(2, …)`) included. -/
example :
    nCalls (decodeSched recorder (Sched.chunksOf 2 witnessBytes)) = 1 ∧
    nCalls (decodeSched recorder (Sched.chunksOf 1 witnessBytes)) = 1 ∧
    nCalls (decodeBytes recorder witnessBytes) = 1 := by
  decide

end Rosu.C08
