/-
  Props/C08.lean — the decoded result depends on the bytes only, not on how they are delivered.
  Theorems only; the model is Model/Reader.lean + Model/Framing.lean, the shared
  characterisation of the reader is Lemmas/ReaderSpec.lean.
-/
import RosuModel.Lemmas.ReaderSpec
namespace Rosu.C08
open Rosu

variable {σ : Type}

/-- the schedule contains no fatal error. -/
def noFail : Sched → Bool
  | [] => true
  | .fail _ :: _ => false
  | .chunk _ :: s => noFail s
  | .intr :: s => noFail s

theorem noFail_firstFail {s : Sched} (h : noFail s = true) : Sched.firstFail s = none := by
  induction s with
  | nil => rfl
  | cons e s ih => cases e <;> simp_all [noFail, Sched.firstFail]

theorem noFail_pre {s : Sched} (h : noFail s = true) : Sched.pre s = Sched.bytes s := by
  induction s with
  | nil => rfl
  | cons e s ih => cases e <;> simp_all [noFail, Sched.pre, Sched.bytes]

/-! ### (a) `Interrupted` is transparent -/

/-- `read_bom` retries on `Interrupted`: same result, and the reader is left in the same state
up to `Interrupted` events. -/
theorem readBom_interrupted (s : Sched) :
    readBom (dropIntr s) = ((readBom s).1, dropIntr (readBom s).2) := readBom_dropIntr s

/-- `read_until` retries on `Interrupted`. -/
theorem readUntil_interrupted (s : Sched) (acc : List UInt8) :
    readUntil (dropIntr s) acc = ((readUntil s acc).1, dropIntr (readUntil s acc).2) :=
  readUntil_dropIntr s acc

/-- `read_exact` retries on `Interrupted`. -/
theorem readByte_interrupted (s : Sched) :
    readByte (dropIntr s) = ((readByte s).1, dropIntr (readByte s).2) := readByte_dropIntr s

/-- all lines (and the error ending the reading, if any) are unchanged. -/
theorem readAll_interrupted (enc : Encoding) (s : Sched) :
    readAll enc (dropIntr s) = readAll enc s := by
  rw [readAll_eq_spec, readAll_eq_spec, pre_dropIntr, firstFail_dropIntr]

theorem decodeSched_dropIntr (D : LineDecoder σ) (s : Sched) :
    decodeSched D (dropIntr s) = decodeSched D s := by
  unfold decodeSched
  rw [readBom_dropIntr]
  cases readBom s with
  | mk r s1 => cases r <;> simp [readAll_interrupted]

/-- **Transient interruptions do not change the outcome**: two schedules that differ only in
where (and how many) `Interrupted` results are reported decode identically — whether decoding
succeeds or ends in a fatal error. -/
theorem interrupted_transparent (D : LineDecoder σ) (s₁ s₂ : Sched)
    (h : dropIntr s₁ = dropIntr s₂) : decodeSched D s₁ = decodeSched D s₂ := by
  rw [← decodeSched_dropIntr D s₁, ← decodeSched_dropIntr D s₂, h]

theorem dropIntr_append (a b : Sched) : dropIntr (a ++ b) = dropIntr a ++ dropIntr b := by
  induction a with
  | nil => rfl
  | cons e a ih => cases e <;> simp [dropIntr, ih]

/-- inserting one `Interrupted` anywhere. -/
theorem insert_interrupted (D : LineDecoder σ) (a b : Sched) :
    decodeSched D (a ++ .intr :: b) = decodeSched D (a ++ b) :=
  interrupted_transparent D _ _ (by simp [dropIntr_append, dropIntr])

example : dropIntr [.intr, .chunk [1, 2], .intr, .intr, .fail .other] = dropIntr [.chunk [1, 2], .fail .other, .intr] := by
  rfl

/-! ### (b) chunking -/

/-- `read_until` over two delivery schedules that deliver the same bytes before the same first
fault: same result, and the readers are left with the same undelivered bytes and fault. -/
theorem read_until_chunks (s₁ s₂ : Sched) (acc : List UInt8)
    (hb : Sched.pre s₁ = Sched.pre s₂) (hf : Sched.firstFail s₁ = Sched.firstFail s₂) :
    (readUntil s₁ acc).1 = (readUntil s₂ acc).1 ∧
    (rdIsOk (readUntil s₁ acc).1 = true →
      Sched.pre (readUntil s₁ acc).2 = Sched.pre (readUntil s₂ acc).2 ∧
      Sched.firstFail (readUntil s₁ acc).2 = Sched.firstFail (readUntil s₂ acc).2) := by
  obtain ⟨a1, a2⟩ := readUntil_spec s₁ acc
  obtain ⟨b1, b2⟩ := readUntil_spec s₂ acc
  rw [hb, hf] at a1; rw [hb, hf] at a2
  refine ⟨a1.trans b1.symm, fun h => ?_⟩
  have h' : rdIsOk (readUntil s₂ acc).1 = true := by rw [b1, ← a1]; exact h
  obtain ⟨p1, f1⟩ := a2 h
  obtain ⟨p2, f2⟩ := b2 h'
  exact ⟨p1.trans p2.symm, f1.trans f2.symm⟩

/-- the lines read depend only on the bytes delivered before the first fault and on that fault. -/
theorem readAll_chunks (enc : Encoding) (s₁ s₂ : Sched)
    (hb : Sched.pre s₁ = Sched.pre s₂) (hf : Sched.firstFail s₁ = Sched.firstFail s₂) :
    readAll enc s₁ = readAll enc s₂ := by
  rw [readAll_eq_spec, readAll_eq_spec, hb, hf]

/-- **Splitting a chunk in two at any point changes nothing** (whatever follows, faults included). -/
theorem readAll_split (enc : Encoding) (a b : List UInt8) (s : Sched) :
    readAll enc (.chunk (a ++ b) :: s) = readAll enc (.chunk a :: .chunk b :: s) :=
  readAll_chunks enc _ _ (by simp [Sched.pre]) (by simp [Sched.firstFail])

/-- an empty chunk (a `fill_buf` that returns nothing new but is not end of input cannot happen
for a `BufRead`; the model tolerates it) changes nothing either. -/
theorem readAll_empty_chunk (enc : Encoding) (a b : Sched) :
    readAll enc (a ++ .chunk [] :: b) = readAll enc (a ++ b) := by
  apply readAll_chunks
  · induction a with
    | nil => simp [Sched.pre]
    | cons e a ih => cases e <;> simp_all [Sched.pre]
  · induction a with
    | nil => simp [Sched.firstFail]
    | cons e a ih => cases e <;> simp_all [Sched.firstFail]

/-- lifted by induction: any fault-free schedule reads like the single chunk of all its bytes. -/
theorem readAll_bytes (enc : Encoding) (s : Sched) (h : noFail s = true) :
    readAll enc s = readAll enc (Sched.ofBytes (Sched.bytes s)) := by
  apply readAll_chunks
  · rw [noFail_pre h]
    unfold Sched.ofBytes
    cases hb : (Sched.bytes s) <;> simp [Sched.pre]
  · rw [noFail_firstFail h]
    unfold Sched.ofBytes
    cases hb : (Sched.bytes s) <;> simp [Sched.firstFail]

/-- BOM sniffing over any chunking whose first non-empty chunk has at least three bytes. -/
theorem bom_any_chunking_partial (s₁ s₂ : Sched) (h₁ : bomOk s₁ = true) (h₂ : bomOk s₂ = true)
    (hb : Sched.pre s₁ = Sched.pre s₂) (hf : Sched.firstFail s₁ = Sched.firstFail s₂) :
    (readBom s₁).1 = (readBom s₂).1 ∧
    (rdIsOk (readBom s₁).1 = true →
      Sched.pre (readBom s₁).2 = Sched.pre (readBom s₂).2 ∧
      Sched.firstFail (readBom s₁).2 = Sched.firstFail (readBom s₂).2) := by
  obtain ⟨a1, a2⟩ := readBom_spec s₁ h₁
  obtain ⟨b1, b2⟩ := readBom_spec s₂ h₂
  rw [hb, hf] at a1; rw [hb, hf] at a2
  refine ⟨a1.trans b1.symm, fun h => ?_⟩
  have h' : rdIsOk (readBom s₂).1 = true := by rw [b1, ← a1]; exact h
  obtain ⟨p1, f1⟩ := a2 h
  obtain ⟨p2, f2⟩ := b2 h'
  exact ⟨p1.trans p2.symm, f1.trans f2.symm⟩

/-- The general form, faults included: when the BOM sniffing of both schedules sees at least
three bytes (or nothing) in its first non-empty chunk, the outcome is determined by the bytes
delivered before the first fatal error and by that error. -/
theorem decode_prefix_determined_partial (D : LineDecoder σ) (s₁ s₂ : Sched)
    (h₁ : bomOk s₁ = true) (h₂ : bomOk s₂ = true)
    (hb : Sched.pre s₁ = Sched.pre s₂) (hf : Sched.firstFail s₁ = Sched.firstFail s₂) :
    decodeSched D s₁ = decodeSched D s₂ := by
  rw [decodeSched_spec D s₁ h₁, decodeSched_spec D s₂ h₂, hb, hf]

/-- **C08, proved part.** For fault-free schedules whose first non-empty chunk has at least three
bytes (`bomOk`; also true of the empty stream), the outcome is a function of the bytes alone. -/
theorem decode_schedule_irrelevant_partial (D : LineDecoder σ) (s₁ s₂ : Sched)
    (n₁ : noFail s₁ = true) (n₂ : noFail s₂ = true) (hb : Sched.bytes s₁ = Sched.bytes s₂)
    (h₁ : bomOk s₁ = true) (h₂ : bomOk s₂ = true) :
    decodeSched D s₁ = decodeSched D s₂ :=
  decode_prefix_determined_partial D s₁ s₂ h₁ h₂
    (by rw [noFail_pre n₁, noFail_pre n₂, hb]) (by rw [noFail_firstFail n₁, noFail_firstFail n₂])

/-- non-vacuity: single bytes after a three-byte first chunk, with interruptions. -/
example :
    noFail [.chunk [0x5B, 0x47, 0x5D], .intr, .chunk [0x0A], .chunk [], .chunk [0x41]] = true ∧
    bomOk [.chunk [0x5B, 0x47, 0x5D], .intr, .chunk [0x0A], .chunk [], .chunk [0x41]] = true ∧
    bomOk [.intr, .chunk [], .chunk [0x5B, 0x47, 0x5D, 0x0A, 0x41]] = true ∧
    Sched.bytes [.chunk [0x5B, 0x47, 0x5D], .intr, .chunk [0x0A], .chunk [], .chunk [0x41]] =
      Sched.bytes [.intr, .chunk [], .chunk [0x5B, 0x47, 0x5D, 0x0A, 0x41]] := by decide

/-- the property as stated: no condition on the first chunk. -/
def decode_schedule_irrelevant_statement : Prop :=
  ∀ (σ : Type) (D : LineDecoder σ) (s₁ s₂ : Sched),
    noFail s₁ = true → noFail s₂ = true → Sched.bytes s₁ = Sched.bytes s₂ →
    decodeSched D s₁ = decodeSched D s₂

/-- the bytes of `[General]⏎A`. -/
def witnessBytes : List UInt8 := [0x5B, 0x47, 0x65, 0x6E, 0x65, 0x72, 0x61, 0x6C, 0x5D, 0x0A, 0x41]
def witness₁ : Sched := [.chunk [0x5B], .chunk [0x47, 0x65, 0x6E, 0x65, 0x72, 0x61, 0x6C, 0x5D, 0x0A, 0x41]]
def witness₂ : Sched := [.chunk witnessBytes]

def nCalls (r : Except IoKind Rec) : Nat :=
  match r with
  | .ok st => st.calls.length
  | .error _ => 0

theorem witness_outcomes :
    nCalls (decodeSched recorder witness₁) = 0 ∧ nCalls (decodeSched recorder witness₂) = 1 := by
  decide

/-- **The full statement is false of the code (finding F4)**: `read_bom` consumes a first chunk
of one or two bytes and never looks at it again. Same bytes, fault-free, different outcome. -/
theorem decode_schedule_irrelevant_false : ¬ decode_schedule_irrelevant_statement := by
  intro h
  have e := h Rec recorder witness₁ witness₂ (by decide) (by decide) (by decide)
  have := witness_outcomes
  rw [e] at this
  omega

/-! ### (c) entry points -/

/-- `from_bytes` (and `from_str`, which wraps the same `Cursor` around the string's bytes) is the
one-chunk schedule. -/
theorem from_bytes_one_chunk (D : LineDecoder σ) (bs : List UInt8) :
    decodeBytes D bs = decodeSched D (Sched.ofBytes bs) := rfl

theorem pre_chunksOfFuel (c f : Nat) (bs : List UInt8) (hc : 0 < c) (hf : bs.length ≤ f) :
    Sched.pre (chunksOfFuel c f bs) = bs ∧ Sched.firstFail (chunksOfFuel c f bs) = none := by
  induction f generalizing bs with
  | zero =>
    have : bs = [] := List.eq_nil_of_length_eq_zero (by omega)
    subst this; simp [chunksOfFuel, Sched.pre, Sched.firstFail]
  | succ n ih =>
    cases bs with
    | nil => simp [chunksOfFuel, Sched.pre, Sched.firstFail]
    | cons b r =>
      have hl : ((b :: r).drop c).length ≤ n := by
        simp only [List.length_drop, List.length_cons] at hf ⊢; omega
      obtain ⟨i1, i2⟩ := ih ((b :: r).drop c) hl
      simp only [chunksOfFuel, List.isEmpty_cons, Bool.false_eq_true, if_false, Sched.pre, Sched.firstFail,
        i1, i2, List.take_append_drop, and_self]

/-- **A `BufReader` of capacity `c ≥ 3`** over the bytes delivers `c`-byte chunks; it decodes like
`from_bytes`. -/
theorem entry_points_agree (D : LineDecoder σ) (c : Nat) (bs : List UInt8) (hc : 3 ≤ c) :
    decodeSched D (Sched.chunksOf c bs) = decodeBytes D bs := by
  by_cases hl : 3 ≤ bs.length
  · obtain ⟨p, f⟩ := pre_chunksOfFuel c bs.length bs (by omega) (Nat.le_refl _)
    apply decode_prefix_determined_partial
    · unfold Sched.chunksOf
      match bs, hl with
      | a :: b :: d :: t, _ =>
        simp only [List.length_cons, chunksOfFuel, List.isEmpty_cons, Bool.false_eq_true, if_false, bomOk]
        match c, hc with
        | c' + 3, _ => simp
    · match bs, hl with
      | a :: b :: d :: t, _ => simp [Sched.ofBytes, bomOk]
    · rw [show Sched.chunksOf c bs = chunksOfFuel c bs.length bs from rfl, p]
      unfold Sched.ofBytes; cases bs <;> simp [Sched.pre]
    · rw [show Sched.chunksOf c bs = chunksOfFuel c bs.length bs from rfl, f]
      unfold Sched.ofBytes; cases bs <;> simp [Sched.firstFail]
  · -- fewer than three bytes: the buffer is filled once, the schedule *is* the one-chunk schedule
    have : Sched.chunksOf c bs = Sched.ofBytes bs := by
      unfold Sched.chunksOf Sched.ofBytes
      match bs, hl with
      | [], _ => rfl
      | [a], _ =>
        have : List.take c [a] = [a] := List.take_of_length_le (by simp; omega)
        have : List.drop c [a] = [] := List.drop_of_length_le (by simp; omega)
        simp [chunksOfFuel, *]
      | [a, b], _ =>
        have : List.take c [a, b] = [a, b] := List.take_of_length_le (by simp; omega)
        have : List.drop c [a, b] = [] := List.drop_of_length_le (by simp; omega)
        simp [chunksOfFuel, *]
      | _ :: _ :: _ :: _, h => exact absurd (by simp) h
    rw [this]; rfl

/-- …and a capacity below three does not (finding F4, `BufReader::with_capacity(2, …)`). -/
theorem small_capacity_loses_bytes :
    nCalls (decodeSched recorder (Sched.chunksOf 2 witnessBytes)) = 0 ∧
    nCalls (decodeBytes recorder witnessBytes) = 1 := by
  decide

end Rosu.C08
