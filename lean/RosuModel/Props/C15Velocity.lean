/-
  Props/C15Velocity.lean — C15, velocity / duration: the closed form the finaliser evaluates
  (`slider_finalized`, Props/C15.lean, any scalar) equals the formula as the property words it, in exact field
  arithmetic (law-dependent; carried out on the exact rational scalar `Rat` of Lemmas/ToyRat.lean):

      velocity = 100 · slider_multiplier · sv / beat_length      sv = the active multiplier, clamped per mode
      duration = spans · distance / velocity

  The code computes `100·SM / (beat_len · clamp(100/sv, 10, hi)/100)` with `hi = 10000` (osu!, catch) or `1000`
  (taiko, mania); for `sv > 0` the factor `clamp(100/sv, 10, hi)/100` is `1 / clamp(sv, 100/hi, 10)`
  (`inv_clamp_osu`, `inv_clamp_taiko`). A multiplier stored by `DifficultyPoint::new` already lies in `[0.1, 10]`
  (`difficultyPoint_new_range`), where both clamps are the identity (`clampedSV_of_range`).

  What IEEE rounding does to the two forms is not covered (the oracle compares them within 4 ulp).
-/
import RosuModel.Props.C15ShiftLines
import RosuModel.Lemmas.ToyRat
namespace Rosu.C15
open Rosu Scalar Rosu.ToyRat

/-- `clamp` on `Rat`, written with `Rat`'s own order. -/
def ratClamp (x lo hi : Rat) : Rat := if x < lo then lo else if hi < x then hi else x

/-- `f64::clamp` of the model on the `Rat` instance. -/
theorem sClamp (x lo hi : Rat) (h : lo ≤ hi) : Scalar.clamp x lo hi = ratClamp x lo hi := by
  unfold Scalar.clamp ratClamp
  show (if decide (hi < (if decide (x < lo) = true then lo else x)) = true then hi
        else (if decide (x < lo) = true then lo else x)) = _
  by_cases c1 : x < lo
  · have : ¬ hi < lo := by grind
    simp [c1, this]
  · simp [c1]

theorem ratClamp_pos (x lo hi : Rat) (h1 : 0 < lo) (h2 : lo ≤ hi) : 0 < ratClamp x lo hi := by
  unfold ratClamp; split; exact h1; split <;> grind

theorem ratClamp_id (x lo hi : Rat) (h1 : lo ≤ x) (h2 : x ≤ hi) : ratClamp x lo hi = x := by
  unfold ratClamp
  have a : ¬ x < lo := by grind
  have b : ¬ hi < x := by grind
  simp [a, b]

/-- osu! / catch: `clamp(100/sv, 10, 10000)/100 = 1/clamp(sv, 0.01, 10)`. -/
theorem inv_clamp_osu (sv : Rat) (hsv : 0 < sv) :
    ratClamp (100 / sv) 10 10000 / 100 = 1 / ratClamp sv (1 / 100) 10 := by
  unfold ratClamp
  have h1 : (100 / sv < 10) ↔ (10 < sv) := by
    rw [Rat.div_lt_iff hsv]; constructor <;> intro h <;> grind
  have h2 : (10000 < 100 / sv) ↔ (sv < 1 / 100) := by
    rw [Rat.lt_div_iff hsv]; constructor <;> intro h <;> grind
  by_cases c1 : 10 < sv
  · have : ¬ sv < 1 / 100 := by grind
    simp only [h1, h2, c1, this, if_true, if_false]
    grind
  · by_cases c2 : sv < 1 / 100
    · simp only [h1, h2, c1, c2, if_true, if_false]
      grind
    · simp only [h1, h2, c1, c2, if_false]
      grind

/-- taiko / mania: `clamp(100/sv, 10, 1000)/100 = 1/clamp(sv, 0.1, 10)`. -/
theorem inv_clamp_taiko (sv : Rat) (hsv : 0 < sv) :
    ratClamp (100 / sv) 10 1000 / 100 = 1 / ratClamp sv (1 / 10) 10 := by
  unfold ratClamp
  have h1 : (100 / sv < 10) ↔ (10 < sv) := by
    rw [Rat.div_lt_iff hsv]; constructor <;> intro h <;> grind
  have h2 : (1000 < 100 / sv) ↔ (sv < 1 / 10) := by
    rw [Rat.lt_div_iff hsv]; constructor <;> intro h <;> grind
  by_cases c1 : 10 < sv
  · have : ¬ sv < 1 / 10 := by grind
    simp only [h1, h2, c1, this, if_true, if_false]
    grind
  · by_cases c2 : sv < 1 / 10
    · simp only [h1, h2, c1, c2, if_true, if_false]
      grind
    · simp only [h1, h2, c1, c2, if_false]
      grind

/-- "the active slider-velocity multiplier (clamped per mode)". -/
def clampedSV (mode : GameMode) (sv : Rat) : Rat :=
  match mode with
  | .osu | .catch => ratClamp sv (1 / 100) 10
  | .taiko | .mania => ratClamp sv (1 / 10) 10

/-- "100 × slider multiplier divided by the beat length active at its start scaled by the active
slider-velocity multiplier". -/
def wordedVelocity (mode : GameMode) (sm beatLen sv : Rat) : Rat := 100 * sm * clampedSV mode sv / beatLen

theorem clampedSV_pos (mode : GameMode) (sv : Rat) : 0 < clampedSV mode sv := by
  cases mode <;> exact ratClamp_pos _ _ _ (by grind) (by grind)

/-- inside `[0.1, 10]` no clamp acts, in any mode. -/
theorem clampedSV_of_range (mode : GameMode) (sv : Rat) (h1 : 1 / 10 ≤ sv) (h2 : sv ≤ 10) : clampedSV mode sv = sv := by
  cases mode <;> exact ratClamp_id _ _ _ (by grind) h2

/-- `get_precision_adjusted_beat_len` in exact arithmetic: the beat length divided by the clamped multiplier. -/
theorem precisionAdjusted_rat (mode : GameMode) (beatLen sv : Rat) (hsv : 0 < sv) :
    precisionAdjustedBeatLen sv beatLen mode = beatLen * (1 / clampedSV mode sv) := by
  unfold precisionAdjustedBeatLen
  simp only [sMul, sDiv, sNeg, sOfNat]
  have hneg : Scalar.lt (-(100 : Nat) / sv : Rat) ((0 : Nat) : Rat) = true := by
    show decide (_ < _) = true
    have : (-(100 : Nat) / sv : Rat) < 0 := by
      rw [Rat.div_lt_iff hsv]; grind
    simpa using this
  simp only [hneg, if_true]
  have e : (-(-(100 : Nat) / sv) : Rat) = 100 / sv := by grind
  cases mode <;> simp only [clampedSV, e] <;> rw [sClamp _ _ _ (by decide)]
  · have := inv_clamp_osu sv hsv; grind
  · have := inv_clamp_taiko sv hsv; grind
  · have := inv_clamp_osu sv hsv; grind
  · have := inv_clamp_taiko sv hsv; grind

/-- **velocity_worded**: the velocity expression of `slider_finalized` is the worded formula (exact arithmetic,
positive multiplier). -/
theorem velocity_worded (mode : GameMode) (sm beatLen sv : Rat) (hsv : 0 < sv) :
    (Cvt.up (100 : Rat) : Rat) * sm / precisionAdjustedBeatLen sv beatLen mode = wordedVelocity mode sm beatLen sv := by
  rw [precisionAdjusted_rat mode beatLen sv hsv]
  unfold wordedVelocity
  have hc := clampedSV_pos mode sv
  show (100 : Rat) * sm / (beatLen * (1 / clampedSV mode sv)) = _
  generalize clampedSV mode sv = c at hc ⊢
  by_cases hb : beatLen = 0
  · subst hb; simp [Rat.div_def]
  · have hc' : c ≠ 0 := by grind
    grind

/-- a multiplier stored through `DifficultyPoint::new` lies in `[0.1, 10]`. -/
theorem difficultyPoint_new_range (time beatLen m : Rat) :
    1 / 10 ≤ (DifficultyPoint.new time beatLen m).sliderVelocity ∧ (DifficultyPoint.new time beatLen m).sliderVelocity ≤ 10 := by
  unfold DifficultyPoint.new
  simp only [sOfNat, sOfSci]
  rw [sClamp _ _ _ (by grind)]
  unfold ratClamp
  split
  · constructor <;> grind
  · split
    · constructor <;> grind
    · constructor <;> grind

instance ratTrig : Trig Rat := ⟨fun _ => 0, fun _ => 1, fun _ => 0, fun _ _ => 0, 3⟩

/-- **slider_finalized_worded**: a finalised slider, in the property's words (exact arithmetic). With
`beat_len` / `sv` the values of the timing / difficulty point active at the start (defaults 1000 / 1) and `sv > 0`:
the stored velocity is `100·SM·clamp(sv)/beat_len`; node samples are resolved at `start + i·duration/spans + 5`
and object samples at `start + duration + 5` where `duration = spans · distance / velocity`. -/
theorem slider_finalized_worded (mode : GameMode) (sm : Rat) (cp : ControlPoints Rat) (h : HitObject Rat Rat)
    (s : HitObjectSlider Rat Rat) (bufs : CurveBuffers Rat Rat) (hk : h.kind = .slider s)
    (h' : HitObject Rat Rat) (bufs' : CurveBuffers Rat Rat)
    (hfin : finalizeObject mode sm cp h bufs = .ok (h', bufs'))
    (hsv : 0 < ((cp.difficultyPointAt h.startTime).map (·.sliderVelocity)).getD (1 : Rat)) :
    ∃ (curve : Curve Rat Rat) (b2 : CurveBuffers Rat Rat),
      Curve.new curveFuel s.path.mode s.path.controlPoints s.path.expectedDist bufs = .ok (curve, b2) ∧
      let beatLen := ((cp.timingPointAt h.startTime).map (·.beatLen)).getD (1000 : Rat)
      let sv := ((cp.difficultyPointAt h.startTime).map (·.sliderVelocity)).getD (1 : Rat)
      let velocity : Rat := wordedVelocity mode sm beatLen sv
      let spans : Rat := Scalar.ofInt (s.repeatCount + 1)
      let duration : Rat := spans * Curve.dist curve.lengths / velocity
      h'.kind = .slider { s with velocity := velocity,
                                 nodeSamples := applyNodeSamples cp h.startTime duration spans s.nodeSamples 0 } ∧
      h'.samples = h.samples.map
        (((cp.samplePointAt (h.startTime + duration + controlPointLeniency)).getD SamplePoint.default).apply) := by
  obtain ⟨curve, b2, hc, _, hkind, hsamp⟩ := slider_finalized mode sm cp h s bufs hk h' bufs' hfin
  refine ⟨curve, b2, hc, ?_⟩
  simp only [] at hkind hsamp ⊢
  rw [velocity_worded mode sm _ _ hsv] at hkind hsamp
  exact ⟨hkind, hsamp⟩

/-- the worded formula and the evaluated closed form on numbers: osu!, SM 1.4, 500 ms beats, sv 2 and sv 0.001
(clamped to 0.01); mania clamps 0.05 to 0.1. -/
example : (Cvt.up (100 : Rat) : Rat) * (7 / 5) / precisionAdjustedBeatLen 2 500 .osu = 14 / 25
    ∧ wordedVelocity .osu (7 / 5) 500 2 = 14 / 25
    ∧ wordedVelocity .osu (7 / 5) 500 (1 / 1000) = 7 / 2500
    ∧ wordedVelocity .mania (7 / 5) 500 (1 / 20) = 7 / 250 := by
  have w (mode : GameMode) (sm b sv lo r : Rat) (hm : clampedSV mode sv = ratClamp sv lo 10) (h1 : ¬ sv < lo)
      (h2 : ¬ 10 < sv) (hr : 100 * sm * sv / b = r) : wordedVelocity mode sm b sv = r := by
    unfold wordedVelocity; rw [hm]; unfold ratClamp; simp only [h1, h2, if_false]; exact hr
  have w' (mode : GameMode) (sm b sv lo r : Rat) (hm : clampedSV mode sv = ratClamp sv lo 10) (h1 : sv < lo)
      (hr : 100 * sm * lo / b = r) : wordedVelocity mode sm b sv = r := by
    unfold wordedVelocity; rw [hm]; unfold ratClamp; simp only [h1, if_true]; exact hr
  refine ⟨?_, ?_, ?_, ?_⟩
  · rw [velocity_worded _ _ _ _ (by grind)]
    exact w _ _ _ _ (1 / 100) _ rfl (by grind) (by grind) (by grind)
  · exact w _ _ _ _ (1 / 100) _ rfl (by grind) (by grind) (by grind)
  · exact w' _ _ _ _ (1 / 100) _ rfl (by grind) (by grind)
  · exact w' _ _ _ _ (1 / 10) _ rfl (by grind) (by grind)

end Rosu.C15
