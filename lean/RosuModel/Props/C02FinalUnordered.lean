/-
  Props/C02FinalUnordered.lean — the hypothesis "the `[HitObjects]` lines are in chronological order" of
  `decoded_finalized` is needed (toy codec `ZC`, evaluated in the kernel): the three lines

      256,192,0,8,0,1000      (spinner at 0)
      0,0,100,1,0             (circle at 100 — directly after a spinner: `new_combo` forced)
      0,0,50,1,0              (circle at 50 — after a circle: no `new_combo`)

  decode to a map whose sorted object list is spinner(0), circle(50, no new combo), circle(100, new combo): the plain circle
  now directly follows the spinner, so `Finalized.forced` fails (`unordered_not_finalized`). Encoding that map and decoding
  again forces `new_combo` on the circle at 50 — on non-chronological input the round trip does change combo flags, which
  is why the property is restricted to chronological files.
-/
import RosuModel.Props.C02FinalToy
import RosuModel.Props.C02FinalDecoded
set_option linter.unusedSectionVars false
set_option maxRecDepth 100000
namespace Rosu.C02
open Rosu Scalar

def unorderedState : BeatmapState ZC ZC :=
  [str "256,192,0,8,0,1000", str "0,0,100,1,0", str "0,0,50,1,0"].foldl (BeatmapState.step .hitObjects)
    (BeatmapState.create 14)

/-- (start time, is a spinner, `new_combo` of a circle / slider) of every object. -/
def comboView (l : List (HitObject ZC ZC)) : List (Int × Bool × Bool) :=
  l.map (fun h => (h.startTime.v, SliderRt.isSpinnerKind h.kind, lineNewCombo h.kind))

/-- `ForcedCombos` on the view. -/
def forcedB : Bool → List (Int × Bool × Bool) → Bool
  | _, [] => true
  | b, x :: xs => (!b || x.2.2) && forcedB x.2.1 xs

theorem forcedB_of_forced (b : Bool) (hs : List (HitObject ZC ZC)) (h : ForcedCombos b hs) : forcedB b (comboView hs) = true := by
  induction hs generalizing b with
  | nil => rfl
  | cons x xs ih =>
    show ((!b || lineNewCombo x.kind) && forcedB (SliderRt.isSpinnerKind x.kind) (comboView xs)) = true
    rw [ih _ h.2, Bool.and_true]
    cases b with
    | false => rfl
    | true => simp [h.1 rfl]

/-- the pushed objects, in file order (not chronological), obey the decoder's rules … -/
theorem unordered_pushed :
    comboView unorderedState.hitObjects.core.hitObjects = [(0, true, true), (100, false, true), (50, false, false)] := by decide

def dummyObj : HitObject ZC ZC := ⟨⟨0⟩, .hold ⟨⟨0⟩, ⟨0⟩⟩, []⟩
def oA : HitObject ZC ZC := unorderedState.hitObjects.core.hitObjects.getD 0 dummyObj
def oB : HitObject ZC ZC := unorderedState.hitObjects.core.hitObjects.getD 1 dummyObj
def oC : HitObject ZC ZC := unorderedState.hitObjects.core.hitObjects.getD 2 dummyObj

theorem unordered_three : unorderedState.hitObjects.core.hitObjects = [oA, oB, oC] := by rfl

/-- the stable sort of three objects with keys `a ≤ c < b`. -/
theorem sort3 (a b c : HitObject ZC ZC) (h1 : totalKey a.startTime ≤ totalKey c.startTime)
    (h2 : totalKey c.startTime < totalKey b.startTime) : sortByStartTime [a, b, c] = [a, c, b] := by
  have h3 : totalKey a.startTime ≤ totalKey b.startTime := by omega
  have h4 : ¬ totalKey b.startTime ≤ totalKey c.startTime := by omega
  simp [sortByStartTime, List.mergeSort, List.MergeSort.Internal.splitInTwo, h1, h3, h4]

theorem unordered_sorted : sortByStartTime unorderedState.hitObjects.core.hitObjects = [oA, oC, oB] := by
  rw [unordered_three]
  exact sort3 _ _ _ (by decide) (by decide)

theorem comboView_objView (l : List (HitObject ZC ZC)) :
    comboView l = (l.map objView).map (fun v => (v.1.v, SliderRt.isSpinnerKind v.2, lineNewCombo v.2)) := by
  induction l with
  | nil => rfl
  | cons x xs ih =>
    simp only [comboView, List.map_cons, List.map_map] at ih ⊢
    rw [ih]
    congr 1
    unfold objView
    cases x.kind <;> rfl

/-- … and every finished map has them sorted: spinner(0), plain circle(50), circle(100). -/
theorem unordered_finished (m : Beatmap ZC ZC) (hf : unorderedState.finish = .ok m) :
    comboView m.hitObjects = [(0, true, true), (50, false, false), (100, false, true)] := by
  have h := FileRt.finish_hitObjects unorderedState m hf
  rw [unordered_sorted] at h
  have hv := finalizeObjects_view _ _ _ _ _ _ h
  rw [comboView_objView, hv]
  rfl

/-- finalisation succeeds. -/
theorem unordered_finish_ok : ∃ m, unorderedState.finish = .ok m := by
  unfold BeatmapState.finish HitObjectsState.finish
  simp only [unordered_sorted]
  exact ⟨_, rfl⟩

/-- **the decoded map of a non-chronological file need not be `Finalized`.** -/
theorem unordered_not_finalized : ∃ m, unorderedState.finish = .ok m ∧ ¬ Finalized m := by
  obtain ⟨m, hf⟩ := unordered_finish_ok
  refine ⟨m, hf, fun hfin => ?_⟩
  have := forcedB_of_forced true _ hfin.forced
  rw [unordered_finished m hf] at this
  revert this
  decide

/-- the pushed list is indeed not chronological, and it satisfies the line decoder's invariant. -/
theorem unordered_not_chronological : ¬ Chronological unorderedState.hitObjects.core.hitObjects := by
  unfold Chronological
  decide

theorem unordered_coreInv : CoreInv unorderedState.hitObjects.core := by
  unfold unorderedState
  simp only [List.foldl_cons, List.foldl_nil]
  exact coreInv_step _ _ _ (coreInv_step _ _ _ (coreInv_step _ _ _ coreInv_empty))

end Rosu.C02
