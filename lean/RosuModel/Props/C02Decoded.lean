/-
  Props/C02Decoded.lean — `records_roundtrip` (Props/C02.lean) instantiated for every DECODED map: the assumption that the
  record sections are representable (`RtFile.RepRecords`) is discharged by the `Decoded` invariant
  (`C04.decoded_inv`, Lemmas/DecodedInv*.lean). What remains is exactly what the decoder does not guarantee by
  construction: the codec laws, that the codec represents the map's float values (`FloatsRep`, implied by the single law
  `LimitRep`), and that neither file name contains `//` (finding F16, `NoDoubleSlash`).
-/
import RosuModel.Props.C02
import RosuModel.Props.C04Decoded
namespace Rosu.C02
open Rosu Encode EncodeLines Scalar DecodedInv
set_option linter.unusedSectionVars false

variable {F P : Type} [Scalar F] [Scalar P] [Cvt P F] [Trig F] [Trig P] {RF : F → Prop} {RP : P → Prop}

/-- **records_roundtrip_decoded** — the property's own quantifier: decode any bytes to a map `m`, encode it, decode the
text again. Under the codec laws, `FloatsRep` and the F16 exclusion (and the two list blocks being LF-terminated record
lines, as in `records_roundtrip`): reading succeeds, and whenever finalisation succeeds the re-decoded map has the same
format version, general (preserved view), editor, metadata (preserved view: non-positive ids come back as the defaults),
difficulty, events — and the very same colours (a decoded map has alpha 255 everywhere, so the colour view is the
identity). -/
theorem records_roundtrip_decoded (C : ConstFacts F P) (LF : CodecLaws F RF) (LP : CodecLaws P RP) (LI : IntPrintLaw F)
    (bytes : List UInt8) (st : BeatmapState F P) (m : Beatmap F P)
    (h : decodeBytes beatmapDecoder bytes = .ok st) (hf : st.finish = .ok m)
    (hr : FloatsRep RF RP m) (hds : NoDoubleSlash m) (t : Str) (T H : List Str) (he : encode m = .ok t)
    (hT : encodeTimingPoints m = .ok (unlines (str "[TimingPoints]" :: T)))
    (hH : encodeHitObjects m = .ok (unlines (str "[HitObjects]" :: H)))
    (sT : RtFile.ListBlockShape T) (sH : RtFile.ListBlockShape H) :
    ∃ st2 : BeatmapState F P, decodeBytes beatmapDecoder (utf8Encode t) = .ok st2 ∧
      ∀ m2 : Beatmap F P, st2.finish = .ok m2 →
        m2.formatVersion = m.formatVersion ∧
        m2.general = RtGeneral.preservedGeneral m.general (RtGeneral.sampleSetOf m.controlPoints) ∧
        m2.editor = m.editor ∧ m2.metadata = RtMetadata.preservedMetadata m.metadata ∧ m2.difficulty = m.difficulty ∧
        m2.events = m.events ∧ m2.colors = m.colors := by
  have hi := C04.decoded_map_inv C bytes st m h hf
  obtain ⟨st2, h2, hrt⟩ := records_roundtrip LF LP LI m (repRecords_of_decInv m hi hr hds) t T H he hT hH sT sH
  refine ⟨st2, h2, fun m2 hm2 => ?_⟩
  have := hrt m2 hm2
  rw [preservedColors_of_opaque _ hi.alpha] at this
  exact this

/-- the same with the float side as one codec law. -/
theorem records_roundtrip_decoded_of_limitRep (C : ConstFacts F P) (LF : CodecLaws F RF) (LP : CodecLaws P RP) (LI : IntPrintLaw F)
    (LRF : LimitRep RF) (LRP : LimitRep RP) (bytes : List UInt8) (st : BeatmapState F P) (m : Beatmap F P)
    (h : decodeBytes beatmapDecoder bytes = .ok st) (hf : st.finish = .ok m) (hds : NoDoubleSlash m)
    (t : Str) (T H : List Str) (he : encode m = .ok t)
    (hT : encodeTimingPoints m = .ok (unlines (str "[TimingPoints]" :: T)))
    (hH : encodeHitObjects m = .ok (unlines (str "[HitObjects]" :: H)))
    (sT : RtFile.ListBlockShape T) (sH : RtFile.ListBlockShape H) :
    ∃ st2 : BeatmapState F P, decodeBytes beatmapDecoder (utf8Encode t) = .ok st2 ∧
      ∀ m2 : Beatmap F P, st2.finish = .ok m2 →
        m2.formatVersion = m.formatVersion ∧
        m2.general = RtGeneral.preservedGeneral m.general (RtGeneral.sampleSetOf m.controlPoints) ∧
        m2.editor = m.editor ∧ m2.metadata = RtMetadata.preservedMetadata m.metadata ∧ m2.difficulty = m.difficulty ∧
        m2.events = m.events ∧ m2.colors = m.colors :=
  records_roundtrip_decoded C LF LP LI bytes st m h hf
    (floatsRep_of_limitRep LRF LRP m (C04.decoded_map_inv C bytes st m h hf)) hds t T H he hT hH sT sH

/-- non-vacuity (toy codec): the decoded sample of Props/C04Decoded.lean satisfies every hypothesis. -/
example (t : Str) (he : encode C04.decodedSampleMap = .ok t) :=
  records_roundtrip_decoded_of_limitRep ZC.constFacts ZC.laws ZC.laws ZC.intPrintLaw ZC.limitRep ZC.limitRep _ _ _
    C04.decodedSample_decodes C04.decodedSample_finishes C04.decodedSample_noDoubleSlash t [] [] he
    C04.decodedSample_timing_text C04.decodedSample_objects_text
    (fun _ h => absurd h List.not_mem_nil) (fun _ h => absurd h List.not_mem_nil)

example : ∃ t, encode C04.decodedSampleMap = .ok t := C04.decodedSample_encodes

end Rosu.C02
