/-
  Props/C19DecodedLinearLen2.lean — C19 / C16 on IEEE floats, linear sliders WITH a requested length: the hypothesis
  `hcut` / `LenAdjOk` of Props/C19DecodedLinearLen.lean DISCHARGED by the C16 end-point theorems
  `C16.cut_end_point_near_segment_float` (cut regime) and `C16.ext_end_point_err_float32` (extension regime; it is the
  theorem behind `C16.ext_end_point_near_ray`, with the parameter `ρ = τ/ℓ` explicit).

  WHAT THE C16 THEOREMS DO NOT GIVE: **finiteness of the cut point**. Both take `(reproject pp pe t).x.isFinite = true`,
  `.y.isFinite = true` as HYPOTHESES (`hfx`, `hfy`) and conclude nearness in `toRat32` only (which is `0` for `∞` / NaN).
  So finiteness of the re-projected end point stays a hypothesis here (`C16Side.fin`); it is the single hypothesis that is
  about the RESULT of the re-projection, all others are about its inputs (segment length `ℓ`, booked length `len_k`, `L`).

  * `Bounded17`, `CutSide` (exactly the side conditions of `cut_end_point_near_segment_float`), `ExtSide` (exactly those of
    `ext_end_point_near_ray`, with the travel bound `ρ|Δx|, ρ|Δy| ≤ 2¹⁸` instead of `2²¹`: with `2²¹` the end point is only
    bounded by `2¹⁷ + 2²¹ > 2¹⁹`, `Bounded19` does NOT follow; `2¹⁸` is what `L ≤ 131072` gives — `τ ≲ L`, `|Δ|/ℓ ≲ 1` —
    but that derivation from the control points is not done here), `C16Side` (finiteness + `ℓ` finite + one of the two);
  * `cutPoint_ok_of_c16` (any path), **`cutPoint_lenAdjOk_of_c16`** (natural path of all-linear control points bounded by
    `2¹⁷`), **`linear_curve_len_position_err_float32_of_c16`** (the position theorem, `hcut` replaced by `C16Side`);
  * kernel-evaluated: `C16Side` holds for the demo control points with `L = 40` (cut) and `L = 60` (extension).
-/
import RosuModel.Props.C19DecodedLinearLen
namespace Rosu.C19
open Rosu Rosu.Curve Rosu.C16 Rosu.FErr
open Float.Model Float.Model.UnpackedFloat

/-- coordinates bounded by `2¹⁷ = 131072` (`MAX_COORDINATE_VALUE` of the decoder). -/
def Bounded17 (p : Pos Float32) : Prop := |toRat32 p.x| ≤ 131072 ∧ |toRat32 p.y| ≤ 131072

theorem Bounded17.b19 {p : Pos Float32} (h : Bounded17 p) : Bounded19 p :=
  ⟨le_trans h.1 (by norm_num), le_trans h.2 (by norm_num)⟩

/-- `p_k`, `p_{k+1}`, `len_k` of the re-projection `cutPoint 0 path L` (`C16.cutPoint_eq_reproject`). -/
abbrev cutPP (path : List (Pos Float32)) (L : Float) : Pos Float32 := path.getD (cutIdx (0 : Float) path L - 1) Pos.zero
abbrev cutPE (path : List (Pos Float32)) (L : Float) : Pos Float32 := path.getD (cutIdx (0 : Float) path L) Pos.zero
abbrev cutLk (path : List (Pos Float32)) (L : Float) : Float :=
  (natLens (0 : Float) path).dropLast.getD (cutIdx (0 : Float) path L - 1) 0

/-- the side conditions of `C16.cut_end_point_near_segment_float` (all but finiteness of the result, finiteness of `ℓ` and
the bounds on `pp`, `pe`): `2⁻¹⁰⁰ ≤ ℓ ≤ 2²¹`, no overflow in `len_k ⊕ f64::from(ℓ)` and `L ⊖ len_k`,
`len_k ≤ L ≤ len_k ⊕ f64::from(ℓ)` (IEEE order), `0 ≤ len_k ≤ 2²⁷ ℓ`. -/
structure CutSide (pp pe : Pos Float32) (L lk : Float) : Prop where
  hle : toRat32 (Pos.length Float (pe - pp)) ≤ 2097152
  hℓmin : (2 : ℚ) ^ (-100 : Int) ≤ toRat32 (Pos.length Float (pe - pp))
  hfs : (lk + (Cvt.up (Pos.length Float (pe - pp)) : Float)).isFinite = true
  hfd : (L - lk).isFinite = true
  hlL : Scalar.le lk L = true
  hLs : Scalar.le L (lk + (Cvt.up (Pos.length Float (pe - pp)) : Float)) = true
  hl0 : 0 ≤ toRat lk
  hlℓ : toRat lk ≤ 134217728 * toRat32 (Pos.length Float (pe - pp))

/-- the side conditions of `C16.ext_end_point_near_ray` (all but finiteness of the result, of `ℓ`, and the bound on `pp`),
`τ` the value of `(L − len_k) as f32`: `0 < ℓ ≤ 2¹²⁶`, `0 ≤ τ ≤ 2⁴⁰`, and the extension travels at most `2¹⁸` px along each
axis (`ext_end_point_near_ray` has `2²¹` here, which is not enough for `Bounded19`). -/
structure ExtSide (pp pe : Pos Float32) (L lk : Float) : Prop where
  hpos : 0 < toRat32 (Pos.length Float (pe - pp))
  hle : toRat32 (Pos.length Float (pe - pp)) ≤ (2 : ℚ) ^ (126 : Int)
  ht0 : 0 ≤ toRat32 (Cvt.down (L - lk) : Float32)
  hM : toRat32 (Cvt.down (L - lk) : Float32) ≤ (2 : ℚ) ^ (40 : Int)
  hSx : |toRat32 (Cvt.down (L - lk) : Float32) / toRat32 (Pos.length Float (pe - pp)) *
      (toRat32 pe.x - toRat32 pp.x)| ≤ 262144
  hSy : |toRat32 (Cvt.down (L - lk) : Float32) / toRat32 (Pos.length Float (pe - pp)) *
      (toRat32 pe.y - toRat32 pp.y)| ≤ 262144

/-- everything the C16 end-point theorems need about the re-projection of `path` at `L`, except the bounds on the two base
vertices: `fin` — the result is finite (NOT a conclusion of the C16 theorems, see the file header) —, the `f32` segment length
is finite, and the side conditions of the cut OR of the extension regime. -/
structure C16Side (path : List (Pos Float32)) (L : Float) : Prop where
  fin : FinitePos (cutPoint (0 : Float) path L)
  hell : (Pos.length Float (cutPE path L - cutPP path L)).isFinite = true
  regime : CutSide (cutPP path L) (cutPE path L) L (cutLk path L) ∨
    ExtSide (cutPP path L) (cutPE path L) L (cutLk path L)

theorem ext_bound_q (a x s : ℚ) (ha : |a| ≤ 131072) (hs : |s| ≤ 262144)
    (hx : |x - (a + s)| ≤ (2 : ℚ) ^ (-5 : Int) + (5 * (2 : ℚ) ^ (-24 : Int) + (2 : ℚ) ^ (-44 : Int)) * |s| +
      (2 : ℚ) ^ (-100 : Int)) : |x| ≤ 524288 := by
  have c : (0 : ℚ) ≤ 5 * (2 : ℚ) ^ (-24 : Int) + (2 : ℚ) ^ (-44 : Int) := by norm_num
  have cx := mul_le_mul_of_nonneg_left hs c
  have n : (2 : ℚ) ^ (-5 : Int) + (5 * (2 : ℚ) ^ (-24 : Int) + (2 : ℚ) ^ (-44 : Int)) * 262144 +
      (2 : ℚ) ^ (-100 : Int) ≤ 1 := by norm_num
  obtain ⟨a1, a2⟩ := abs_le.mp ha
  obtain ⟨s1, s2⟩ := abs_le.mp hs
  obtain ⟨x1, x2⟩ := abs_le.mp (le_trans hx (le_trans (by linarith) n))
  rw [abs_le]; constructor <;> linarith

/-- **the re-projected end point is finite and bounded by `2¹⁹`** for any path whose two base vertices are bounded by `2¹⁷`,
under `C16Side`. Cut regime: `cut_end_point_near_segment_float` + `bounded19_of_near_segment`; extension regime:
`ext_end_point_err_float32` + the travel bound. -/
theorem cutPoint_ok_of_c16 (path : List (Pos Float32)) (L : Float)
    (hpp : Bounded17 (cutPP path L)) (hpe : Bounded17 (cutPE path L)) (hs : C16Side path L) :
    FinitePos (cutPoint (0 : Float) path L) ∧ Bounded19 (cutPoint (0 : Float) path L) := by
  refine ⟨hs.fin, ?_⟩
  have hfin := hs.fin
  have hell := hs.hell
  rw [cutPoint_eq_reproject] at hfin ⊢
  rcases hs.regime with hc | he
  · obtain ⟨ρ, h0, h1, hx, hy⟩ := cut_end_point_near_segment_float (cutPP path L) (cutPE path L) L (cutLk path L)
      hfin.1 hfin.2 hell hpp.b19 hpe.b19 hc.hle hc.hℓmin hc.hfs hc.hfd hc.hlL hc.hLs hc.hl0 hc.hlℓ
    exact bounded19_of_near_segment _ _ _ ρ h0 (by linarith) hpp.1 hpp.2 hpe.1 hpe.2
      (le_trans hx (by norm_num)) (le_trans hy (by norm_num))
  · obtain ⟨_, hx, hy⟩ := ext_end_point_err_float32 (cutPP path L) (cutPE path L) (Cvt.down (L - cutLk path L))
      hfin.1 hfin.2 hell hpp.b19 he.hpos he.hle he.ht0 he.hM
    exact ⟨ext_bound_q _ _ _ hpp.1 he.hSx hx, ext_bound_q _ _ _ hpp.2 he.hSy hy⟩

section New
variable [Trig Float32]

/-- **`cutPoint_lenAdjOk_of_c16`**: the natural path `b1.path` of all-linear control points bounded by `2¹⁷`, main (cut /
extension) outcome at `L`: under `C16Side b1.path L` the cut point is `FinitePos ∧ Bounded19` — the hypothesis `hcut` of
`linear_curve_len_lenAdjOk` / `linear_curve_len_position_err_float32_of_cutPoint`. -/
theorem cutPoint_lenAdjOk_of_c16 (fuel : Nat) (mode : GameMode) (pts : List (PathControlPoint Float32)) (L : Float)
    (b b1 : CurveBuffers Float32 Float) (hl : AllLinear pts)
    (hbd : ∀ cp ∈ pts, Bounded17 cp.pos)
    (hp : calculatePath fuel mode pts b = .ok (b1, (0 : Float))) (hm : MainOutcome (0 : Float) b1.path L)
    (hs : C16Side b1.path L) :
    FinitePos (cutPoint (0 : Float) b1.path L) ∧ Bounded19 (cutPoint (0 : Float) b1.path L) := by
  obtain ⟨⟨cp, hcp, e1⟩, ⟨cp', hcp', e2⟩⟩ := cutPoint_base_vertices fuel mode pts L b b1 hl hp hm
  have h1 : Bounded17 (cutPP b1.path L) := by
    show Bounded17 (b1.path.getD (cutIdx (0 : Float) b1.path L - 1) Pos.zero)
    rw [← e1]; exact hbd cp hcp
  have h2 : Bounded17 (cutPE b1.path L) := by
    show Bounded17 (b1.path.getD (cutIdx (0 : Float) b1.path L) Pos.zero)
    rw [← e2]; exact hbd cp' hcp'
  exact cutPoint_ok_of_c16 b1.path L h1 h2 hs

/-- **`linear_curve_len_position_err_float32_of_c16`**: control points all linear, finite, bounded by `2¹⁷`; finite
requested length; no equal tail (`hnt`); in the main outcome the C16 side conditions on the cut / last segment of the
natural path (`hside`). Then `position_at(q)` is within `1/4` px per coordinate of the polyline through the adjusted
path's vertices. -/
theorem linear_curve_len_position_err_float32_of_c16 (fuel : Nat) (mode : GameMode)
    (pts : List (PathControlPoint Float32)) (L : Float)
    (b b' : CurveBuffers Float32 Float) (c : Curve Float32 Float) (q : Float)
    (hl : AllLinear pts) (hne : pts ≠ [])
    (hbd : ∀ cp ∈ pts, Bounded17 cp.pos) (hfp : ∀ cp ∈ pts, FinitePos cp.pos) (hL : FX.Finite64 L)
    (h : Curve.new fuel mode pts (some L) b = .ok (c, b'))
    (hnt : ∀ b1, calculatePath fuel mode pts b = .ok (b1, (0 : Float)) → equalTail (0 : Float) b1.path L = false)
    (hside : ∀ b1, calculatePath fuel mode pts b = .ok (b1, (0 : Float)) → MainOutcome (0 : Float) b1.path L →
      C16Side b1.path L)
    (hq : Scalar.isNaN q = false) : NearAdjustedPolyline pts c q :=
  linear_curve_len_position_err_float32_of_cutPoint fuel mode pts L b b' c q hl hne
    (fun cp hcp => (hbd cp hcp).b19) hfp hL h hnt
    (fun b1 hp hm => cutPoint_lenAdjOk_of_c16 fuel mode pts L b b1 hl hbd hp hm (hside b1 hp hm)) hq

end New

/-! ## non-vacuity: control points `(100,200) L, (107,224), (100,200)`, `L = 40` (cut) and `L = 60` (extension) -/

section Examples

attribute [local instance] C16.trigStub32
attribute [local instance] posDecEq32

/-- the natural path of the demo control points. -/
def natP3 : List (Pos Float32) := [demoPP, demoPE, demoPP]

theorem linCps_natpath (b1 : CurveBuffers Float32 Float)
    (h : calculatePath 10 GameMode.osu linCps ({} : CurveBuffers Float32 Float) = .ok (b1, (0 : Float))) :
    b1.path = natP3 := by
  have key : ((calculatePath 10 GameMode.osu linCps ({} : CurveBuffers Float32 Float)).toOption.map
      fun r => decide (r.1.path = natP3)) = some true := by decide +kernel
  rw [h] at key
  simpa [Except.toOption] using key

theorem demo_35 : toRat32 (Float32.ofBits 0x420C0000) = 35 := by
  rw [toRat32_bits (s := .positive) (m := 9175040) (e := -18) (hm := by decide) (by decide) rfl]; norm_num [sgnQ]

/-- the last segment `(107,224) → (100,200)` has `f32` length `25`. -/
theorem len_back : Pos.length Float (demoPP - demoPE) = Float32.ofBits 0x41C80000 := by decide +kernel

theorem bits40 : cutPP natP3 40 = demoPE ∧ cutPE natP3 40 = demoPP ∧ cutLk natP3 40 = 25 ∧
    cutPoint (0 : Float) natP3 40 = cut40 := by decide +kernel

theorem bits60 : cutPP natP3 60 = demoPE ∧ cutPE natP3 60 = demoPP ∧ cutLk natP3 60 = 25 ∧
    cutPoint (0 : Float) natP3 60 = ext60 ∧ (Cvt.down ((60 : Float) - 25) : Float32) = Float32.ofBits 0x420C0000 := by
  decide +kernel

theorem linCps_bounded17 : ∀ cp ∈ linCps, Bounded17 cp.pos := by
  intro cp hcp
  simp only [linCps, List.mem_cons, List.not_mem_nil, or_false] at hcp
  have hP : Bounded17 demoPP :=
    ⟨by show |toRat32 (Float32.ofBits 0x42C80000)| ≤ _; rw [demo_100]; norm_num,
     by show |toRat32 (Float32.ofBits 0x43480000)| ≤ _; rw [demo_200]; norm_num⟩
  have hE : Bounded17 demoPE :=
    ⟨by show |toRat32 (Float32.ofBits 0x42D60000)| ≤ _; rw [demo_107]; norm_num,
     by show |toRat32 (Float32.ofBits 0x43600000)| ≤ _; rw [demo_224]; norm_num⟩
  rcases hcp with rfl | rfl | rfl
  · exact hP
  · exact hE
  · exact hP

/-- `L = 40`: the cut regime in the segment `(107,224) → (100,200)`, `len_k = 25 ≤ 40 ≤ 25 ⊕ 25`. -/
theorem cutSide40 : CutSide demoPE demoPP 40 25 where
  hle := by rw [len_back, demo_25]; norm_num
  hℓmin := by rw [len_back, demo_25]; norm_num
  hfs := by rw [len_back]; decide +kernel
  hfd := by decide +kernel
  hlL := by decide +kernel
  hLs := by rw [len_back]; decide +kernel
  hl0 := by rw [toRat_25]; norm_num
  hlℓ := by rw [toRat_25, len_back, demo_25]; norm_num

/-- `L = 60`: the extension regime, `τ = 35`, `ℓ = 25`, travel `35/25 · (7, 24) = (9.8, 33.6)`. -/
theorem extSide60 : ExtSide demoPE demoPP 60 25 := by
  have a1 : toRat32 demoPP.x = 100 := demo_100
  have a2 : toRat32 demoPP.y = 200 := demo_200
  have a3 : toRat32 demoPE.x = 107 := demo_107
  have a4 : toRat32 demoPE.y = 224 := demo_224
  have bt := bits60.2.2.2.2
  constructor
  · rw [len_back, demo_25]; norm_num
  · rw [len_back, demo_25]; norm_num
  · rw [bt, demo_35]; norm_num
  · rw [bt, demo_35]; norm_num
  · rw [bt, demo_35, len_back, demo_25, a1, a3, abs_le]; constructor <;> norm_num
  · rw [bt, demo_35, len_back, demo_25, a2, a4, abs_le]; constructor <;> norm_num

theorem c16Side40 : C16Side natP3 40 := by
  obtain ⟨e1, e2, e3, e4⟩ := bits40
  refine ⟨?_, ?_, Or.inl ?_⟩
  · rw [e4]; exact ⟨by decide +kernel, by decide +kernel⟩
  · rw [e1, e2, len_back]; decide +kernel
  · rw [e1, e2, e3]; exact cutSide40

theorem c16Side60 : C16Side natP3 60 := by
  obtain ⟨e1, e2, e3, e4, _⟩ := bits60
  refine ⟨?_, ?_, Or.inr ?_⟩
  · rw [e4]; exact ⟨by decide +kernel, by decide +kernel⟩
  · rw [e1, e2, len_back]; decide +kernel
  · rw [e1, e2, e3]; exact extSide60

/-- **every hypothesis of `linear_curve_len_position_err_float32_of_c16` holds for `L = 40` (cut), progress `0.9`.** -/
example : ∃ c b', Curve.new 10 GameMode.osu linCps (some 40) ({} : CurveBuffers Float32 Float) = .ok (c, b') ∧
    c.path = [demoPP, demoPE, cut40] ∧ NearAdjustedPolyline linCps c 0.9 := by
  obtain ⟨c, b', h, hp, _⟩ := linCps_curve40
  refine ⟨c, b', h, hp, ?_⟩
  exact linear_curve_len_position_err_float32_of_c16 10 GameMode.osu linCps 40 {} b' c 0.9 linCps_allLinear
    (by simp [linCps]) linCps_bounded17 linCps_finite (by decide +kernel) h
    (fun b1 hb => by rw [linCps_natpath b1 hb]; decide +kernel)
    (fun b1 hb _ => by rw [linCps_natpath b1 hb]; exact c16Side40) (by decide +kernel)

/-- **every hypothesis of `linear_curve_len_position_err_float32_of_c16` holds for `L = 60` (extension), progress `0.9`.** -/
example : ∃ c b', Curve.new 10 GameMode.osu linCps (some 60) ({} : CurveBuffers Float32 Float) = .ok (c, b') ∧
    c.path = [demoPP, demoPE, ext60] ∧ NearAdjustedPolyline linCps c 0.9 := by
  obtain ⟨c, b', h, hp, _⟩ := linCps_curve60
  refine ⟨c, b', h, hp, ?_⟩
  exact linear_curve_len_position_err_float32_of_c16 10 GameMode.osu linCps 60 {} b' c 0.9 linCps_allLinear
    (by simp [linCps]) linCps_bounded17 linCps_finite (by decide +kernel) h
    (fun b1 hb => by rw [linCps_natpath b1 hb]; decide +kernel)
    (fun b1 hb _ => by rw [linCps_natpath b1 hb]; exact c16Side60) (by decide +kernel)

end Examples

#print axioms cutPoint_ok_of_c16
#print axioms cutPoint_lenAdjOk_of_c16
#print axioms linear_curve_len_position_err_float32_of_c16

end Rosu.C19
